#![no_main]
//! C01 coverage-guided: bytes are decoded into a legal writer program and judged by the
//! write-then-read model (finish vs drop, every accessor, independent CRC).
use arbitrary::Unstructured;
use libfuzzer_sys::fuzz_target;

fuzz_target!(|data: &[u8]| {
    let mut u = Unstructured::new(data);
    let Some(p) = zipverif::props::c01::decode_program(&mut u) else { return };
    let sel = u.arbitrary::<u8>().unwrap_or(0) as usize;
    if let Err(m) = zipverif::props::c01::check_program(&p, sel) {
        panic!("C01 violation: {m}");
    }
});
