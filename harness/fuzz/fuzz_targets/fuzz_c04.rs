#![no_main]
//! C04 coverage-guided: for arbitrary bytes accepted as an archive, every entry that can be
//! opened without a password and read to end-of-file without error returned bytes whose
//! independent CRC-32 equals crc32() (no AES entry can be opened without a password, so no
//! exemption is needed); same through the streaming reader.
use libfuzzer_sys::fuzz_target;
use std::io::Read;

fn drain<R: Read>(r: &mut R, chunk: usize) -> Option<Vec<u8>> {
    let mut out = Vec::new();
    let mut buf = vec![0u8; chunk];
    loop {
        match r.read(&mut buf) {
            Ok(0) => return Some(out),
            Ok(n) => out.extend_from_slice(&buf[..n]),
            Err(_) => return None,
        }
        if out.len() > (4 << 20) {
            return None;
        }
    }
}

fuzz_target!(|data: &[u8]| {
    if zipverif::robust::mentions_bzip2(data) {
        return; // known finding C05/bzip2-c-decoder-uninitialised-read: crafted Bzip2 data can crash libbz2 itself
    }
    let chunk = 1 + (data.len() % 61);
    let _ = std::panic::catch_unwind(|| {
        if let Ok(mut za) = zip::ZipArchive::new(std::io::Cursor::new(data)) {
            for i in 0..za.len().min(32) {
                if let Ok(mut f) = za.by_index(i) {
                    let declared = f.crc32();
                    if let Some(d) = drain(&mut f, chunk) {
                        let c = zipverif::refzip::crypto::crc32(&d);
                        if c != declared {
                            eprintln!("C04 violation: entry {i}: read completed, CRC {c:#x} != declared {declared:#x}");
                            std::process::abort();
                        }
                    }
                }
            }
        }
        let mut cur = std::io::Cursor::new(data);
        for _ in 0..32 {
            match zip::read::read_zipfile_from_stream(&mut cur) {
                Ok(Some(mut f)) => {
                    let declared = f.crc32();
                    if let Some(d) = drain(&mut f, chunk) {
                        let c = zipverif::refzip::crypto::crc32(&d);
                        if c != declared {
                            eprintln!("C04 violation (stream): read completed, CRC {c:#x} != declared {declared:#x}");
                            std::process::abort();
                        }
                    }
                }
                _ => break,
            }
        }
    });
});
