#![no_main]
//! C05 coverage-guided: arbitrary bytes through every reader entry point and the append opener;
//! the semantic oracle (no panic, I/O budget, memory bound) is inside the target.
use libfuzzer_sys::fuzz_target;

#[global_allocator]
static GLOBAL: zipverif::alloc::Counting = zipverif::alloc::Counting;

fuzz_target!(|data: &[u8]| {
    if zipverif::robust::mentions_bzip2(data) {
        return; // known finding: crafted Bzip2 data can crash libbz2 itself
    }
    if let Err(m) = zipverif::robust::exercise(data) {
        panic!("C05 violation: {m}");
    }
});
