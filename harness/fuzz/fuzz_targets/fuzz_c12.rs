#![no_main]
//! C12 coverage-guided: bytes are decoded into a writer call sequence (arbitrary::Unstructured) and
//! judged by the same state-machine model as the enumerated check.
use arbitrary::Unstructured;
use libfuzzer_sys::fuzz_target;
use zipverif::props::c12::{decode_call, check_sequence};

fuzz_target!(|data: &[u8]| {
    let mut u = Unstructured::new(data);
    let mut seq = Vec::new();
    while !u.is_empty() && seq.len() < 64 {
        match decode_call(&mut u) {
            Some(c) => seq.push(c),
            None => break,
        }
    }
    let mut info = zipverif::engine::Info::default();
    if let Err(m) = check_sequence(&seq, &mut info) {
        panic!("C12 violation: {m}");
    }
});
