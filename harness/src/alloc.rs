//! Counting global allocator with per-thread accounting (used by C05's memory bound).
use std::alloc::{GlobalAlloc, Layout, System};
use std::cell::Cell;

pub struct Counting;

thread_local! {
    static CUR: Cell<isize> = const { Cell::new(0) };
    static PEAK: Cell<isize> = const { Cell::new(0) };
    static CAP: Cell<isize> = const { Cell::new(isize::MAX) };
    static CAP_HIT: Cell<bool> = const { Cell::new(false) };
}

unsafe impl GlobalAlloc for Counting {
    unsafe fn alloc(&self, l: Layout) -> *mut u8 {
        let sz = l.size() as isize;
        let over = CUR
            .try_with(|c| {
                let n = c.get() + sz;
                let cap = CAP.try_with(|x| x.get()).unwrap_or(isize::MAX);
                if n > cap {
                    let _ = CAP_HIT.try_with(|h| h.set(true));
                    return true;
                }
                c.set(n);
                let _ = PEAK.try_with(|p| {
                    if n > p.get() {
                        p.set(n)
                    }
                });
                false
            })
            .unwrap_or(false);
        if over {
            return std::ptr::null_mut();
        }
        System.alloc(l)
    }
    unsafe fn dealloc(&self, p: *mut u8, l: Layout) {
        let _ = CUR.try_with(|c| c.set(c.get() - l.size() as isize));
        System.dealloc(p, l)
    }
    unsafe fn realloc(&self, p: *mut u8, l: Layout, new: usize) -> *mut u8 {
        let d = new as isize - l.size() as isize;
        let over = CUR
            .try_with(|c| {
                let n = c.get() + d;
                let cap = CAP.try_with(|x| x.get()).unwrap_or(isize::MAX);
                if d > 0 && n > cap {
                    let _ = CAP_HIT.try_with(|h| h.set(true));
                    return true;
                }
                c.set(n);
                let _ = PEAK.try_with(|p| {
                    if n > p.get() {
                        p.set(n)
                    }
                });
                false
            })
            .unwrap_or(false);
        if over {
            return std::ptr::null_mut();
        }
        System.realloc(p, l, new)
    }
}

/// Measure the peak of (bytes allocated minus bytes freed) by this thread during `f`, relative
/// to the level at entry. `cap` bounds the growth; exceeding it makes the allocation fail
/// (which aborts the process: reported by the supervisor).
pub fn measure<T>(cap: usize, f: impl FnOnce() -> T) -> (T, usize) {
    let base = CUR.with(|c| c.get());
    let old_peak = PEAK.with(|p| p.replace(base));
    let old_cap = CAP.with(|c| c.replace(base.saturating_add(cap as isize)));
    let r = f();
    let peak = PEAK.with(|p| p.get());
    CAP.with(|c| c.set(old_cap));
    PEAK.with(|p| p.set(old_peak.max(peak)));
    (r, (peak - base).max(0) as usize)
}
