//! Runner: sharded generated-input search, shrinking, replay files, evidence, known findings.
use crate::util::{self, abbreviate, hash_of, hash_str, splitmix};
use proptest::strategy::{BoxedStrategy, Strategy};
use proptest::test_runner::{Config, RngAlgorithm, TestCaseError, TestError, TestRng, TestRunner};
use serde::de::DeserializeOwned;
use serde::Serialize;
use serde_json::{json, Value};
use std::collections::{BTreeMap, HashSet};
use std::fmt::Debug;
use std::hash::Hash;
use std::path::PathBuf;
use std::sync::atomic::{AtomicBool, AtomicU64, Ordering};
use std::sync::Mutex;
use std::time::Instant;

#[derive(Clone, Copy, PartialEq, Eq, Debug)]
pub enum Tier {
    Quick,
    Thorough,
}
impl Tier {
    pub fn name(self) -> &'static str {
        match self {
            Tier::Quick => "quick",
            Tier::Thorough => "thorough",
        }
    }
    /// pick by tier
    pub fn pick<T>(self, q: T, t: T) -> T {
        match self {
            Tier::Quick => q,
            Tier::Thorough => t,
        }
    }
}

pub enum Verdict {
    Pass,
    Fail(String),
    /// A failure whose signature matches a listed known finding (key).
    Known(&'static str, String),
}

impl Verdict {
    pub fn from_result(r: Result<(), String>) -> Verdict {
        match r {
            Ok(()) => Verdict::Pass,
            Err(m) => Verdict::Fail(m),
        }
    }
}

#[derive(Default)]
pub struct Info {
    pub nontrivial: bool,
    pub labels: Vec<&'static str>,
}
impl Info {
    pub fn label(&mut self, l: &'static str) {
        if !self.labels.contains(&l) {
            self.labels.push(l);
        }
    }
    pub fn label_if(&mut self, c: bool, l: &'static str) {
        if c {
            self.label(l)
        }
    }
}

pub enum Mode {
    Run,
    /// run only one (driver index, case index): used by the supervisor after an abort
    Only { driver: usize, index: u64 },
    /// re-judge a saved case
    Replay { driver: String, case: Value },
}

pub struct Violation {
    pub driver: String,
    pub message: String,
    pub replay: PathBuf,
}

pub struct Ctx {
    pub prop: &'static str,
    pub tier: Tier,
    pub seed: u64,
    pub level: &'static str,
    pub mode: Mode,
    pub root: PathBuf,
    pub threads: usize,
    start: Instant,
    driver_count: usize,
    pub evaluations: u64,
    nontrivial: HashSet<u64>,
    nontrivial_extra: u64,
    classes: BTreeMap<String, u64>,
    samples: Vec<(String, u64, Value)>,
    per_driver: Vec<Value>,
    pub violations: Vec<Violation>,
    known_hits: BTreeMap<String, (u64, String)>,
    pub rules: Vec<String>,
    pub assumptions: Vec<String>,
    pub extra: BTreeMap<String, Value>,
    pub exhaustive_all: bool,
    pub replay_verdict: Option<Verdict>,
    open_known: Vec<KnownEntry>,
    pub max_shrink_iters: u32,
    pub harness_errors: Vec<String>,
    pub known_printed: Vec<String>,
    /// cases left out because they killed the process inside libbz2 in an earlier attempt of this run
    pub skipped_crashing: u64,
}

#[derive(Clone, Debug)]
pub struct KnownEntry {
    pub property: String,
    pub key: String,
    pub replay: Option<String>,
    pub text: String,
}

pub fn load_known(root: &PathBuf) -> Vec<KnownEntry> {
    let mut out = Vec::new();
    let Ok(s) = std::fs::read_to_string(root.join("KNOWN_FINDINGS.txt")) else {
        return out;
    };
    for line in s.lines() {
        let line = line.trim();
        let Some(rest) = line.strip_prefix("open:") else {
            continue;
        };
        let mut property = String::new();
        let mut key = String::new();
        let mut replay = None;
        let mut text = Vec::new();
        for tok in rest.split_whitespace() {
            if let Some(v) = tok.strip_prefix("property=") {
                property = v.to_string();
            } else if let Some(v) = tok.strip_prefix("key=") {
                key = v.to_string();
            } else if let Some(v) = tok.strip_prefix("replay=") {
                replay = Some(v.to_string());
            } else {
                text.push(tok);
            }
        }
        out.push(KnownEntry { property, key, replay, text: text.join(" ") });
    }
    out
}

// ---- in-flight registry for abort diagnosis -------------------------------------------
pub const SLOTS: usize = 64;
#[allow(clippy::declare_interior_mutable_const)]
const Z: AtomicU64 = AtomicU64::new(0);
pub static INFLIGHT: [AtomicU64; SLOTS] = [Z; SLOTS];
pub static INFLIGHT_FD: AtomicU64 = AtomicU64::new(u64::MAX);
/// violations already confirmed (shrunk, replay file written) in this worker: (property, replay path, driver, message)
pub static CONFIRMED: Mutex<Vec<(String, String, String, String)>> = Mutex::new(Vec::new());
/// when (milliseconds since the worker started) the case in the slot last started a test execution
pub static INFLIGHT_SINCE: [AtomicU64; SLOTS] = [Z; SLOTS];
fn now_ms() -> u64 {
    static T0: std::sync::OnceLock<Instant> = std::sync::OnceLock::new();
    T0.get_or_init(Instant::now).elapsed().as_millis() as u64
}
/// called at the start of every test execution (also of each shrink candidate): resets the stall clock
pub fn touch() {
    let slot = MY_SLOT.try_with(|c| c.get()).unwrap_or(usize::MAX);
    if slot < SLOTS {
        INFLIGHT_SINCE[slot].store(now_ms(), Ordering::Relaxed);
    }
}
/// Stall monitor of the worker: a test execution that has not returned for `limit_s` seconds is presumed
/// hung (threads cannot be killed): the tags of the stalled cases go to `file`, the process exits with
/// status 3, and the supervisor restarts the worker without those cases. A hang is never a violation; the
/// restarted run reports the violations other cases show, and otherwise the check ends inconclusive.
pub fn start_stall_monitor(limit_s: u64, deadline_s: u64, file: std::path::PathBuf) {
    now_ms();
    std::thread::Builder::new()
        .name("stall-monitor".into())
        .spawn(move || loop {
            std::thread::sleep(std::time::Duration::from_millis(500));
            let now = now_ms();
            // shortly before the supervisor's watchdog would kill the worker: violations already confirmed stand
            if deadline_s > 0 && now > deadline_s * 1000 {
                if let Ok(c) = CONFIRMED.try_lock() {
                    if !c.is_empty() {
                        for (prop, replay, driver, msg) in c.iter() {
                            println!("VIOLATION property={prop} replay={replay}");
                            println!("  driver={driver} message={msg}");
                        }
                        diag(&format!("[deadline] the run is about to exceed its time limit; reporting the {} violation(s) confirmed so far", c.len()));
                        std::process::exit(1);
                    }
                }
            }
            let mut stalled = Vec::new();
            for i in 0..SLOTS {
                let tag = INFLIGHT[i].load(Ordering::Relaxed);
                let since = INFLIGHT_SINCE[i].load(Ordering::Relaxed);
                if tag != 0 && since != 0 && now.saturating_sub(since) > limit_s * 1000 && INFLIGHT[i].load(Ordering::Relaxed) == tag {
                    stalled.push(tag);
                }
            }
            if !stalled.is_empty() {
                // violations this worker has already confirmed stand whatever the hung cases would have shown
                if let Ok(c) = CONFIRMED.try_lock() {
                    if !c.is_empty() {
                        for (prop, replay, driver, msg) in c.iter() {
                            println!("VIOLATION property={prop} replay={replay}");
                            println!("  driver={driver} message={msg}");
                        }
                        diag(&format!("[stall] {} test execution(s) have not returned for {limit_s}s; reporting the {} violation(s) confirmed so far", stalled.len(), c.len()));
                        std::process::exit(1);
                    }
                }
                let txt = stalled.iter().map(|t| t.to_string()).collect::<Vec<_>>().join(",");
                let _ = std::fs::write(&file, &txt);
                diag(&format!("[stall] {} test execution(s) have not returned for {limit_s}s (cases {}): presumed hung, leaving them out", stalled.len(), stalled.iter().map(|t| format!("{}:{}", t >> 48, (t & 0xffff_ffff_ffff) - 1)).collect::<Vec<_>>().join(" ")));
                std::process::exit(3);
            }
        })
        .expect("spawn stall monitor");
}
/// fd for the harness's own diagnostics (the original stderr); 2 if not redirected
pub static DIAG_FD: AtomicU64 = AtomicU64::new(2);
pub fn diag(msg: &str) {
    let fd = DIAG_FD.load(Ordering::Relaxed) as libc::c_int;
    let line = format!("{msg}\n");
    unsafe {
        libc::write(fd, line.as_ptr() as *const libc::c_void, line.len());
    }
}

thread_local! {
    /// slot of this worker thread in INFLIGHT (usize::MAX = not a worker thread)
    pub static MY_SLOT: std::cell::Cell<usize> = const { std::cell::Cell::new(usize::MAX) };
}
extern "C" {
    // entry points of the bundled libbz2 (C code of the bzip2-sys dependency): used only to tell whether a
    // fatal signal was raised inside that library (known finding C05/bzip2-c-decoder-uninitialised-read)
    fn BZ2_decompress();
    fn BZ2_bzDecompress();
}
/// cases (driver index << 48 | case index + 1) to leave out: they crashed the process inside libbz2 in
/// an earlier attempt of this run (set by the supervisor through ZV_SKIP)
pub fn skip_list() -> &'static Vec<u64> {
    static L: std::sync::OnceLock<Vec<u64>> = std::sync::OnceLock::new();
    L.get_or_init(|| std::env::var("ZV_SKIP").ok().map(|s| s.split(',').filter_map(|x| x.trim().parse().ok()).collect()).unwrap_or_default())
}

extern "C" fn on_fatal(sig: libc::c_int, _info: *mut libc::siginfo_t, uctx: *mut libc::c_void) {
    let fd = INFLIGHT_FD.load(Ordering::Relaxed);
    if fd != u64::MAX {
        let mut buf = [0u8; SLOTS * 8 + 16];
        for (i, s) in INFLIGHT.iter().enumerate() {
            buf[i * 8..i * 8 + 8].copy_from_slice(&s.load(Ordering::Relaxed).to_le_bytes());
        }
        // which case was this thread running, and did the fault happen inside libbz2?
        let slot = MY_SLOT.try_with(|c| c.get()).unwrap_or(usize::MAX);
        let mine = if slot < SLOTS { INFLIGHT[slot].load(Ordering::Relaxed) } else { 0 };
        let mut in_bz2 = 0u64;
        #[cfg(all(target_arch = "x86_64", target_os = "linux"))]
        unsafe {
            if !uctx.is_null() {
                let uc = uctx as *mut libc::ucontext_t;
                let rip = (*uc).uc_mcontext.gregs[libc::REG_RIP as usize] as usize;
                let a = BZ2_decompress as usize;
                let b = BZ2_bzDecompress as usize;
                if (rip >= a && rip < a + 0x3000) || (rip >= b && rip < b + 0x1000) {
                    in_bz2 = 1;
                }
            }
        }
        buf[SLOTS * 8..SLOTS * 8 + 8].copy_from_slice(&mine.to_le_bytes());
        buf[SLOTS * 8 + 8..SLOTS * 8 + 16].copy_from_slice(&in_bz2.to_le_bytes());
        unsafe {
            libc::write(fd as libc::c_int, buf.as_ptr() as *const libc::c_void, buf.len());
            libc::fsync(fd as libc::c_int);
        }
    }
    unsafe {
        libc::signal(sig, libc::SIG_DFL);
        libc::raise(sig);
    }
}

pub fn install_fatal_handlers(path: &std::path::Path) {
    use std::os::unix::io::IntoRawFd;
    if let Ok(f) = std::fs::File::create(path) {
        INFLIGHT_FD.store(f.into_raw_fd() as u64, Ordering::Relaxed);
    }
    unsafe {
        for sig in [libc::SIGABRT, libc::SIGSEGV, libc::SIGBUS, libc::SIGILL, libc::SIGFPE] {
            let mut sa: libc::sigaction = std::mem::zeroed();
            sa.sa_sigaction = on_fatal as usize;
            // SA_ONSTACK: std gives every thread it spawns an alternate signal stack (its own stack-overflow
            // handler is installed at start-up), so the dump also works when the fault IS a stack overflow
            sa.sa_flags = libc::SA_SIGINFO | libc::SA_ONSTACK;
            libc::sigemptyset(&mut sa.sa_mask);
            libc::sigaction(sig, &sa, std::ptr::null_mut());
        }
    }
}

fn case_rng(seed: u64, driver: &str, idx: u64) -> TestRng {
    let mut s = [0u8; 32];
    let mut z = splitmix(seed ^ hash_str(driver)).wrapping_add(idx.wrapping_mul(0x9e3779b97f4a7c15));
    for ch in s.chunks_mut(8) {
        z = splitmix(z);
        ch.copy_from_slice(&z.to_le_bytes());
    }
    TestRng::from_seed(RngAlgorithm::ChaCha, &s)
}

struct Local {
    evaluations: u64,
    nontrivial: HashSet<u64>,
    classes: BTreeMap<&'static str, u64>,
    samples: Vec<(u64, Value)>,
    known: BTreeMap<&'static str, (u64, String, u64, Value)>,
    fail: Option<(u64, Value, String)>,
    skipped: u64,
}
impl Local {
    fn new() -> Self {
        Local {
            evaluations: 0,
            nontrivial: HashSet::new(),
            classes: BTreeMap::new(),
            samples: Vec::new(),
            known: BTreeMap::new(),
            fail: None,
            skipped: 0,
        }
    }
}

impl Ctx {
    pub fn new(prop: &'static str, tier: Tier, seed: u64, level: &'static str, mode: Mode) -> Ctx {
        let root = PathBuf::from(std::env::var("ZV_ROOT").unwrap_or_else(|_| "/verif".into()));
        let open_known = load_known(&root).into_iter().filter(|k| k.property == prop).collect();
        let threads = std::env::var("ZV_THREADS")
            .ok()
            .and_then(|s| s.parse().ok())
            .unwrap_or_else(|| std::thread::available_parallelism().map(|n| n.get()).unwrap_or(8))
            .min(SLOTS);
        Ctx {
            prop,
            tier,
            seed,
            level,
            mode,
            root,
            threads,
            start: Instant::now(),
            driver_count: 0,
            evaluations: 0,
            nontrivial: HashSet::new(),
            nontrivial_extra: 0,
            classes: BTreeMap::new(),
            samples: Vec::new(),
            per_driver: Vec::new(),
            violations: Vec::new(),
            known_hits: BTreeMap::new(),
            rules: Vec::new(),
            assumptions: Vec::new(),
            extra: BTreeMap::new(),
            exhaustive_all: false,
            replay_verdict: None,
            open_known,
            max_shrink_iters: 2048,
            harness_errors: Vec::new(),
            known_printed: Vec::new(),
            skipped_crashing: 0,
        }
    }

    /// In replay mode: the saved case if it belongs to bulk driver `driver`.
    pub fn replay_case(&self, driver: &str) -> Option<Value> {
        match &self.mode {
            Mode::Replay { driver: d, case } if d == driver => Some(case.clone()),
            _ => None,
        }
    }
    pub fn is_run(&self) -> bool {
        matches!(self.mode, Mode::Run)
    }
    pub fn rule(&mut self, s: &str) {
        self.rules.push(s.to_string());
    }
    pub fn assume(&mut self, s: &str) {
        self.assumptions.push(s.to_string());
    }
    pub fn known_open(&self, key: &str) -> bool {
        self.open_known.iter().any(|k| k.key == key)
    }
    pub fn q<T>(&self, q: T, t: T) -> T {
        self.tier.pick(q, t)
    }

    /// Random exploration: `n` cases generated by the proptest strategy from `mk`, each from
    /// its own RNG stream derived from (seed, driver, index); failures are shrunk by proptest.
    pub fn explore<C>(
        &mut self,
        driver: &'static str,
        n: u64,
        mk: &(dyn Fn() -> BoxedStrategy<C> + Sync),
        test: &(dyn Fn(&C, &mut Info) -> Verdict + Sync),
    ) where
        C: Serialize + DeserializeOwned + Hash + Debug + Clone + Send + 'static,
    {
        let seed = self.seed;
        let shr = self.max_shrink_iters;
        let gen_run = move |strat: &BoxedStrategy<C>,
                            idx: u64,
                            first: &mut dyn FnMut(&C, &Info, &Verdict)|
              -> Option<(C, String)> {
            let cfg = Config {
                cases: 1,
                failure_persistence: None,
                max_shrink_iters: shr,
                max_global_rejects: 65536,
                max_local_rejects: 65536,
                ..Config::default()
            };
            let mut runner = TestRunner::new_with_rng(cfg, case_rng(seed, driver, idx));
            let is_first = std::cell::Cell::new(true);
            let first = std::cell::RefCell::new(first);
            let r = runner.run(strat, |c| {
                let mut info = Info::default();
                touch();
                let v = match util::catch(|| test(&c, &mut info)) {
                    Ok(v) => v,
                    Err(p) => Verdict::Fail(format!("PANIC (uncaught by driver): {p}")),
                };
                if is_first.replace(false) {
                    (first.borrow_mut())(&c, &info, &v);
                }
                match v {
                    Verdict::Fail(m) => Err(TestCaseError::fail(m)),
                    _ => Ok(()),
                }
            });
            match r {
                Ok(()) => None,
                Err(TestError::Fail(reason, c)) => Some((c, reason.message().to_string())),
                Err(TestError::Abort(reason)) => {
                    panic!("harness error: proptest aborted in driver {driver}: {reason}")
                }
            }
        };
        self.drive(driver, n, false, &|| mk(), &|strat: &BoxedStrategy<C>, idx, dump, first| {
            if let Some(d) = dump {
                // dump-before-run for abort diagnosis: generate the value only
                let mut runner = TestRunner::new_with_rng(
                    Config { cases: 1, failure_persistence: None, ..Config::default() },
                    case_rng(seed, driver, idx),
                );
                if let Ok(tree) = strat.new_tree(&mut runner) {
                    use proptest::strategy::ValueTree;
                    d(serde_json::to_value(tree.current()).unwrap_or(Value::Null));
                }
            }
            gen_run(strat, idx, first).map(|(c, m)| (serde_json::to_value(&c).unwrap_or(Value::Null), m))
        }, &|case, first| {
            let c: C = match serde_json::from_value(case.clone()) {
                Ok(c) => c,
                Err(e) => return Verdict::Fail(format!("harness: cannot decode replay case: {e}")),
            };
            let mut info = Info::default();
            touch();
                let v = match util::catch(|| test(&c, &mut info)) {
                Ok(v) => v,
                Err(p) => Verdict::Fail(format!("PANIC (uncaught by driver): {p}")),
            };
            first(&c, &info, &v);
            v
        });
    }

    /// Exhaustive / indexed enumeration: case `i` is `gen(i)` for i in 0..total, walked in
    /// parallel; the smallest failing index is reported (the space is ordered smallest-first by
    /// the caller, so that is the minimal counterexample).
    pub fn enumerate<C>(
        &mut self,
        driver: &'static str,
        total: u64,
        gen: &(dyn Fn(u64) -> C + Sync),
        test: &(dyn Fn(&C, &mut Info) -> Verdict + Sync),
    ) where
        C: Serialize + DeserializeOwned + Hash + Debug + Clone + Send + 'static,
    {
        self.drive::<C, ()>(driver, total, true, &|| (), &|_: &(), idx, dump, first| {
            let c = gen(idx);
            if let Some(d) = dump {
                d(serde_json::to_value(&c).unwrap_or(Value::Null));
            }
            let mut info = Info::default();
            touch();
                let v = match util::catch(|| test(&c, &mut info)) {
                Ok(v) => v,
                Err(p) => Verdict::Fail(format!("PANIC (uncaught by driver): {p}")),
            };
            first(&c, &info, &v);
            match v {
                Verdict::Fail(m) => Some((serde_json::to_value(&c).unwrap_or(Value::Null), m)),
                _ => None,
            }
        }, &|case, first| {
            let c: C = match serde_json::from_value(case.clone()) {
                Ok(c) => c,
                Err(e) => return Verdict::Fail(format!("harness: cannot decode replay case: {e}")),
            };
            let mut info = Info::default();
            touch();
                let v = match util::catch(|| test(&c, &mut info)) {
                Ok(v) => v,
                Err(p) => Verdict::Fail(format!("PANIC (uncaught by driver): {p}")),
            };
            first(&c, &info, &v);
            v
        });
    }

    #[allow(clippy::type_complexity)]
    fn drive<C, St>(
        &mut self,
        driver: &'static str,
        n: u64,
        enumerated: bool,
        init: &(dyn Fn() -> St + Sync),
        run_idx: &(dyn Fn(
            &St,
            u64,
            Option<&mut dyn FnMut(Value)>,
            &mut dyn FnMut(&C, &Info, &Verdict),
        ) -> Option<(Value, String)>
              + Sync),
        run_case: &(dyn Fn(&Value, &mut dyn FnMut(&C, &Info, &Verdict)) -> Verdict + Sync),
    ) where
        C: Serialize + Hash + Debug + Clone + Send + 'static,
    {
        let my_index = self.driver_count;
        self.driver_count += 1;
        match &self.mode {
            Mode::Replay { driver: d, case } => {
                if d == driver {
                    let case = case.clone();
                    let v = run_case(&case, &mut |_, _, _| {});
                    self.replay_verdict = Some(v);
                }
                return;
            }
            Mode::Only { driver: d, index } => {
                if *d == my_index {
                    let index = *index;
                    let path = self
                        .root
                        .join("replays")
                        .join(self.prop)
                        .join(format!("abort-{driver}-{index}.json"));
                    let _ = std::fs::create_dir_all(path.parent().unwrap());
                    let (prop, seed) = (self.prop, self.seed);
                    let mut dump = |case: Value| {
                        let doc = json!({"property": prop, "driver": driver, "seed": seed, "index": index,
                            "message": "process aborted / crashed while running this case", "case": case});
                        let _ = std::fs::write(&path, serde_json::to_vec_pretty(&doc).unwrap());
                    };
                    let st = init();
                    let r = run_idx(&st, index, Some(&mut dump), &mut |_, _, _| {});
                    // survived: not an abort; if it failed normally keep the file, else remove
                    match r {
                        Some((_, m)) => {
                            println!("ONLY-RESULT fail {m}");
                        }
                        None => {
                            let _ = std::fs::remove_file(&path);
                            println!("ONLY-RESULT pass");
                        }
                    }
                }
                return;
            }
            Mode::Run => {}
        }

        let t0 = Instant::now();
        let next = AtomicU64::new(0);
        let stop = AtomicBool::new(false);
        let best_fail = AtomicU64::new(u64::MAX);
        let merged: Mutex<Vec<Local>> = Mutex::new(Vec::new());
        let threads = self.threads.max(1);
        let chunk: u64 = if enumerated { (n / (threads as u64 * 64)).clamp(1, 4096) } else { 1 };
        std::thread::scope(|sc| {
            for tid in 0..threads {
                let (next, stop, best_fail, merged) = (&next, &stop, &best_fail, &merged);
                std::thread::Builder::new()
                    .stack_size(64 << 20)
                    .spawn_scoped(sc, move || {
                        let mut loc = Local::new();
                        MY_SLOT.with(|c| c.set(tid));
                        let st = init();
                        'outer: loop {
                            let base = next.fetch_add(chunk, Ordering::Relaxed);
                            if base >= n {
                                break;
                            }
                            for idx in base..(base + chunk).min(n) {
                                if stop.load(Ordering::Relaxed) && idx > best_fail.load(Ordering::Relaxed) {
                                    break 'outer;
                                }
                                let tag = ((my_index as u64) << 48) | (idx + 1);
                                if skip_list().contains(&tag) {
                                    loc.skipped += 1;
                                    continue;
                                }
                                INFLIGHT_SINCE[tid].store(now_ms().max(1), Ordering::Relaxed);
                                INFLIGHT[tid].store(tag, Ordering::Relaxed);
                                let mut first = |c: &C, info: &Info, v: &Verdict| {
                                    loc.evaluations += 1;
                                    for l in &info.labels {
                                        *loc.classes.entry(l).or_insert(0) += 1;
                                    }
                                    if info.nontrivial {
                                        let h = hash_of(c) ^ hash_str(driver);
                                        if loc.nontrivial.insert(h) && loc.samples.len() < 4 {
                                            loc.samples.push((idx, abbreviate(&serde_json::to_value(c).unwrap_or(Value::Null))));
                                        }
                                    }
                                    if let Verdict::Known(k, m) = v {
                                        let e = loc.known.entry(k).or_insert_with(|| (0, m.clone(), idx, serde_json::to_value(c).unwrap_or(Value::Null)));
                                        e.0 += 1;
                                    }
                                };
                                let r = run_idx(&st, idx, None, &mut first);
                                INFLIGHT[tid].store(0, Ordering::Relaxed);
                                if let Some((case, msg)) = r {
                                    best_fail.fetch_min(idx, Ordering::Relaxed);
                                    stop.store(true, Ordering::Relaxed);
                                    if loc.fail.as_ref().map(|f| idx < f.0).unwrap_or(true) {
                                        loc.fail = Some((idx, case, msg));
                                    }
                                }
                            }
                        }
                        merged.lock().unwrap().push(loc);
                    })
                    .expect("spawn");
            }
        });
        let locals = merged.into_inner().unwrap();
        let mut evals = 0;
        let mut fail: Option<(u64, Value, String)> = None;
        let before_nt = self.nontrivial.len();
        let mut dsamples: Vec<(u64, Value)> = Vec::new();
        for l in locals {
            evals += l.evaluations;
            self.skipped_crashing += l.skipped;
            self.nontrivial.extend(l.nontrivial);
            for (k, v) in l.classes {
                *self.classes.entry(format!("{driver}:{k}")).or_insert(0) += v;
            }
            dsamples.extend(l.samples);
            for (k, (cnt, m, kidx, kcase)) in l.known {
                let first = !self.known_hits.contains_key(k);
                let e = self.known_hits.entry(k.to_string()).or_insert((0, m.clone()));
                e.0 += cnt;
                if first {
                    // keep one concrete instance of every known-finding signature seen in this run
                    let path = self.root.join("replays").join(self.prop).join(format!("known-{k}.json"));
                    let _ = std::fs::create_dir_all(path.parent().unwrap());
                    let doc = json!({"property": self.prop, "driver": driver, "seed": self.seed, "tier": self.tier.name(), "index": kidx, "message": m, "case": kcase});
                    let _ = std::fs::write(&path, serde_json::to_vec_pretty(&doc).unwrap());
                }
            }
            if let Some(f) = l.fail {
                if fail.as_ref().map(|g| f.0 < g.0).unwrap_or(true) {
                    fail = Some(f);
                }
            }
        }
        dsamples.sort_by_key(|s| s.0);
        for (idx, v) in dsamples.into_iter().take(3) {
            self.samples.push((driver.to_string(), idx, v));
        }
        self.evaluations += evals;
        let nt = self.nontrivial.len() - before_nt;
        self.per_driver.push(json!({
            "driver": driver, "planned": n, "evaluations": evals, "distinct_nontrivial": nt,
            "enumerated_space": enumerated, "completed": fail.is_none(),
            "wall_s": (t0.elapsed().as_secs_f64()*1000.0).round()/1000.0,
        }));
        if let Some((idx, _case, msg)) = fail.as_ref().filter(|f| f.2.contains("harness:")) {
            // a failure of the machinery itself (external tool, scratch dir, ...): inconclusive
            diag(&format!("[{}] {driver}: HARNESS ERROR at case {idx}: {msg}", self.prop));
            self.harness_errors.push(format!("{driver}#{idx}: {msg}"));
        } else if let Some((idx, case, msg)) = fail {
            // Unknown-key "Known" verdicts never get here; this is a real violation.
            let h = hash_str(&format!("{driver}{}", case));
            let path = self
                .root
                .join("replays")
                .join(self.prop)
                .join(format!("{driver}-{:08x}.json", h as u32));
            let _ = std::fs::create_dir_all(path.parent().unwrap());
            let doc = json!({"property": self.prop, "driver": driver, "seed": self.seed, "tier": self.tier.name(),
                "index": idx, "message": msg, "case": case});
            let _ = std::fs::write(&path, serde_json::to_vec_pretty(&doc).unwrap());
            diag(&format!("[{}] {driver}: violation at case {idx}: {msg}", self.prop));
            CONFIRMED.lock().unwrap().push((self.prop.to_string(), path.display().to_string(), driver.to_string(), msg.clone()));
            self.violations.push(Violation { driver: driver.to_string(), message: msg, replay: path });
        }
    }

    /// Count cases handled outside explore/enumerate (e.g. a tight exhaustive loop that does not
    /// materialise case objects). `distinct_nontrivial` are distinct by construction.
    pub fn count_bulk(&mut self, driver: &str, evaluations: u64, distinct_nontrivial: u64, samples: Vec<Value>, wall_s: f64) {
        self.evaluations += evaluations;
        self.nontrivial_extra += distinct_nontrivial;
        for (i, s) in samples.into_iter().enumerate() {
            self.samples.push((driver.to_string(), i as u64, s));
        }
        self.per_driver.push(json!({"driver": driver, "planned": evaluations, "evaluations": evaluations,
            "distinct_nontrivial": distinct_nontrivial, "enumerated_space": true, "completed": true, "bulk": true,
            "wall_s": (wall_s*1000.0).round()/1000.0}));
    }

    pub fn add_class(&mut self, k: &str, n: u64) {
        *self.classes.entry(k.to_string()).or_insert(0) += n;
    }

    /// Report a violation found by bulk code.
    pub fn violation(&mut self, driver: &str, case: Value, msg: String) {
        let h = hash_str(&format!("{driver}{}", case));
        let path = self.root.join("replays").join(self.prop).join(format!("{driver}-{:08x}.json", h as u32));
        let _ = std::fs::create_dir_all(path.parent().unwrap());
        let doc = json!({"property": self.prop, "driver": driver, "seed": self.seed, "tier": self.tier.name(),
            "message": msg, "case": case});
        let _ = std::fs::write(&path, serde_json::to_vec_pretty(&doc).unwrap());
        diag(&format!("[{}] {driver}: violation: {msg}", self.prop));
        CONFIRMED.lock().unwrap().push((self.prop.to_string(), path.display().to_string(), driver.to_string(), msg.clone()));
        self.violations.push(Violation { driver: driver.to_string(), message: msg, replay: path });
    }

    /// Writes the evidence file and prints verdict lines; returns the process exit code.
    pub fn finish(self) -> i32 {
        let wall = self.start.elapsed().as_secs_f64();
        let mut known_lines = Vec::new();
        let mut violations = self.violations;
        for (k, (cnt, m)) in &self.known_hits {
            if let Some(e) = self.open_known.iter().find(|e| &e.key == k) {
                if self.known_printed.contains(k) {
                    continue;
                }
                known_lines.push(format!("KNOWN-FINDING: property={} key={} {} (matched {} generated cases; e.g. {})",
                    self.prop, k, e.text, cnt, m));
            } else {
                // signature of a finding that is not (or no longer) listed open: a violation
                let path = self.root.join("replays").join(self.prop).join(format!("unlisted-{k}.json"));
                let _ = std::fs::create_dir_all(path.parent().unwrap());
                let _ = std::fs::write(&path, serde_json::to_vec_pretty(&json!({"property": self.prop, "driver": "known-signature",
                    "message": format!("failure with signature '{k}' which is not listed open in KNOWN_FINDINGS.txt: {m}"), "case": null})).unwrap());
                violations.push(Violation { driver: "known-signature".into(), message: format!("unlisted signature {k}: {m}"), replay: path });
            }
        }
        let distinct = self.nontrivial.len() as u64 + self.nontrivial_extra;
        let samples: Vec<Value> = self
            .samples
            .iter()
            .map(|(d, i, v)| json!({"driver": d, "index": i, "case": v}))
            .collect();
        let mut coverage = serde_json::Map::new();
        coverage.insert("evaluations".into(), json!(self.evaluations));
        coverage.insert("distinct_nontrivial".into(), json!(distinct));
        coverage.insert("rule".into(), json!(self.rules.join(" | ")));
        coverage.insert("samples".into(), Value::Array(samples));
        coverage.insert("exhaustive".into(), json!(self.exhaustive_all));
        coverage.insert("drivers".into(), Value::Array(self.per_driver.clone()));
        coverage.insert("classes".into(), json!(self.classes));
        coverage.insert(
            "known_findings_hit".into(),
            json!(self.known_hits.iter().map(|(k, v)| (k.clone(), v.0)).collect::<BTreeMap<_, _>>()),
        );
        for (k, v) in &self.extra {
            coverage.insert(k.clone(), v.clone());
        }
        coverage.insert("excluded_by_known_finding".into(), json!({"bzip2-c-decoder-uninitialised-read (cases that killed the worker inside libbz2 and were left out on the retry)": self.skipped_crashing}));
        let ev = json!({
            "property_id": self.prop,
            "tier": self.tier.name(),
            "seed": self.seed,
            "level": self.level,
            "coverage": Value::Object(coverage),
            "assumptions": self.assumptions,
            "wall_s": (wall * 1000.0).round() / 1000.0,
            "violations": violations.len(),
        });
        let evdir = self.root.join("evidence");
        let _ = std::fs::create_dir_all(&evdir);
        let tmp = evdir.join(format!(".{}.json.tmp", self.prop));
        std::fs::write(&tmp, serde_json::to_vec_pretty(&ev).unwrap()).expect("write evidence");
        std::fs::rename(&tmp, evdir.join(format!("{}.json", self.prop))).expect("rename evidence");
        for l in &known_lines {
            println!("{l}");
        }
        for v in &violations {
            println!("VIOLATION property={} replay={}", self.prop, v.replay.display());
            println!("  driver={} message={}", v.driver, v.message.replace('\n', " "));
        }
        println!(
            "[{}] {} seed={} evaluations={} distinct_nontrivial={} violations={} wall={:.1}s",
            self.prop, self.tier.name(), self.seed, self.evaluations, distinct, violations.len(), wall
        );
        if !self.harness_errors.is_empty() && violations.is_empty() {
            diag(&format!("[{}] inconclusive: {} harness error(s)", self.prop, self.harness_errors.len()));
            return 2;
        }
        if violations.is_empty() {
            0
        } else {
            1
        }
    }
}
