//! Generators and reference model for *legal* writer programs (C01, C02, C09-C14, C17 reuse it).
use crate::refzip::content::{self, Content};
use crate::refzip::crypto;
use crate::refzip::Extra;
use proptest::prelude::*;
use serde::{Deserialize, Serialize};
use std::io::{Seek, Write};
use zip::unstable::write::FileOptionsExt;
use zip::write::FileOptions;
use zip::{CompressionMethod, DateTime, ZipWriter};

#[derive(Clone, Copy, Debug, Serialize, Deserialize, Hash, PartialEq, Eq)]
pub enum Method {
    Stored,
    Deflated,
    Bzip2,
    Zstd,
}
impl Method {
    pub fn id(self) -> u16 {
        match self {
            Method::Stored => 0,
            Method::Deflated => 8,
            Method::Bzip2 => 12,
            Method::Zstd => 93,
        }
    }
    pub fn zip(self) -> CompressionMethod {
        match self {
            Method::Stored => CompressionMethod::Stored,
            Method::Deflated => CompressionMethod::Deflated,
            Method::Bzip2 => CompressionMethod::Bzip2,
            Method::Zstd => CompressionMethod::Zstd,
        }
    }
    pub fn from_zip(m: CompressionMethod) -> Option<Method> {
        match m {
            CompressionMethod::Stored => Some(Method::Stored),
            CompressionMethod::Deflated => Some(Method::Deflated),
            CompressionMethod::Bzip2 => Some(Method::Bzip2),
            CompressionMethod::Zstd => Some(Method::Zstd),
            _ => None,
        }
    }
}

#[derive(Clone, Debug, Serialize, Deserialize, Hash, PartialEq, Eq)]
pub struct Opts {
    pub method: Method,
    pub level: Option<i32>,
    /// (year, month, day, hour, minute, second) inside the documented constructor ranges
    pub ts: (u16, u8, u8, u8, u8, u8),
    pub perm: Option<u32>,
    pub large: bool,
    #[serde(default)]
    pub password: Option<String>,
}
impl Opts {
    pub fn plain(method: Method) -> Opts {
        Opts { method, level: None, ts: (2020, 6, 15, 12, 30, 20), perm: None, large: false, password: None }
    }
    pub fn datetime(&self) -> DateTime {
        let (y, mo, d, h, mi, s) = self.ts;
        DateTime::from_date_and_time(y, mo, d, h, mi, s).expect("generator produces valid timestamps")
    }
    pub fn dos(&self) -> (u16, u16) {
        let (y, mo, d, h, mi, s) = self.ts;
        ((d as u16) | ((mo as u16) << 5) | ((y - 1980) << 9), ((s as u16) >> 1) | ((mi as u16) << 5) | ((h as u16) << 11))
    }
    pub fn to_zip(&self) -> FileOptions {
        let mut o = FileOptions::default()
            .compression_method(self.method.zip())
            .compression_level(self.level)
            .last_modified_time(self.datetime())
            .large_file(self.large);
        if let Some(p) = self.perm {
            o = o.unix_permissions(p);
        }
        if let Some(pw) = &self.password {
            o = o.with_deprecated_encryption(pw.as_bytes());
        }
        o
    }
}

#[derive(Clone, Debug, Serialize, Deserialize, Hash, PartialEq, Eq)]
pub enum Op {
    File { name: String, opts: Opts, chunks: Vec<Content> },
    Dir { name: String, opts: Opts },
    Symlink { name: String, target: String, opts: Opts },
    /// start_file_with_extra_data; `central`: None = same records in both headers,
    /// Some(v) = `local` only in the local header and `v` only in the central header
    ExtraFile { name: String, opts: Opts, local: Vec<Extra>, central: Option<Vec<Extra>>, chunks: Vec<Content> },
    Aligned { name: String, opts: Opts, align: u16, chunks: Vec<Content> },
    Comment(#[serde(with = "crate::util::hexbytes")] Vec<u8>),
}

#[derive(Clone, Debug, Serialize, Deserialize, Hash, PartialEq, Eq)]
pub struct Program {
    pub ops: Vec<Op>,
}

#[derive(Clone, Debug, PartialEq, Eq)]
pub struct ModelEntry {
    pub name: String,
    pub content: Vec<u8>,
    pub method: Method,
    pub dos: (u16, u16),
    pub mode: u32,
    pub crc: u32,
    pub password: Option<String>,
    pub large: bool,
    pub local_extra: Vec<u8>,
    pub central_extra: Vec<u8>,
    pub align: Option<u16>,
    pub is_dir: bool,
    pub raw_copy: bool,
}

pub fn extras_bytes(list: &[Extra]) -> Vec<u8> {
    let mut v = Vec::new();
    for e in list {
        v.extend_from_slice(&e.id.to_le_bytes());
        v.extend_from_slice(&(e.data.len() as u16).to_le_bytes());
        v.extend_from_slice(&e.data);
    }
    v
}

fn concat(chunks: &[Content]) -> Vec<u8> {
    let mut v = Vec::new();
    for c in chunks {
        v.extend_from_slice(&c.expand());
    }
    v
}

/// The reference model: what the archive must contain after the program.
pub fn model(p: &Program) -> (Vec<ModelEntry>, Vec<u8>) {
    let mut out = Vec::new();
    let mut comment = Vec::new();
    for op in &p.ops {
        match op {
            Op::File { name, opts, chunks } | Op::ExtraFile { name, opts, chunks, .. } | Op::Aligned { name, opts, chunks, .. } => {
                let content = concat(chunks);
                let (local_extra, central_extra, align) = match op {
                    Op::ExtraFile { local, central, .. } => {
                        let l = extras_bytes(local);
                        let c = match central {
                            None => l.clone(),
                            Some(c) => extras_bytes(c),
                        };
                        (l, c, None)
                    }
                    Op::Aligned { align, .. } => (vec![], vec![], Some(*align)),
                    _ => (vec![], vec![], None),
                };
                out.push(ModelEntry {
                    name: name.clone(),
                    crc: crypto::crc32(&content),
                    content,
                    method: opts.method,
                    dos: opts.dos(),
                    mode: 0o100000 | opts.perm.map(|p| p & 0o777).unwrap_or(0o644),
                    password: opts.password.clone(),
                    large: opts.large,
                    local_extra,
                    central_extra,
                    align,
                    is_dir: false,
                    raw_copy: false,
                });
            }
            Op::Dir { name, opts } => {
                let n = if name.ends_with('/') || name.ends_with('\\') { name.clone() } else { format!("{name}/") };
                out.push(ModelEntry {
                    name: n,
                    content: vec![],
                    crc: 0,
                    method: Method::Stored,
                    dos: opts.dos(),
                    mode: 0o40000 | opts.perm.map(|p| p & 0o777).unwrap_or(0o755),
                    password: opts.password.clone(),
                    large: opts.large,
                    local_extra: vec![],
                    central_extra: vec![],
                    align: None,
                    is_dir: true,
                    raw_copy: false,
                });
            }
            Op::Symlink { name, target, opts } => {
                let content = target.as_bytes().to_vec();
                out.push(ModelEntry {
                    name: name.clone(),
                    crc: crypto::crc32(&content),
                    content,
                    method: Method::Stored,
                    dos: opts.dos(),
                    mode: 0o120000 | opts.perm.map(|p| p & 0o777).unwrap_or(0o777),
                    password: opts.password.clone(),
                    large: opts.large,
                    local_extra: vec![],
                    central_extra: vec![],
                    align: None,
                    is_dir: false,
                    raw_copy: false,
                });
            }
            Op::Comment(c) => comment = c.clone(),
        }
    }
    (out, comment)
}

/// Apply one op to a writer. Err(description) on the first failing call.
pub fn apply<W: Write + Seek>(w: &mut ZipWriter<W>, op: &Op) -> Result<(), String> {
    match op {
        Op::File { name, opts, chunks } => {
            w.start_file(name.clone(), opts.to_zip()).map_err(|e| format!("start_file({name:?}): {e}"))?;
            for c in chunks {
                w.write_all(&c.expand()).map_err(|e| format!("write to {name:?}: {e}"))?;
            }
        }
        Op::Dir { name, opts } => w.add_directory(name.clone(), opts.to_zip()).map_err(|e| format!("add_directory({name:?}): {e}"))?,
        Op::Symlink { name, target, opts } => w.add_symlink(name.clone(), target.clone(), opts.to_zip()).map_err(|e| format!("add_symlink({name:?}): {e}"))?,
        Op::ExtraFile { name, opts, local, central, chunks } => {
            w.start_file_with_extra_data(name.clone(), opts.to_zip()).map_err(|e| format!("start_file_with_extra_data({name:?}): {e}"))?;
            w.write_all(&extras_bytes(local)).map_err(|e| format!("write local extra: {e}"))?;
            if let Some(c) = central {
                w.end_local_start_central_extra_data().map_err(|e| format!("end_local_start_central_extra_data: {e}"))?;
                w.write_all(&extras_bytes(c)).map_err(|e| format!("write central extra: {e}"))?;
            }
            w.end_extra_data().map_err(|e| format!("end_extra_data: {e}"))?;
            for c in chunks {
                w.write_all(&c.expand()).map_err(|e| format!("write to {name:?}: {e}"))?;
            }
        }
        Op::Aligned { name, opts, align, chunks } => {
            w.start_file_aligned(name.clone(), opts.to_zip(), *align).map_err(|e| format!("start_file_aligned({name:?},{align}): {e}"))?;
            for c in chunks {
                w.write_all(&c.expand()).map_err(|e| format!("write to {name:?}: {e}"))?;
            }
        }
        Op::Comment(c) => w.set_raw_comment(c.clone()),
    }
    Ok(())
}

/// A caller that does not stop at the first error: every call the operation consists of is issued whatever
/// the earlier ones returned (errors are handed to `note`), followed by a `flush()`.
pub fn apply_persistent<W: Write + Seek>(w: &mut ZipWriter<W>, op: &Op, note: &mut dyn FnMut(String)) {
    let mut n = |r: Result<(), String>| {
        if let Err(e) = r {
            note(e)
        }
    };
    match op {
        Op::File { name, opts, chunks } => {
            n(w.start_file(name.clone(), opts.to_zip()).map_err(|e| format!("start_file({name:?}): {e}")));
            for c in chunks {
                n(w.write_all(&c.expand()).map_err(|e| format!("write to {name:?}: {e}")));
            }
        }
        Op::Dir { name, opts } => n(w.add_directory(name.clone(), opts.to_zip()).map_err(|e| format!("add_directory({name:?}): {e}"))),
        Op::Symlink { name, target, opts } => n(w.add_symlink(name.clone(), target.clone(), opts.to_zip()).map_err(|e| format!("add_symlink({name:?}): {e}"))),
        Op::ExtraFile { name, opts, local, central, chunks } => {
            n(w.start_file_with_extra_data(name.clone(), opts.to_zip()).map(|_| ()).map_err(|e| format!("start_file_with_extra_data({name:?}): {e}")));
            n(w.write_all(&extras_bytes(local)).map_err(|e| format!("write local extra: {e}")));
            if let Some(c) = central {
                n(w.end_local_start_central_extra_data().map(|_| ()).map_err(|e| format!("end_local_start_central_extra_data: {e}")));
                n(w.write_all(&extras_bytes(c)).map_err(|e| format!("write central extra: {e}")));
            }
            n(w.end_extra_data().map(|_| ()).map_err(|e| format!("end_extra_data: {e}")));
            for c in chunks {
                n(w.write_all(&c.expand()).map_err(|e| format!("write to {name:?}: {e}")));
            }
        }
        Op::Aligned { name, opts, align, chunks } => {
            n(w.start_file_aligned(name.clone(), opts.to_zip(), *align).map(|_| ()).map_err(|e| format!("start_file_aligned({name:?},{align}): {e}")));
            for c in chunks {
                n(w.write_all(&c.expand()).map_err(|e| format!("write to {name:?}: {e}")));
            }
        }
        Op::Comment(c) => w.set_raw_comment(c.clone()),
    }
    n(w.flush().map_err(|e| format!("flush: {e}")));
}

/// Run a whole program into an in-memory sink; completes by finish() or by drop.
pub fn run_program(p: &Program, by_drop: bool) -> Result<Vec<u8>, String> {
    let mut sink = std::io::Cursor::new(Vec::new());
    if by_drop {
        let mut w = ZipWriter::new(&mut sink);
        for op in &p.ops {
            if let Err(e) = apply(&mut w, op) {
                std::mem::forget(w);
                return Err(e);
            }
        }
        drop(w);
    } else {
        let mut w = std::mem::ManuallyDrop::new(ZipWriter::new(&mut sink));
        for op in &p.ops {
            apply(&mut w, op)?;
        }
        w.finish().map_err(|e| format!("finish: {e}"))?;
        // finished writers are closed: dropping is a no-op, but keep ManuallyDrop anyway
    }
    Ok(sink.into_inner())
}

// ------------------------------------------------------------------------------------ strategies
pub fn timestamp() -> BoxedStrategy<(u16, u8, u8, u8, u8, u8)> {
    prop_oneof![
        6 => (1980u16..=2107, 1u8..=12, 1u8..=31, 0u8..=23, 0u8..=59, 0u8..=60),
        1 => Just((1980, 1, 1, 0, 0, 0)),
        1 => Just((2107, 12, 31, 23, 59, 60)),
        1 => Just((2107, 12, 31, 23, 59, 59)),
    ]
    .boxed()
}

pub fn method_level() -> BoxedStrategy<(Method, Option<i32>)> {
    prop_oneof![
        3 => Just((Method::Stored, None)),
        2 => Just((Method::Deflated, None)),
        2 => (0i32..=9).prop_map(|l| (Method::Deflated, Some(l))),
        1 => Just((Method::Bzip2, None)),
        1 => (1i32..=9).prop_map(|l| (Method::Bzip2, Some(l))),
        1 => Just((Method::Zstd, None)),
        1 => (-7i32..=22).prop_map(|l| (Method::Zstd, Some(l))),
    ]
    .boxed()
}

pub fn opts(encrypt: bool) -> BoxedStrategy<Opts> {
    let pw = if encrypt {
        prop_oneof![3 => Just(None), 1 => password().prop_map(Some)].boxed()
    } else {
        Just(None).boxed()
    };
    (method_level(), timestamp(), prop_oneof![2 => Just(None), 3 => (0u32..512).prop_map(Some), 1 => any::<u32>().prop_map(Some)], prop_oneof![4 => Just(false), 1 => Just(true)], pw)
        .prop_map(|((method, level), ts, perm, large, password)| Opts { method, level, ts, perm, large, password })
        .boxed()
}

pub fn password() -> BoxedStrategy<String> {
    prop_oneof![
        1 => Just(String::new()),
        3 => "[a-zA-Z0-9 !#$%]{1,12}",
        1 => "\\PC{1,8}",
        1 => Just("\0\u{1}\u{7f}\u{80}\u{ff}".to_string()),
        1 => "[a-z]{200,300}",
    ]
    .boxed()
}

/// Entry names: ASCII, multi-byte UTF-8, NUL / backslash / leading slash, empty, boundary lengths.
pub fn name() -> BoxedStrategy<String> {
    prop_oneof![
        8 => "[a-z0-9_.-]{1,12}(/[a-z0-9_.-]{1,8}){0,3}",
        3 => "[a-zé漢字ß😀 ]{1,10}(/[a-zéü漢😀]{1,6}){0,2}",
        1 => "[a-z/\\\\\0.]{0,12}",
        1 => Just(String::new()),
        1 => "/[a-z]{1,8}",
        1 => "[a-z]{1,4}\\\\[a-z]{1,4}",
        1 => prop_oneof![Just(255usize), Just(256), Just(1), Just(2)].prop_map(|n| "n".repeat(n)),
        1 => "\\PC{0,20}",
    ]
    .boxed()
}
/// rare: names at the 16-bit boundary
pub fn long_name() -> BoxedStrategy<String> {
    prop_oneof![Just(65534usize), Just(65535), Just(40000)]
        .prop_flat_map(|n| prop_oneof![Just("x".repeat(n)), Just("é".repeat(n / 2) + if n % 2 == 1 { "y" } else { "" })])
        .boxed()
}

pub fn sanitize_comment(mut c: Vec<u8>) -> Vec<u8> {
    // format-inherent ambiguity: a comment must not embed an end-record signature
    for i in 0..c.len().saturating_sub(1) {
        if c[i] == b'P' && c[i + 1] == b'K' {
            c[i + 1] = b'k';
        }
    }
    c
}

pub fn comment() -> BoxedStrategy<Vec<u8>> {
    prop_oneof![
        3 => Just(vec![]),
        3 => proptest::collection::vec(any::<u8>(), 1..40),
        1 => "\\PC{1,30}".prop_map(|s| s.into_bytes()),
        1 => prop_oneof![Just(65534usize), Just(65535), Just(1), Just(30000)].prop_flat_map(|n| any::<u64>().prop_map(move |s| Content::Text { seed: s, len: n as u32 }.expand())),
    ]
    .prop_map(sanitize_comment)
    .boxed()
}

/// content that is itself a small ZIP archive (nested archives put record signatures, incl. a
/// second end-of-central-directory record, inside entry data)
pub fn nested_zip() -> BoxedStrategy<Content> {
    (any::<u64>(), 0u32..200, any::<bool>())
        .prop_map(|(seed, len, with_comment)| {
            let mut spec = crate::refzip::ArchiveSpec::plain(vec![crate::refzip::EntrySpec::simple(b"inner.txt", 0, Content::Text { seed, len })]);
            if with_comment {
                spec.comment = b"inner comment".to_vec();
            }
            Content::Bytes(crate::refzip::build::build(&spec).expect("nested zip").bytes)
        })
        .boxed()
}

/// cap expensive compression levels (zstd >= 15 allocates very large windows); used by
/// properties that re-run a program thousands of times
pub fn tame(mut p: Program) -> Program {
    for op in &mut p.ops {
        if let Op::File { opts, .. } | Op::ExtraFile { opts, .. } | Op::Aligned { opts, .. } = op {
            if opts.method == Method::Zstd && opts.level.map(|l| l > 12).unwrap_or(false) {
                opts.level = Some(12);
            }
        }
    }
    p
}

pub fn chunks(max: u32) -> BoxedStrategy<Vec<Content>> {
    prop_oneof![
        1 => Just(vec![]),
        1 => nested_zip().prop_map(|c| vec![c]),
        5 => content::content(max).prop_map(|c| vec![c]),
        2 => proptest::collection::vec(content::content(max / 4 + 1), 2..5),
    ]
    .boxed()
}

/// unreserved extra-field record (id outside 0..=31 and outside the APPNOTE-registered ids)
/// Header IDs registered in APPNOTE 4.5.2 / 4.6 (third-party mappings): reserved for their owners.
pub const REGISTERED_IDS: [u16; 49] = [
    0x0001, 0x0007, 0x0008, 0x0009, 0x000a, 0x000c, 0x000d, 0x000e, 0x000f, 0x0014, 0x0015, 0x0016, 0x0017, 0x0018, 0x0019, 0x0020, 0x0021, 0x0022,
    0x0023, 0x0065, 0x0066, 0x4690, 0x07c8, 0x2605, 0x2705, 0x2805, 0x334d, 0x4341, 0x4453, 0x4704, 0x470f, 0x4b46, 0x4c41, 0x4d49, 0x4f4c, 0x5356,
    0x5455, 0x554e, 0x5855, 0x6375, 0x6542, 0x7075, 0x756e, 0x7855, 0xa11e, 0xa220, 0xfd4a, 0x9901, 0x9902,
];
pub fn is_reserved_id(id: u16) -> bool {
    id <= 31 || REGISTERED_IDS.contains(&id)
}
pub fn good_extra(max_len: usize) -> BoxedStrategy<Extra> {
    (prop_oneof![Just(0xbeefu16), Just(0xdeadu16), Just(0x0024u16), Just(0xfffe), Just(0xffff), 0x8000u16..0x9000, any::<u16>().prop_map(|x| if is_reserved_id(x) { 0xcafe } else { x })], proptest::collection::vec(any::<u8>(), 0..=max_len))
        .prop_map(|(id, data)| Extra { id, data })
        .boxed()
}

pub fn basic_op(max: u32, encrypt: bool) -> BoxedStrategy<Op> {
    prop_oneof![
        12 => (name(), opts(encrypt), chunks(max)).prop_map(|(name, opts, chunks)| Op::File { name, opts, chunks }),
        2 => (name(), opts(false)).prop_map(|(name, opts)| Op::Dir { name, opts }),
        2 => (name(), "[a-z/.\\\\é]{0,20}", opts(encrypt)).prop_map(|(name, target, opts)| Op::Symlink { name, target, opts }),
        2 => comment().prop_map(Op::Comment),
    ]
    .boxed()
}

pub fn extra_op(max: u32, encrypt: bool) -> BoxedStrategy<Op> {
    prop_oneof![
        3 => (name(), opts(encrypt), proptest::collection::vec(good_extra(40), 0..3), prop_oneof![Just(None), proptest::collection::vec(good_extra(40), 0..3).prop_map(Some)], chunks(max))
            .prop_map(|(name, opts, local, central, chunks)| Op::ExtraFile { name, opts, local, central, chunks }),
        3 => (name(), opts(encrypt), prop_oneof![Just(0u16), Just(1), Just(2), Just(4), Just(64), Just(512), Just(4096), Just(32768), 0u16..300, any::<u16>()], chunks(max))
            .prop_map(|(name, opts, align, chunks)| Op::Aligned { name, opts, align, chunks }),
    ]
    .boxed()
}

/// A legal program with duplicates injected (a later name repeats an earlier one).
pub fn program(max_entries: usize, max_content: u32, with_extra: bool, encrypt: bool) -> BoxedStrategy<Program> {
    let op = if with_extra {
        prop_oneof![4 => basic_op(max_content, encrypt), 1 => extra_op(max_content, encrypt)].boxed()
    } else {
        basic_op(max_content, encrypt)
    };
    (proptest::collection::vec(op, 0..=max_entries), proptest::collection::vec((any::<u16>(), any::<u16>()), 0..3))
        .prop_map(|(mut ops, dups)| {
            // duplicate names: copy the name of entry a onto entry b
            let idx: Vec<usize> = ops.iter().enumerate().filter(|(_, o)| matches!(o, Op::File { .. })).map(|(i, _)| i).collect();
            if idx.len() >= 2 {
                for (a, b) in dups {
                    let ia = idx[(a as usize * idx.len()) >> 16];
                    let ib = idx[(b as usize * idx.len()) >> 16];
                    if ia != ib {
                        let n = match &ops[ia] {
                            Op::File { name, .. } => name.clone(),
                            _ => unreachable!(),
                        };
                        if let Op::File { name, .. } = &mut ops[ib] {
                            *name = n;
                        }
                    }
                }
            }
            Program { ops }
        })
        .boxed()
}

pub fn entry_count(p: &Program) -> usize {
    p.ops.iter().filter(|o| !matches!(o, Op::Comment(_))).count()
}
