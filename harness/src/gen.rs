//! generators
