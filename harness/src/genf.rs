//! Generators for "foreign" archives: specs for the independent builder covering the layout
//! freedoms APPNOTE allows.
use crate::refzip::content::{self, Content};
use crate::refzip::{ArchiveSpec, Desc, Enc, EntrySpec, Extra};
use proptest::prelude::*;

pub fn name_bytes() -> BoxedStrategy<(Vec<u8>, bool)> {
    prop_oneof![
        6 => "[a-z0-9_.-]{1,12}(/[a-z0-9_.-]{1,8}){0,3}/?".prop_map(|s| (s.into_bytes(), false)),
        2 => "[a-z0-9]{1,8}".prop_map(|s| (s.into_bytes(), true)),
        3 => "[a-zé漢字ß😀 ]{1,10}(/[a-zéü漢😀]{1,6}){0,2}".prop_map(|s| (s.into_bytes(), true)),
        3 => proptest::collection::vec(any::<u8>(), 1..20).prop_map(|b| (b, false)),
        1 => proptest::collection::vec(any::<u8>(), 0..20).prop_map(|b| (b, true)),
        1 => Just((vec![], false)),
        1 => "[a-z./\\\\]{1,12}".prop_map(|s| (s.into_bytes(), false)),
        // bytes >= 0x80 that happen to be well-formed UTF-8 but are NOT flagged as such (CP437 applies)
        1 => "[a-zé漢ß]{1,8}(/[a-zéü]{1,6}){0,2}".prop_map(|s| (s.into_bytes(), false)),
        // one path component longer than NAME_MAX (255 bytes) with multi-byte characters around that offset
        1 => (240usize..300, 0usize..12, any::<bool>()).prop_map(|(a, k, flag)| {
            let mut s = "c".repeat(a);
            s.push_str(&"é漢😀".repeat(k + 1));
            s.push_str("/tail.txt");
            (s.into_bytes(), flag)
        }),
        // DOS drive prefixes and device-style names
        1 => prop_oneof![Just("C:.."), Just("C:..\\evil.txt"), Just("c:/x/y"), Just("C:."), Just("C:\\..\\x"), Just("d:x/../../y"), Just("C:"), Just("//server/share/x"), Just("\\\\?\\C:\\x")].prop_map(|s| (s.as_bytes().to_vec(), false)),
    ]
    .boxed()
}

pub fn unknown_extra() -> BoxedStrategy<Extra> {
    // any id except ZIP64 (0x0001) and WinZip AES (0x9901), which the reader interprets
    (any::<u16>().prop_map(|x| if x == 1 || x == 0x9901 { 0x5455 } else { x }), proptest::collection::vec(any::<u8>(), 0..24)).prop_map(|(id, data)| Extra { id, data }).boxed()
}

pub fn junk(max: usize) -> BoxedStrategy<Vec<u8>> {
    prop_oneof![4 => Just(vec![]), 1 => proptest::collection::vec(any::<u8>(), 1..=max)].boxed()
}

/// bytes without any "PK" pair (so no record signature can appear)
pub fn no_sig(mut v: Vec<u8>) -> Vec<u8> {
    for i in 0..v.len().saturating_sub(1) {
        if v[i] == b'P' && v[i + 1] == b'K' {
            v[i + 1] = b'k';
        }
    }
    v
}

pub fn made_by() -> BoxedStrategy<u16> {
    (prop_oneof![3 => Just(3u8), 3 => Just(0u8), 1 => Just(7u8), 1 => Just(10u8), 1 => Just(19u8), 1 => any::<u8>()], any::<u8>()).prop_map(|(s, v)| ((s as u16) << 8) | v as u16).boxed()
}

pub fn ext_attr() -> BoxedStrategy<u32> {
    prop_oneof![
        1 => Just(0u32),
        3 => (0u32..0o200000).prop_map(|m| m << 16),
        2 => (0u32..0o200000, any::<u8>()).prop_map(|(m, d)| (m << 16) | d as u32),
        2 => any::<u8>().prop_map(|d| d as u32),
        1 => any::<u32>(),
    ]
    .boxed()
}

pub fn entry(max: u32, allow_unsupported: bool) -> BoxedStrategy<EntrySpec> {
    let method = if allow_unsupported {
        prop_oneof![3 => Just(0u16), 3 => Just(8u16), 1 => Just(12u16), 1 => Just(93u16), 1 => prop_oneof![Just(1u16), Just(9), Just(14), Just(95), Just(98), Just(6)]].boxed()
    } else {
        prop_oneof![3 => Just(0u16), 3 => Just(8u16), 1 => Just(12u16), 1 => Just(93u16)].boxed()
    };
    let head = (name_bytes(), method, content::content(max), any::<u16>(), any::<u16>(), made_by(), ext_attr(), any::<u16>());
    let tail = (
        prop_oneof![3 => Just(vec![]), 1 => proptest::collection::vec(any::<u8>(), 1..30)],
        proptest::collection::vec(unknown_extra(), 0..3),
        proptest::collection::vec(unknown_extra(), 0..3),
        proptest::collection::vec(unknown_extra(), 0..3),
        prop_oneof![4 => Just([false; 3]), 2 => any::<[bool; 3]>()],
        prop_oneof![4 => Just(false), 1 => Just(true)],
        prop_oneof![4 => Just(Desc::None), 1 => Just(Desc::Sig32), 1 => Just(Desc::NoSig32), 1 => Just(Desc::Sig64), 1 => Just(Desc::NoSig64)],
        junk(40),
        prop_oneof![5 => Just(None), 1 => "[a-z]{0,12}".prop_map(Some)],
        prop_oneof![3 => Just(0u16), 1 => Just(2u16), 1 => Just(4u16), 1 => Just(6u16)],
        prop_oneof![3 => Just(0u8), 1 => any::<u8>()],
        prop_oneof![3 => Just(0u8), 1 => Just(1u8), 1 => Just(2u8)],
    );
    (head, tail)
        .prop_map(|((nb, method, content, dos_time, dos_date, made_by, external_attr, internal_attr), (comment, mut ceb, mut cea, mut le, zip64, local_zip64, desc, gap, local_name, flags_extra, wk, desc_mode))| {
            // well-formed records of widely used third-party extensions, with valid contents: a reader
            // that starts to interpret one of them must not change what the property pins down (name and
            // comment decoded from the header fields by the flagged encoding, DOS timestamp, mode)
            if wk != 0 {
                let recs = well_known_extras(&nb.0, &comment, wk);
                for (k, r) in recs.into_iter().enumerate() {
                    match (wk as usize + k) % 3 {
                        0 => ceb.push(r),
                        1 => {
                            cea.push(r.clone());
                            le.push(r);
                        }
                        _ => le.push(r),
                    }
                }
            }
            // rarely: a very long name next to very long extra fields (each fits its 16-bit length field,
            // their sum does not fit 16 bits)
            let mut nb = nb;
            if wk >= 250 {
                let n = 30000 + (wk as usize - 250) * 6000 + content.len() % 500;
                nb.0 = "L".repeat(n.min(65535)).into_bytes();
                let big = Extra { id: 0xb16b, data: vec![0xab; 40000 - (wk as usize - 250) * 3000] };
                if wk % 2 == 0 {
                    ceb.insert(0, big);
                } else {
                    le.insert(0, big);
                }
            }
            let zstd_frames = if method == 93 { [0u8, 0, 2, 3][content.len() % 4] } else { 0 };
            let raw_payload = if matches!(method, 0 | 8 | 12 | 93) { None } else { Some(Content::Rand { seed: content.len() as u64 * 31 + 7, len: (content.len() as u32 / 2 + 3).min(5000) }) };
            EntrySpec {
                name: nb.0,
                local_name,
                utf8: nb.1,
                method,
                level: None,
                content,
                raw_payload,
                dos_time,
                dos_date,
                made_by,
                version_needed: 20,
                external_attr,
                internal_attr,
                comment,
                central_extra_before: ceb,
                central_extra_after: cea,
                local_extra: le,
                zip64,
                local_zip64,
                desc,
                enc: Enc::None,
                gap_before: gap,
                flags_extra,
                desc_mode,
                zstd_frames,
            }
        })
        .boxed()
}

/// Info-ZIP Unicode Path (0x7075) / Unicode Comment (0x6375) with a matching CRC of the header field
/// and a DIFFERENT UTF-8 text, extended timestamp (0x5455), Unix uid/gid (0x7875), NTFS times (0x000a),
/// old Info-ZIP Unix (0x5855): `sel` picks which ones.
pub fn well_known_extras(name: &[u8], comment: &[u8], sel: u8) -> Vec<Extra> {
    let crc = crate::refzip::crypto::crc32;
    let mut v = Vec::new();
    if sel & 1 != 0 {
        let mut d = vec![1u8];
        d.extend_from_slice(&crc(name).to_le_bytes());
        d.extend_from_slice("ünïcödé/päth-\u{6f22}.txt".as_bytes());
        v.push(Extra { id: 0x7075, data: d });
    }
    if sel & 2 != 0 {
        let mut d = vec![1u8];
        d.extend_from_slice(&crc(comment).to_le_bytes());
        d.extend_from_slice("ünïcödé cömment".as_bytes());
        v.push(Extra { id: 0x6375, data: d });
    }
    if sel & 4 != 0 {
        // flags: mtime+atime+ctime present; central copies usually carry mtime only - both are legal
        let mut d = vec![7u8];
        for t in [1_000_000_000u32, 1_100_000_000, 1_200_000_000] {
            d.extend_from_slice(&t.to_le_bytes());
        }
        v.push(Extra { id: 0x5455, data: d });
    }
    if sel & 8 != 0 {
        v.push(Extra { id: 0x7875, data: vec![1, 4, 0xe8, 3, 0, 0, 4, 0xe8, 3, 0, 0] });
    }
    if sel & 16 != 0 {
        let mut d = vec![0u8; 4];
        d.extend_from_slice(&1u16.to_le_bytes());
        d.extend_from_slice(&24u16.to_le_bytes());
        for t in [132_000_000_000_000_000u64, 132_100_000_000_000_000, 132_200_000_000_000_000] {
            d.extend_from_slice(&t.to_le_bytes());
        }
        v.push(Extra { id: 0x000a, data: d });
    }
    if sel & 32 != 0 {
        let mut d = Vec::new();
        d.extend_from_slice(&1_000_000_000u32.to_le_bytes());
        d.extend_from_slice(&1_000_000_001u32.to_le_bytes());
        d.extend_from_slice(&1000u16.to_le_bytes());
        d.extend_from_slice(&1000u16.to_le_bytes());
        v.push(Extra { id: 0x5855, data: d });
    }
    v
}

pub fn archive(max_entries: usize, max_content: u32, allow_unsupported: bool) -> BoxedStrategy<ArchiveSpec> {
    (
        proptest::collection::vec(entry(max_content, allow_unsupported), 0..=max_entries),
        proptest::collection::vec(any::<u16>(), 0..4),
        any::<bool>(),
        any::<u64>(),
        prop_oneof![3 => Just(Content::Bytes(vec![])), 2 => (any::<u64>(), 1u32..2000).prop_map(|(seed, len)| Content::Rand { seed, len }), 1 => (any::<u64>(), 2000u32..65536).prop_map(|(seed, len)| Content::Rand { seed, len })],
        prop_oneof![3 => Just(vec![]), 2 => proptest::collection::vec(any::<u8>(), 1..40), 1 => (any::<u64>(), prop_oneof![Just(65535u32), 1000u32..65535]).prop_map(|(s, n)| Content::Text { seed: s, len: n }.expand())],
        junk(200),
        prop_oneof![4 => Just(None), 2 => any::<[bool; 3]>().prop_map(Some)],
        junk(30),
        prop_oneof![3 => Just(vec![]), 1 => proptest::collection::vec(any::<u8>(), 1..60), 1 => Just(vec![0u8; 4])],
    )
        .prop_map(|(mut entries, dups, shuffle, sseed, prefix, comment, trailing, zip64_end, gap_cd, zext)| {
            // duplicate names
            if entries.len() >= 2 {
                for pair in dups.chunks(2) {
                    if pair.len() == 2 {
                        let a = (pair[0] as usize * entries.len()) >> 16;
                        let b = (pair[1] as usize * entries.len()) >> 16;
                        if a != b {
                            entries[b].name = entries[a].name.clone();
                            entries[b].utf8 = entries[a].utf8;
                        }
                    }
                }
            }
            let n = entries.len();
            let central_order = if shuffle && n > 1 {
                let mut o: Vec<usize> = (0..n).collect();
                let mut g = crate::util::Sm(sseed);
                for i in (1..n).rev() {
                    let j = (g.next() % (i as u64 + 1)) as usize;
                    o.swap(i, j);
                }
                Some(o)
            } else {
                None
            };
            let comment = no_sig(comment);
            // trailing garbage only on archives without ZIP64 end records, comment+garbage <= 65535
            let mut trailing = no_sig(trailing);
            if zip64_end.is_some() || comment.len() + trailing.len() > 65535 {
                trailing.clear();
            }
            let zip64_ext = if zip64_end.is_some() { no_sig(zext) } else { Vec::new() };
            ArchiveSpec { entries, central_order, prefix, comment, trailing, zip64_end, gap_before_cd: no_sig(gap_cd), zip64_ext }
        })
        .boxed()
}

/// true if the ZIP64 forward search of a prefixed archive could hit a fake signature first
pub fn zip64_search_ambiguous(spec: &ArchiveSpec, built: &crate::refzip::Built) -> bool {
    if spec.zip64_end.is_none() && spec.entries.len() <= 0xFFFF {
        return false;
    }
    let true_pos = built.eocd_pos.saturating_sub(76 + spec.zip64_ext.len() as u64) as usize;
    let nominal = true_pos.saturating_sub(built.prefix_len as usize);
    let hay = &built.bytes[nominal.min(built.bytes.len())..(true_pos + 3).min(built.bytes.len())];
    hay.windows(4).take(true_pos - nominal).any(|w| w == [0x50, 0x4b, 0x06, 0x06])
}
