//! zipverif — property-based / fuzzing machinery for the zip crate (library part, shared by the
//! `zv` binary and the cargo-fuzz targets).
pub mod alloc;
pub mod engine;
pub mod gen;
pub mod genf;
pub mod props;
pub mod refzip;
pub mod robust;
pub mod seeds;
pub mod sio;
pub mod util;
