//! zv — property-based / fuzzing checks for the zip crate.
//!   zv run <Cxx> <quick|thorough>      supervisor: runs the worker, diagnoses aborts, watchdog
//!   zv worker <Cxx> <tier> [--only d:i] worker (in-process search)
//!   zv replay <file>                   re-judge a saved case
//!   zv selftest                        reference components against published vectors
use zipverif::{alloc, engine, props, util};

use engine::{Ctx, Mode, Tier};
use std::process::{Command, Stdio};
use std::time::{Duration, Instant};

#[global_allocator]
static GLOBAL: alloc::Counting = alloc::Counting;

fn seed() -> u64 {
    std::env::var("VERIF_SEED").ok().and_then(|s| s.trim().parse::<u64>().ok()).unwrap_or(20260929)
}

fn tier_of(s: &str) -> Tier {
    match s {
        "quick" => Tier::Quick,
        "thorough" => Tier::Thorough,
        _ => {
            eprintln!("unknown tier {s}");
            std::process::exit(2)
        }
    }
}

fn main() {
    let args: Vec<String> = std::env::args().collect();
    if args.len() < 2 {
        eprintln!("usage: zv run|worker|replay|selftest ...");
        std::process::exit(2);
    }
    match args[1].as_str() {
        "run" => std::process::exit(supervise(&args[2], &args[3])),
        "worker" => {
            util::install_panic_hook();
            let prop = props::lookup(&args[2]).unwrap_or_else(|| {
                eprintln!("unknown property {}", args[2]);
                std::process::exit(2)
            });
            let tier = tier_of(&args[3]);
            let mut mode = Mode::Run;
            if args.len() >= 6 && args[4] == "--only" {
                let (d, i) = args[5].split_once(':').expect("--only d:i");
                mode = Mode::Only { driver: d.parse().unwrap(), index: i.parse().unwrap() };
            }
            let root = std::env::var("ZV_ROOT").unwrap_or_else(|_| "/verif".into());
            let _ = std::fs::create_dir_all(format!("{root}/replays/{}", prop.id));
            // the crate prints "ZipWriter drop failed" to stderr from Drop; keep that out of the
            // check's output (it goes to a log file), our own diagnostics use the saved fd
            unsafe {
                let saved = libc::dup(2);
                if let Ok(f) = std::fs::File::create(format!("{root}/replays/{}/.stderr.log", prop.id)) {
                    use std::os::unix::io::IntoRawFd;
                    let fd = f.into_raw_fd();
                    libc::dup2(fd, 2);
                    libc::close(fd);
                    engine::DIAG_FD.store(saved as u64, std::sync::atomic::Ordering::Relaxed);
                }
            }
            engine::install_fatal_handlers(std::path::Path::new(&format!("{root}/replays/{}/.inflight.bin", prop.id)));
            if matches!(mode, Mode::Run) {
                let limit = std::env::var("ZV_STALL_S").ok().and_then(|s| s.parse().ok()).unwrap_or(if args[3] == "quick" { 240 } else { 3600 });
                // the supervisor's watchdog (ZV_WATCHDOG_S, 1500 s / 6 h) minus two minutes
                let wd: u64 = std::env::var("ZV_WATCHDOG_S").ok().and_then(|s| s.parse().ok()).unwrap_or(if args[3] == "quick" { 1500 } else { 6 * 3600 });
                engine::start_stall_monitor(limit, wd.saturating_sub(120), std::path::PathBuf::from(format!("{root}/replays/{}/.stalled", prop.id)));
            }
            let only = !matches!(mode, Mode::Run);
            let mut ctx = Ctx::new(prop.id, tier, seed(), prop.level, mode);
            // known-finding replays first (only in a normal run)
            let mut regress_bad = 0;
            if !only {
                ctx.known_printed = props::replay_known(&prop, tier, seed());
                let (n, bad) = props::replay_regressions(&prop);
                regress_bad = bad;
                ctx.extra.insert("regression_inputs_replayed".into(), serde_json::json!(n));
            }
            (prop.run)(&mut ctx);
            if only {
                std::process::exit(0);
            }
            let code = ctx.finish();
            std::process::exit(if regress_bad > 0 { 1 } else { code });
        }
        "replay" => {
            util::install_panic_hook();
            std::process::exit(props::replay_file(&args[2], true));
        }
        "dump-corpus" => {
            // seed corpus for the libFuzzer campaigns: seed archives + repository fixtures
            let dir = std::path::PathBuf::from(&args[2]);
            std::fs::create_dir_all(&dir).expect("corpus dir");
            for (i, s) in zipverif::seeds::small_seeds().iter().enumerate() {
                std::fs::write(dir.join(format!("seed-{i:02}-{}.zip", s.name)), &s.bytes).expect("write");
            }
            for (n, b) in zipverif::seeds::repo_fixtures() {
                std::fs::write(dir.join(format!("fixture-{n}")), &b).expect("write");
            }
            std::process::exit(0);
        }
        "mkreplay" => {
            // wrap a libFuzzer artifact into a replay file and re-judge it without the fuzzer
            util::install_panic_hook();
            let bytes = std::fs::read(&args[3]).expect("artifact");
            let root = std::env::var("ZV_ROOT").unwrap_or_else(|_| "/verif".into());
            let path = format!("{root}/replays/{}/fuzz-{:08x}.json", args[2], util::hash_of(&bytes[..]) as u32);
            let _ = std::fs::create_dir_all(format!("{root}/replays/{}", args[2]));
            let doc = serde_json::json!({"property": args[2], "driver": "fuzz_raw", "seed": seed(), "tier": "thorough",
                "message": format!("libFuzzer artifact {}", args[3]), "case": {"bytes": util::hex(&bytes)}});
            std::fs::write(&path, serde_json::to_vec_pretty(&doc).unwrap()).expect("write replay");
            std::process::exit(props::replay_file(&path, true));
        }
        "bzprobe" => {
            // research tool: mutate small valid bzip2 streams and decode them through the crate
            // (as the single Bzip2 entry of an archive); the current input is written to args[2] before
            // every attempt, so a crash of this process leaves the culprit behind.
            use std::io::{Read, Write};
            let out = std::path::PathBuf::from(&args[2]);
            let seed: u64 = args[3].parse().unwrap();
            let n: u64 = args[4].parse().unwrap();
            let mut g = util::Sm(seed);
            let bases: Vec<Vec<u8>> = [&b"aab"[..], b"abcabcabc", b"aaaaaaaaaaaaaaaaaaaaab", b"ab", b"zzzzyyyx"].iter().map(|d| {
                let mut e = bzip2::write::BzEncoder::new(Vec::new(), bzip2::Compression::new(1));
                e.write_all(d).unwrap();
                e.finish().unwrap()
            }).collect();
            struct Bw { v: Vec<u8>, cur: u8, n: u8 }
            impl Bw {
                fn bits(&mut self, val: u64, k: u32) { for i in (0..k).rev() { self.cur = (self.cur << 1) | ((val >> i) & 1) as u8; self.n += 1; if self.n == 8 { self.v.push(self.cur); self.cur = 0; self.n = 0; } } }
                fn done(mut self) -> Vec<u8> { while self.n != 0 { self.bits(0, 1); } self.v }
            }
            for it in 0..n {
                let mut b = if args.len() > 5 {
                    // synthesise a block with one symbol in use, 2 groups, 4 selectors, random code lengths
                    let mut w = Bw { v: b"BZh1".to_vec(), cur: 0, n: 0 };
                    w.bits(0x314159265359, 48);
                    w.bits(g.next() & 0xffff_ffff, 32);
                    w.bits(0, 1);
                    w.bits(0, 24);
                    w.bits(0x0400, 16); // group 5 in use
                    w.bits(0x4000, 16); // byte 'a' (0x61 = 5*16+1)
                    w.bits(2, 3);
                    w.bits(4, 15);
                    for _ in 0..4 { if g.next() & 1 == 0 { w.bits(0, 1) } else { w.bits(0b10, 2) } }
                    for _ in 0..2 {
                        let mut curr = 1 + (g.next() % 20) as i64;
                        w.bits(curr as u64, 5);
                        for _ in 0..3 {
                            let target = 1 + (g.next() % 20) as i64;
                            while curr != target { if curr < target { w.bits(0b10, 2); curr += 1 } else { w.bits(0b11, 2); curr -= 1 } }
                            w.bits(0, 1);
                        }
                    }
                    for _ in 0..8 { w.bits(g.next(), 64); }
                    w.done()
                } else { bases[(g.next() % bases.len() as u64) as usize].clone() };
                let k = if args.len() > 5 { 0 } else { 1 + g.next() % 3 };
                for _ in 0..k {
                    let pos = 4 + (g.next() % (b.len() as u64 - 4)) as usize;
                    b[pos] ^= 1 << (g.next() % 8);
                }
                let mut e = zipverif::refzip::EntrySpec::simple(b"x", 12, zipverif::refzip::Content::Bytes(b"aab".to_vec()));
                e.raw_payload = Some(zipverif::refzip::Content::Bytes(b));
                let arc = zipverif::refzip::build::build(&zipverif::refzip::ArchiveSpec::plain(vec![e])).unwrap().bytes;
                std::fs::write(&out, &arc).unwrap();
                let mut za = zip::ZipArchive::new(std::io::Cursor::new(&arc[..])).unwrap();
                if let Ok(mut f) = za.by_index(0) {
                    let mut v = Vec::new();
                    let _ = f.read_to_end(&mut v);
                }
                if it % 100000 == 0 {
                    eprintln!("bzprobe {it}");
                }
            }
            std::process::exit(0);
        }
        "rawexercise" => {
            // run the C05 driver on the bytes stored in a {"case":{"bytes":hex}} file; used as a child
            // process for inputs that kill the process
            let doc: serde_json::Value = serde_json::from_slice(&std::fs::read(&args[2]).expect("file")).expect("json");
            let bytes = util::unhex(doc["case"]["bytes"].as_str().unwrap_or("")).unwrap_or_default();
            std::process::exit(if zipverif::robust::exercise(&bytes).is_ok() { 0 } else { 1 });
        }
        "selftest" => {
            util::install_panic_hook();
            std::process::exit(props::selftest());
        }
        _ => {
            eprintln!("unknown command");
            std::process::exit(2)
        }
    }
}

/// Supervisor: run the worker as a child. Exit 0/1 pass through. Death by signal => for each
/// in-flight case re-run it alone to find the one that kills the process and report it.
/// Runs the worker; a worker killed by a fatal signal raised INSIDE libbz2 (the listed known finding
/// C05/bzip2-c-decoder-uninitialised-read: crafted Bzip2 data makes the bundled C decoder read
/// uninitialised tables, which crashes or not depending on heap garbage) is restarted with the culprit
/// case left out, so the search continues behind the finding; everything else goes to `supervise_once`.
fn supervise(prop: &str, tier: &str) -> i32 {
    let root = std::env::var("ZV_ROOT").unwrap_or_else(|_| "/verif".into());
    let listed = engine::load_known(&std::path::PathBuf::from(&root)).iter().any(|k| k.key == "bzip2-c-decoder-uninitialised-read");
    let mut skip: Vec<u64> = Vec::new();
    let mut stalled: Vec<u64> = Vec::new();
    loop {
        let stall_file = format!("{root}/replays/{prop}/.stalled");
        let _ = std::fs::remove_file(&stall_file);
        let (code, bz2_case) = supervise_once(prop, tier, &skip);
        if code == 3 {
            // the worker's stall monitor gave up on test executions that did not return: restart without them
            let tags: Vec<u64> = std::fs::read_to_string(&stall_file).unwrap_or_default().split(',').filter_map(|x| x.trim().parse().ok()).collect();
            let _ = std::fs::remove_file(&stall_file);
            let fresh: Vec<u64> = tags.into_iter().filter(|t| !skip.contains(t)).collect();
            if fresh.is_empty() || stalled.len() >= 48 {
                eprintln!("[{prop}] worker stalled repeatedly; inconclusive");
                return 2;
            }
            eprintln!("[{prop}] {} case(s) did not return (presumed hung) and are left out; restarting the worker", fresh.len());
            stalled.extend(fresh.iter().copied());
            skip.extend(fresh);
            continue;
        }
        if !stalled.is_empty() && code == 0 {
            eprintln!("[{prop}] no violation in the cases that returned, but {} case(s) never returned (hang or extreme slowness): inconclusive, not a violation", stalled.len());
            return 2;
        }
        match bz2_case {
            Some(tag) if listed && skip.len() < 50 && !skip.contains(&tag) => {
                eprintln!("[{prop}] worker was killed inside libbz2 while running case {}:{} - that is the listed known finding C05/bzip2-c-decoder-uninitialised-read; restarting without that case ({} left out so far)", tag >> 48, (tag & 0xffff_ffff_ffff) - 1, skip.len() + 1);
                skip.push(tag);
            }
            _ => return code,
        }
    }
}

fn supervise_once(prop: &str, tier: &str, skip: &[u64]) -> (i32, Option<u64>) {
    let exe = std::env::current_exe().expect("exe");
    let root = std::env::var("ZV_ROOT").unwrap_or_else(|_| "/verif".into());
    let limit = Duration::from_secs(
        std::env::var("ZV_WATCHDOG_S").ok().and_then(|s| s.parse().ok()).unwrap_or(if tier == "quick" { 1500 } else { 6 * 3600 }),
    );
    let inflight = format!("{root}/replays/{prop}/.inflight.bin");
    let _ = std::fs::remove_file(&inflight);
    let t0 = Instant::now();
    let skip_s = skip.iter().map(|t| t.to_string()).collect::<Vec<_>>().join(",");
    let mut child = Command::new(&exe).args(["worker", prop, tier]).env("ZV_SKIP", &skip_s).stdin(Stdio::null()).spawn().expect("spawn worker");
    let status = loop {
        match child.try_wait().expect("wait") {
            Some(s) => break s,
            None => {
                if t0.elapsed() > limit {
                    let _ = child.kill();
                    let _ = child.wait();
                    eprintln!("[{prop}] watchdog: worker exceeded {}s; inconclusive", limit.as_secs());
                    return (2, None);
                }
                std::thread::sleep(Duration::from_millis(50));
            }
        }
    };
    if let Some(code) = status.code() {
        let _ = std::fs::remove_file(&inflight);
        return (code, None);
    }
    use std::os::unix::process::ExitStatusExt;
    let sig = status.signal().unwrap_or(0);
    eprintln!("[{prop}] worker died by signal {sig}; diagnosing in-flight cases");
    if sig == libc::SIGKILL {
        eprintln!("[{prop}] killed (OOM?) — inconclusive");
        return (2, None);
    }
    let data = std::fs::read(&inflight).unwrap_or_default();
    // trailer written by the fatal-signal handler: the crashing thread's own case and whether the fault
    // address lies inside libbz2
    let n = engine::SLOTS * 8;
    if data.len() >= n + 16 {
        let mine = u64::from_le_bytes(data[n..n + 8].try_into().unwrap());
        let in_bz2 = u64::from_le_bytes(data[n + 8..n + 16].try_into().unwrap());
        if in_bz2 == 1 && mine != 0 && sig == libc::SIGSEGV {
            return (2, Some(mine));
        }
    }
    let data = data[..n.min(data.len())].to_vec();
    let mut cands = Vec::new();
    for ch in data.chunks(8) {
        if ch.len() == 8 {
            let v = u64::from_le_bytes(ch.try_into().unwrap());
            if v != 0 {
                cands.push(((v >> 48) as usize, (v & 0xffff_ffff_ffff) - 1));
            }
        }
    }
    cands.sort();
    cands.dedup();
    for (d, i) in cands {
        let st = Command::new(&exe)
            .args(["worker", prop, tier, "--only", &format!("{d}:{i}")])
            .stdin(Stdio::null())
            .stdout(Stdio::null())
            .status()
            .expect("spawn only");
        if st.code().is_none() {
            // reproduced: find the dumped file
            let dir = format!("{root}/replays/{prop}");
            let mut found = None;
            if let Ok(rd) = std::fs::read_dir(&dir) {
                for e in rd.flatten() {
                    let n = e.file_name().to_string_lossy().to_string();
                    if n.starts_with("abort-") && n.ends_with(&format!("-{i}.json")) {
                        found = Some(e.path());
                    }
                }
            }
            if let Some(p) = found {
                println!("VIOLATION property={prop} replay={}", p.display());
                println!("  the process aborts (signal {}) while running this case", st.signal().unwrap_or(0));
                return (1, None);
            }
        }
    }
    eprintln!("[{prop}] could not reproduce the crash in isolation — inconclusive");
    (2, None)
}
