//! zv — property-based / fuzzing checks for the zip crate.
//!   zv run <Cxx> <quick|thorough>      supervisor: runs the worker, diagnoses aborts, watchdog
//!   zv worker <Cxx> <tier> [--only d:i] worker (in-process search)
//!   zv replay <file>                   re-judge a saved case
//!   zv selftest                        reference components against published vectors
use zipverif::{alloc, engine, props, util};

use engine::{Ctx, Mode, Tier};
use std::process::{Command, Stdio};
use std::time::{Duration, Instant};

#[global_allocator]
static GLOBAL: alloc::Counting = alloc::Counting;

fn seed() -> u64 {
    std::env::var("VERIF_SEED").ok().and_then(|s| s.trim().parse::<u64>().ok()).unwrap_or(20260929)
}

fn tier_of(s: &str) -> Tier {
    match s {
        "quick" => Tier::Quick,
        "thorough" => Tier::Thorough,
        _ => {
            eprintln!("unknown tier {s}");
            std::process::exit(2)
        }
    }
}

fn main() {
    let args: Vec<String> = std::env::args().collect();
    if args.len() < 2 {
        eprintln!("usage: zv run|worker|replay|selftest ...");
        std::process::exit(2);
    }
    match args[1].as_str() {
        "run" => std::process::exit(supervise(&args[2], &args[3])),
        "worker" => {
            util::install_panic_hook();
            let prop = props::lookup(&args[2]).unwrap_or_else(|| {
                eprintln!("unknown property {}", args[2]);
                std::process::exit(2)
            });
            let tier = tier_of(&args[3]);
            let mut mode = Mode::Run;
            if args.len() >= 6 && args[4] == "--only" {
                let (d, i) = args[5].split_once(':').expect("--only d:i");
                mode = Mode::Only { driver: d.parse().unwrap(), index: i.parse().unwrap() };
            }
            let root = std::env::var("ZV_ROOT").unwrap_or_else(|_| "/verif".into());
            let _ = std::fs::create_dir_all(format!("{root}/replays/{}", prop.id));
            // the crate prints "ZipWriter drop failed" to stderr from Drop; keep that out of the
            // check's output (it goes to a log file), our own diagnostics use the saved fd
            unsafe {
                let saved = libc::dup(2);
                if let Ok(f) = std::fs::File::create(format!("{root}/replays/{}/.stderr.log", prop.id)) {
                    use std::os::unix::io::IntoRawFd;
                    let fd = f.into_raw_fd();
                    libc::dup2(fd, 2);
                    libc::close(fd);
                    engine::DIAG_FD.store(saved as u64, std::sync::atomic::Ordering::Relaxed);
                }
            }
            engine::install_fatal_handlers(std::path::Path::new(&format!("{root}/replays/{}/.inflight.bin", prop.id)));
            let only = !matches!(mode, Mode::Run);
            let mut ctx = Ctx::new(prop.id, tier, seed(), prop.level, mode);
            // known-finding replays first (only in a normal run)
            let mut regress_bad = 0;
            if !only {
                ctx.known_printed = props::replay_known(&prop, tier, seed());
                let (n, bad) = props::replay_regressions(&prop);
                regress_bad = bad;
                ctx.extra.insert("regression_inputs_replayed".into(), serde_json::json!(n));
            }
            (prop.run)(&mut ctx);
            if only {
                std::process::exit(0);
            }
            let code = ctx.finish();
            std::process::exit(if regress_bad > 0 { 1 } else { code });
        }
        "replay" => {
            util::install_panic_hook();
            std::process::exit(props::replay_file(&args[2], true));
        }
        "dump-corpus" => {
            // seed corpus for the libFuzzer campaigns: seed archives + repository fixtures
            let dir = std::path::PathBuf::from(&args[2]);
            std::fs::create_dir_all(&dir).expect("corpus dir");
            for (i, s) in zipverif::seeds::small_seeds().iter().enumerate() {
                std::fs::write(dir.join(format!("seed-{i:02}-{}.zip", s.name)), &s.bytes).expect("write");
            }
            for (n, b) in zipverif::seeds::repo_fixtures() {
                std::fs::write(dir.join(format!("fixture-{n}")), &b).expect("write");
            }
            std::process::exit(0);
        }
        "mkreplay" => {
            // wrap a libFuzzer artifact into a replay file and re-judge it without the fuzzer
            util::install_panic_hook();
            let bytes = std::fs::read(&args[3]).expect("artifact");
            let root = std::env::var("ZV_ROOT").unwrap_or_else(|_| "/verif".into());
            let path = format!("{root}/replays/{}/fuzz-{:08x}.json", args[2], util::hash_of(&bytes[..]) as u32);
            let _ = std::fs::create_dir_all(format!("{root}/replays/{}", args[2]));
            let doc = serde_json::json!({"property": args[2], "driver": "fuzz_raw", "seed": seed(), "tier": "thorough",
                "message": format!("libFuzzer artifact {}", args[3]), "case": {"bytes": util::hex(&bytes)}});
            std::fs::write(&path, serde_json::to_vec_pretty(&doc).unwrap()).expect("write replay");
            std::process::exit(props::replay_file(&path, true));
        }
        "selftest" => {
            util::install_panic_hook();
            std::process::exit(props::selftest());
        }
        _ => {
            eprintln!("unknown command");
            std::process::exit(2)
        }
    }
}

/// Supervisor: run the worker as a child. Exit 0/1 pass through. Death by signal => for each
/// in-flight case re-run it alone to find the one that kills the process and report it.
fn supervise(prop: &str, tier: &str) -> i32 {
    let exe = std::env::current_exe().expect("exe");
    let root = std::env::var("ZV_ROOT").unwrap_or_else(|_| "/verif".into());
    let limit = Duration::from_secs(
        std::env::var("ZV_WATCHDOG_S").ok().and_then(|s| s.parse().ok()).unwrap_or(if tier == "quick" { 1500 } else { 6 * 3600 }),
    );
    let inflight = format!("{root}/replays/{prop}/.inflight.bin");
    let _ = std::fs::remove_file(&inflight);
    let t0 = Instant::now();
    let mut child = Command::new(&exe).args(["worker", prop, tier]).stdin(Stdio::null()).spawn().expect("spawn worker");
    let status = loop {
        match child.try_wait().expect("wait") {
            Some(s) => break s,
            None => {
                if t0.elapsed() > limit {
                    let _ = child.kill();
                    let _ = child.wait();
                    eprintln!("[{prop}] watchdog: worker exceeded {}s; inconclusive", limit.as_secs());
                    return 2;
                }
                std::thread::sleep(Duration::from_millis(50));
            }
        }
    };
    if let Some(code) = status.code() {
        let _ = std::fs::remove_file(&inflight);
        return code;
    }
    use std::os::unix::process::ExitStatusExt;
    let sig = status.signal().unwrap_or(0);
    eprintln!("[{prop}] worker died by signal {sig}; diagnosing in-flight cases");
    if sig == libc::SIGKILL {
        eprintln!("[{prop}] killed (OOM?) — inconclusive");
        return 2;
    }
    let data = std::fs::read(&inflight).unwrap_or_default();
    let mut cands = Vec::new();
    for ch in data.chunks(8) {
        if ch.len() == 8 {
            let v = u64::from_le_bytes(ch.try_into().unwrap());
            if v != 0 {
                cands.push(((v >> 48) as usize, (v & 0xffff_ffff_ffff) - 1));
            }
        }
    }
    cands.sort();
    cands.dedup();
    for (d, i) in cands {
        let st = Command::new(&exe)
            .args(["worker", prop, tier, "--only", &format!("{d}:{i}")])
            .stdin(Stdio::null())
            .stdout(Stdio::null())
            .status()
            .expect("spawn only");
        if st.code().is_none() {
            // reproduced: find the dumped file
            let dir = format!("{root}/replays/{prop}");
            let mut found = None;
            if let Ok(rd) = std::fs::read_dir(&dir) {
                for e in rd.flatten() {
                    let n = e.file_name().to_string_lossy().to_string();
                    if n.starts_with("abort-") && n.ends_with(&format!("-{i}.json")) {
                        found = Some(e.path());
                    }
                }
            }
            if let Some(p) = found {
                println!("VIOLATION property={prop} replay={}", p.display());
                println!("  the process aborts (signal {}) while running this case", st.signal().unwrap_or(0));
                return 1;
            }
        }
    }
    eprintln!("[{prop}] could not reproduce the crash in isolation — inconclusive");
    2
}
