//! C01 — write then read returns exactly what was written; finish() and drop give identical bytes.
use super::common::{self, trunc};
use crate::engine::{Ctx, Info, Verdict};
use crate::gen::{self, Method, Op, Opts, Program};
use crate::refzip::Content;
use crate::util::catch;
use proptest::prelude::*;
use serde::{Deserialize, Serialize};

const BUFS: &[&[usize]] = &[&[4096], &[1], &[0, 1, 0, 7], &[3, 64, 2], &[65536], &[0, 4096]];

pub fn labels(p: &Program, info: &mut Info) {
    for op in &p.ops {
        match op {
            Op::File { name, opts, chunks } => {
                info.label(match (opts.method, opts.level.is_some()) {
                    (Method::Stored, _) => "m:stored",
                    (Method::Deflated, false) => "m:deflate-default",
                    (Method::Deflated, true) => "m:deflate-level",
                    (Method::Bzip2, false) => "m:bzip2-default",
                    (Method::Bzip2, true) => "m:bzip2-level",
                    (Method::Zstd, false) => "m:zstd-default",
                    (Method::Zstd, true) => "m:zstd-level",
                });
                info.label_if(!name.is_ascii(), "name:non-ascii");
                info.label_if(name.contains('\0') || name.contains('\\'), "name:nul-or-backslash");
                info.label_if(name.is_empty(), "name:empty");
                info.label_if(opts.large, "large_file");
                info.label_if(opts.password.is_some(), "encrypted");
                info.label_if(chunks.len() > 1, "multi-write");
                info.label_if(chunks.iter().map(|c| c.len()).sum::<usize>() > 65536, "content>64K");
                info.label_if(opts.perm.is_some(), "perm:explicit");
            }
            Op::Dir { .. } => info.label("dir"),
            Op::Symlink { .. } => info.label("symlink"),
            Op::ExtraFile { central, .. } => info.label(if central.is_some() { "extra:split" } else { "extra:shared" }),
            Op::Aligned { .. } => info.label("aligned"),
            Op::Comment(c) => info.label_if(!c.is_empty(), "comment>0"),
        }
    }
    let names: Vec<&String> = p
        .ops
        .iter()
        .filter_map(|o| match o {
            Op::File { name, .. } => Some(name),
            _ => None,
        })
        .collect();
    let mut s = std::collections::HashSet::new();
    info.label_if(names.iter().any(|n| !s.insert(*n)), "duplicate-name");
    info.label_if(gen::entry_count(p) >= 100, ">=100 entries");
}

pub fn nontrivial(p: &Program) -> bool {
    p.ops.iter().any(|o| match o {
        Op::File { chunks, .. } | Op::ExtraFile { chunks, .. } | Op::Aligned { chunks, .. } => chunks.iter().any(|c| !c.is_empty()),
        Op::Symlink { target, .. } => !target.is_empty(),
        _ => false,
    })
}

/// Full C01 oracle for one program. `idx` varies the caller buffer schedule.
pub fn check_program(p: &Program, idx: usize) -> Result<Vec<u8>, String> {
    let a = catch(|| gen::run_program(p, false)).map_err(|e| format!("PANIC while writing: {e}"))?.map_err(|e| format!("writer refused a legal program: {e}"))?;
    let b = catch(|| gen::run_program(p, true)).map_err(|e| format!("PANIC while writing (drop run): {e}"))?.map_err(|e| format!("writer refused a legal program (drop run): {e}"))?;
    if a != b {
        let at = a.iter().zip(b.iter()).position(|(x, y)| x != y).unwrap_or(a.len().min(b.len()));
        return Err(format!("finish() and drop produce different bytes ({} vs {} bytes, first difference at {at})", a.len(), b.len()));
    }
    let (model, comment) = gen::model(p);
    let pw = |i: usize| model[i].password.as_ref().map(|s| s.as_bytes().to_vec());
    let ra = catch(|| common::read_all(&a, &pw, BUFS[idx % BUFS.len()])).map_err(|e| format!("PANIC while reading back: {e}"))??;
    common::compare_with_model(&ra, &model, &comment)?;
    let names: Vec<String> = model.iter().map(|m| m.name.clone()).collect();
    let contents: Vec<Vec<u8>> = model.iter().map(|m| m.content.clone()).collect();
    let enc: Vec<bool> = model.iter().map(|m| m.password.is_some()).collect();
    catch(|| common::check_lookup(&a, &names, &contents, &enc)).map_err(|e| format!("PANIC in lookup: {e}"))??;
    Ok(a)
}

#[derive(Clone, Debug, Serialize, Deserialize, Hash)]
pub struct Many {
    n: u32,
    seed: u64,
    method: Method,
    comment_len: u32,
}
fn many_program(m: &Many) -> Program {
    let mut ops = Vec::with_capacity(m.n as usize + 1);
    let mut g = crate::util::Sm(m.seed);
    for i in 0..m.n {
        let r = g.next();
        let name = format!("d{}/e{i}", r % 7);
        let mut opts = Opts::plain(if r & 8 == 0 { Method::Stored } else { m.method });
        opts.ts = (1980 + (r % 128) as u16, 1 + (r >> 8) as u8 % 12, 1 + (r >> 16) as u8 % 28, (r >> 24) as u8 % 24, (r >> 32) as u8 % 60, (r >> 40) as u8 % 60);
        if r & 16 != 0 {
            opts.perm = Some((r >> 48) as u32 & 0o777);
        }
        match r % 23 {
            0 => ops.push(Op::Dir { name, opts }),
            1 => ops.push(Op::Symlink { name, target: format!("../e{}", i / 2), opts }),
            _ => ops.push(Op::File { name, opts, chunks: if r & 32 == 0 { vec![] } else { vec![Content::Bytes(i.to_le_bytes()[..(1 + (r >> 56) as usize % 4)].to_vec())] } }),
        }
    }
    if m.comment_len > 0 {
        ops.push(Op::Comment(gen::sanitize_comment(Content::Text { seed: m.seed, len: m.comment_len }.expand())));
    }
    Program { ops }
}

#[derive(Clone, Debug, Serialize, Deserialize, Hash)]
pub struct LevelCase {
    method: Method,
    level: Option<i32>,
    content: Content,
}

pub fn level_cases() -> Vec<(Method, Option<i32>)> {
    let mut v = vec![(Method::Stored, None), (Method::Deflated, None), (Method::Bzip2, None), (Method::Zstd, None)];
    for l in 0..=9 {
        v.push((Method::Deflated, Some(l)));
    }
    for l in 0..=9 {
        v.push((Method::Bzip2, Some(l)));
    }
    for l in -7..=22 {
        v.push((Method::Zstd, Some(l)));
    }
    v
}

pub fn run(ctx: &mut Ctx) {
    ctx.rule("programs: proptest-generated legal writer programs (0..12 entries: files of every method/level, dirs, symlinks, comments; names ASCII/UTF-8/NUL/backslash/empty/duplicates; any valid timestamp; any permission bits; large_file) run twice (finish and drop), read back through ZipArchive with varied caller buffers; non-trivial = at least one entry with non-empty content; distinct by hash of the program. many: programs with hundreds..thousands (thorough: >65535) of entries. levels: every documented (method, level) pair x 3 contents. boundary: names/comments at 16-bit length boundaries. comment_sweep: every archive-comment length 0..=65535 (exhaustive over the length), every 16th with a name of the same length. from_path: start_file_from_path / add_directory_from_path (paths with root, '.', '..', empty, non-UTF-8 and backslash components) and set_comment(String): the entry must read back under the path's Normal components joined by '/', with its content; is_dir()/is_file() follow the name.");
    ctx.assume("flate2/bzip2/zstd codecs are trusted; CRC-32 of the model content is computed by an independent table-driven implementation");
    ctx.assume("names and comments never embed ZIP end-record signatures (format-inherent ambiguity, excluded by construction)");

    if let Some(c) = ctx.replay_case("fuzz_raw") {
        let bytes = crate::util::unhex(c["bytes"].as_str().unwrap_or("")).unwrap_or_default();
        let mut u = arbitrary::Unstructured::new(&bytes);
        let v = match decode_program(&mut u) {
            Some(p) => {
                let sel = u.arbitrary::<u8>().unwrap_or(0) as usize;
                Verdict::from_result(check_program(&p, sel).map(|_| ()))
            }
            None => Verdict::Pass,
        };
        ctx.replay_verdict = Some(v);
        return;
    }
    let n = ctx.q(3000, 40000);
    let maxc = ctx.q(1 << 18, 8 << 20);
    ctx.explore::<(Program, u8)>(
        "programs",
        n,
        &|| (gen::program(12, maxc, false, false), any::<u8>()).boxed(),
        &|(p, b): &(Program, u8), info: &mut Info| {
            info.nontrivial = nontrivial(p);
            labels(p, info);
            match check_program(p, *b as usize) {
                Ok(_) => Verdict::Pass,
                Err(m) => Verdict::Fail(m),
            }
        },
    );

    // every documented level of every method (Bzip2 level 0 is documented "0 - 9": the writer must
    // either accept it and round-trip, or refuse it with an error - never panic)
    let cases = level_cases();
    let contents = [Content::Text { seed: 11, len: 20000 }, Content::Rand { seed: 5, len: 3000 }, Content::Bytes(vec![])];
    let total = (cases.len() * contents.len()) as u64;
    ctx.enumerate::<LevelCase>(
        "levels",
        total,
        &|i| {
            let (method, level) = cases[i as usize / contents.len()];
            LevelCase { method, level, content: contents[i as usize % contents.len()].clone() }
        },
        &|c: &LevelCase, info: &mut Info| {
            info.nontrivial = !c.content.is_empty();
            info.label(match c.method {
                Method::Stored => "stored",
                Method::Deflated => "deflate",
                Method::Bzip2 => "bzip2",
                Method::Zstd => "zstd",
            });
            let mut o = Opts::plain(c.method);
            o.level = c.level;
            let p = Program { ops: vec![Op::File { name: "f".into(), opts: o, chunks: vec![c.content.clone()] }, Op::File { name: "g".into(), opts: Opts::plain(Method::Stored), chunks: vec![Content::Bytes(b"tail".to_vec())] }] };
            let r = catch(|| gen::run_program(&p, false));
            match r {
                Err(pm) => Verdict::Fail(format!("PANIC for documented level {:?} of {:?}: {pm}", c.level, c.method)),
                Ok(Err(e)) => {
                    if c.method == Method::Bzip2 && c.level == Some(0) {
                        // documented range says 0-9 but bzip2 has no level 0: refusing with an error is acceptable
                        info.label("bzip2-level0-refused");
                        Verdict::Pass
                    } else {
                        Verdict::Fail(format!("documented level {:?} of {:?} refused: {e}", c.level, c.method))
                    }
                }
                Ok(Ok(_)) => match check_program(&p, 0) {
                    Ok(_) => Verdict::Pass,
                    Err(m) => Verdict::Fail(m),
                },
            }
        },
    );

    // many entries
    let n_many = ctx.q(40, 200);
    ctx.max_shrink_iters = 64;
    ctx.explore::<Many>(
        "many",
        n_many,
        &|| {
            (300u32..2000, any::<u64>(), prop_oneof![Just(Method::Stored), Just(Method::Deflated), Just(Method::Zstd)], prop_oneof![Just(0u32), 0u32..100, Just(65535)])
                .prop_map(|(n, seed, method, comment_len)| Many { n, seed, method, comment_len })
                .boxed()
        },
        &|m: &Many, info: &mut Info| {
            info.nontrivial = true;
            info.label(">=300 entries");
            match check_program(&many_program(m), m.seed as usize) {
                Ok(_) => Verdict::Pass,
                Err(e) => Verdict::Fail(e),
            }
        },
    );
    let big: Vec<u32> = ctx.q(vec![65534, 65535, 65536], vec![65534, 65535, 65536, 65537, 70000, 131072]);
    if !big.is_empty() {
        ctx.enumerate::<Many>(
            "many_zip64",
            big.len() as u64,
            &|i| Many { n: big[i as usize], seed: 99 + i, method: Method::Deflated, comment_len: 7 },
            &|m: &Many, info: &mut Info| {
                info.nontrivial = true;
                info.label(">65533 entries");
                match check_program(&many_program(m), 0) {
                    Ok(_) => Verdict::Pass,
                    Err(e) => Verdict::Fail(e),
                }
            },
        );
    }
    ctx.max_shrink_iters = 2048;

    // boundary-length names and comments (representable: must round-trip)
    #[derive(Clone, Debug, Serialize, Deserialize, Hash)]
    struct Boundary {
        name_len: u32,
        multibyte: bool,
        comment_len: u32,
        dir: bool,
    }
    let lens = [0u32, 1, 255, 256, 65533, 65534, 65535];
    let clens = [0u32, 1, 65534, 65535];
    let total = (lens.len() * 2 * clens.len() * 2) as u64;
    ctx.enumerate::<Boundary>(
        "boundary",
        total,
        &|i| {
            let i = i as usize;
            Boundary { name_len: lens[i % lens.len()], multibyte: (i / lens.len()) % 2 == 1, comment_len: clens[(i / (lens.len() * 2)) % clens.len()], dir: i / (lens.len() * 2 * clens.len()) == 1 }
        },
        &|b: &Boundary, info: &mut Info| {
            info.nontrivial = true;
            // a directory name gets a '/' appended: keep the stored name within 65535 bytes
            let room = if b.dir { b.name_len.saturating_sub(1) } else { b.name_len } as usize;
            let name = if b.multibyte { let mut s = "é".repeat(room / 2); if room % 2 == 1 { s.push('y'); } s } else { "x".repeat(room) };
            info.label_if(b.name_len >= 65533, "name>=65533");
            info.label_if(b.comment_len >= 65534, "comment>=65534");
            let mut ops = vec![Op::File { name: "first".into(), opts: Opts::plain(Method::Deflated), chunks: vec![Content::Text { seed: 1, len: 100 }] }];
            if b.dir {
                ops.push(Op::Dir { name, opts: Opts::plain(Method::Stored) });
            } else {
                ops.push(Op::File { name, opts: Opts::plain(Method::Stored), chunks: vec![Content::Bytes(b"payload".to_vec())] });
            }
            ops.push(Op::Comment(gen::sanitize_comment(Content::Text { seed: 3, len: b.comment_len }.expand())));
            match check_program(&Program { ops }, 0) {
                Ok(_) => Verdict::Pass,
                Err(e) => Verdict::Fail(format!("name of {} bytes, comment of {} bytes: {}", b.name_len, b.comment_len, trunc(&e))),
            }
        },
    );

    // EVERY archive-comment length 0..=65535 (one small entry in front): the comment is the only
    // variable-length part behind the end record, and the reader finds the end record by searching
    // backwards over it - a sweep leaves no magic length untried. Every 16th case also carries a
    // second entry whose name has the same length (all name lengths that are multiples of 16, plus 65535).
    #[derive(Clone, Debug, Serialize, Deserialize, Hash)]
    struct CLen {
        comment_len: u32,
        long_name: bool,
    }
    ctx.enumerate::<CLen>(
        "comment_sweep",
        65536,
        &|i| CLen { comment_len: i as u32, long_name: i % 16 == 0 || i == 65535 },
        &|c: &CLen, info: &mut Info| {
            info.nontrivial = c.comment_len > 0;
            info.label_if(c.long_name, "name-length==comment-length");
            let mut ops = vec![Op::File { name: "first".into(), opts: Opts::plain(if c.comment_len % 2 == 0 { Method::Deflated } else { Method::Stored }), chunks: vec![Content::Text { seed: c.comment_len as u64, len: 50 }] }];
            if c.long_name {
                ops.push(Op::File { name: "n".repeat(c.comment_len as usize), opts: Opts::plain(Method::Stored), chunks: vec![Content::Bytes(b"x".to_vec())] });
            }
            ops.push(Op::Comment(gen::sanitize_comment(Content::Text { seed: 77 + c.comment_len as u64, len: c.comment_len }.expand())));
            match check_program(&Program { ops }, 0) {
                Ok(_) => Verdict::Pass,
                Err(e) => Verdict::Fail(format!("archive comment of {} bytes: {}", c.comment_len, trunc(&e))),
            }
        },
    );

    // the path-taking entry points (deprecated but public): `start_file_from_path` /
    // `add_directory_from_path` document that '/' is used as separator and every component that is not
    // `Normal` (root, `.`, `..`) is ignored; `set_comment` takes a string. Model: lossy-decoded normal
    // components joined by '/', written with the given content, read back under exactly that name.
    #[derive(Clone, Debug, Serialize, Deserialize, Hash)]
    struct FromPath {
        entries: Vec<(Vec<Vec<u8>>, bool, bool, bool, Vec<u8>)>,
        comment: String,
    }
    let nfp = ctx.q(3000, 40000);
    ctx.explore::<FromPath>(
        "from_path",
        nfp,
        &|| {
            let comp = prop_oneof![
                4 => "[a-z]{1,6}".prop_map(|s| s.into_bytes()),
                2 => Just(b".".to_vec()),
                2 => Just(b"..".to_vec()),
                1 => Just(Vec::new()),
                1 => "\\PC{1,5}".prop_map(|s| s.into_bytes().into_iter().filter(|b| *b != b'/' && *b != 0).collect::<Vec<u8>>()),
                1 => Just(b"x\\y".to_vec()),
                1 => Just(vec![b'n', 0xff, 0xfe]),
                1 => Just(b"...".to_vec()),
                1 => Just(b" ".to_vec()),
            ];
            let entry = (proptest::collection::vec(comp, 0..6), any::<bool>(), any::<bool>(), prop_oneof![3 => Just(false), 1 => Just(true)], proptest::collection::vec(any::<u8>(), 0..40));
            (proptest::collection::vec(entry, 1..6), "\\PC{0,30}").prop_map(|(entries, comment)| FromPath { entries, comment }).boxed()
        },
        &|c: &FromPath, info: &mut Info| {
            use std::os::unix::ffi::OsStrExt;
            #[allow(deprecated)]
            let r = catch(|| -> Result<(), String> {
                let mut sink = std::io::Cursor::new(Vec::new());
                let mut expect: Vec<(String, Vec<u8>)> = Vec::new();
                {
                    let mut w = std::mem::ManuallyDrop::new(zip::ZipWriter::new(&mut sink));
                    let o = zip::write::FileOptions::default().compression_method(zip::CompressionMethod::Stored).last_modified_time(zip::DateTime::default());
                    for (comps, lead, trail, dir, content) in &c.entries {
                        let mut raw: Vec<u8> = Vec::new();
                        if *lead {
                            raw.push(b'/');
                        }
                        raw.extend_from_slice(&comps.join(&b'/'));
                        if *trail {
                            raw.push(b'/');
                        }
                        let path = std::path::Path::new(std::ffi::OsStr::from_bytes(&raw));
                        let normal: Vec<String> = raw.split(|b| *b == b'/').filter(|c| !c.is_empty() && *c != b"." && *c != b"..").map(|c| String::from_utf8_lossy(c).into_owned()).collect();
                        let mut name = normal.join("/");
                        if *dir {
                            w.add_directory_from_path(path, o).map_err(|e| format!("add_directory_from_path({path:?}): {e}"))?;
                            if !name.ends_with('/') && !name.ends_with('\\') {
                                name.push('/');
                            }
                            expect.push((name, Vec::new()));
                        } else {
                            w.start_file_from_path(path, o).map_err(|e| format!("start_file_from_path({path:?}): {e}"))?;
                            std::io::Write::write_all(&mut *w, content).map_err(|e| format!("write: {e}"))?;
                            expect.push((name, content.clone()));
                        }
                    }
                    w.set_comment(c.comment.clone());
                    w.finish().map_err(|e| format!("finish: {e}"))?;
                }
                let bytes = sink.into_inner();
                let mut za = zip::ZipArchive::new(std::io::Cursor::new(&bytes[..])).map_err(|e| format!("ZipArchive::new: {e}"))?;
                if za.comment() != c.comment.as_bytes() {
                    return Err(format!("set_comment({:?}) reads back as {:?}", c.comment, String::from_utf8_lossy(za.comment())));
                }
                if za.len() != expect.len() || za.is_empty() != expect.is_empty() {
                    return Err(format!("{} entries written, len() = {}", expect.len(), za.len()));
                }
                for (i, (name, content)) in expect.iter().enumerate() {
                    let mut f = za.by_index(i).map_err(|e| format!("by_index({i}): {e}"))?;
                    if f.name() != name {
                        return Err(format!("entry {i}: name {:?}, the path's normal components joined by '/' are {:?}", f.name(), name));
                    }
                    let mut v = Vec::new();
                    std::io::Read::read_to_end(&mut f, &mut v).map_err(|e| format!("read entry {i}: {e}"))?;
                    if v != *content {
                        return Err(format!("entry {i} ({name:?}): content differs"));
                    }
                    if f.is_dir() != (name.ends_with('/') || name.ends_with('\\')) || f.is_file() == f.is_dir() {
                        return Err(format!("entry {i} ({name:?}): is_dir()={} is_file()={}", f.is_dir(), f.is_file()));
                    }
                }
                Ok(())
            });
            info.nontrivial = c.entries.iter().any(|(comps, lead, ..)| *lead || comps.iter().any(|x| x.is_empty() || x == b"." || x == b".."));
            info.label_if(c.entries.iter().any(|e| e.3), "add_directory_from_path");
            info.label_if(c.entries.iter().any(|e| e.0.iter().any(|x| std::str::from_utf8(x).is_err())), "non-utf8-component");
            match r {
                Ok(Ok(())) => Verdict::Pass,
                Ok(Err(m)) => Verdict::Fail(m),
                Err(p) => Verdict::Fail(format!("PANIC: {p}")),
            }
        },
    );
}

/// Decode a legal writer program from fuzzer bytes (hand-written arbitrary layer).
pub fn decode_program(u: &mut arbitrary::Unstructured) -> Option<Program> {
    let n = u.int_in_range(0..=8usize).ok()?;
    let mut ops = Vec::new();
    for _ in 0..n {
        let kind = u.int_in_range(0..=9u8).ok()?;
        let name_len = u.int_in_range(0..=24usize).ok()?;
        let raw = u.bytes(name_len.min(u.len())).ok()?;
        let name = String::from_utf8_lossy(raw).into_owned();
        let (method, level) = match u.int_in_range(0..=6u8).ok()? {
            0 | 1 => (Method::Stored, None),
            2 => (Method::Deflated, None),
            3 => (Method::Deflated, Some(u.int_in_range(0..=9i32).ok()?)),
            4 => (Method::Bzip2, Some(u.int_in_range(1..=9i32).ok()?)),
            5 => (Method::Zstd, Some(u.int_in_range(-7..=12i32).ok()?)),
            _ => (Method::Zstd, None),
        };
        let ts = (u.int_in_range(1980..=2107u16).ok()?, u.int_in_range(1..=12u8).ok()?, u.int_in_range(1..=31u8).ok()?, u.int_in_range(0..=23u8).ok()?, u.int_in_range(0..=59u8).ok()?, u.int_in_range(0..=60u8).ok()?);
        let perm = if u.ratio(1u8, 2u8).ok()? { Some(u.int_in_range(0..=0o777u32).ok()?) } else { None };
        let opts = Opts { method, level, ts, perm, large: u.ratio(1u8, 6u8).ok()?, password: None };
        let clen = u.int_in_range(0..=300usize).ok()?;
        let content = Content::Bytes(u.bytes(clen.min(u.len())).ok()?.to_vec());
        match kind {
            0 => ops.push(Op::Dir { name, opts }),
            1 => ops.push(Op::Symlink { name, target: String::from_utf8_lossy(&content.expand()).chars().take(20).collect(), opts }),
            2 => ops.push(Op::Comment(gen::sanitize_comment(content.expand()))),
            _ => ops.push(Op::File { name, opts, chunks: vec![content] }),
        }
    }
    Some(Program { ops })
}
