//! C02 — every archive the writer emits is a valid, self-consistent ZIP (independent strict parser,
//! CPython zipfile and Info-ZIP unzip as judges); unrepresentable inputs are rejected.
use super::c01;
use crate::engine::{Ctx, Info, Verdict};
use crate::gen::{self, Method, ModelEntry, Op, Opts, Program};
use crate::refzip::parse::{self, Parsed};
use crate::refzip::{codec, crypto, Content, Extra};
use crate::util::catch;
use proptest::prelude::*;
use serde::{Deserialize, Serialize};
use std::io::Cursor;
use std::sync::Mutex;
use zip::{ZipArchive, ZipWriter};

#[derive(Clone, Debug, Serialize, Deserialize, Hash)]
pub struct Scenario {
    pub program: Program,
    /// raw copies appended after the program's ops: (source program, picks, rename?)
    pub raw: Option<(Program, Vec<(u16, Option<String>)>)>,
    /// one append round (new_append + ops + finish)
    pub append: Option<Program>,
}

/// Decrypt a ZipCrypto payload independently and decode it.
pub fn zipcrypto_plain(raw: &[u8], password: &[u8], method: u16, crc: u32, limit: usize) -> Result<Vec<u8>, String> {
    if raw.len() < 12 {
        return Err(format!("encrypted payload of {} bytes is shorter than the 12-byte header", raw.len()));
    }
    let mut buf = raw.to_vec();
    crypto::PkKeys::new(password).decrypt(&mut buf);
    if buf[11] != (crc >> 24) as u8 {
        return Err(format!("independent decryption: check byte {:#04x} != CRC high byte {:#04x}", buf[11], (crc >> 24) as u8));
    }
    codec::decompress(method, &buf[12..], limit)
}

/// Compare the independent parse with the model.
pub fn compare_parsed(p: &Parsed, bytes: &[u8], model: &[ModelEntry], comment: &[u8]) -> Result<(), String> {
    if p.entries.len() != model.len() {
        return Err(format!("independent parser sees {} entries, model has {}", p.entries.len(), model.len()));
    }
    if p.comment != comment {
        return Err("archive comment differs from the one set".into());
    }
    for (i, (e, m)) in p.entries.iter().zip(model.iter()).enumerate() {
        if e.name != m.name.as_bytes() {
            return Err(format!("entry {i}: stored name bytes differ from the UTF-8 of the given name"));
        }
        if e.method != m.method.id() {
            return Err(format!("entry {i}: method {} != {}", e.method, m.method.id()));
        }
        if (e.date, e.time) != m.dos {
            return Err(format!("entry {i}: DOS date/time {:04x}/{:04x} != {:04x}/{:04x}", e.date, e.time, m.dos.0, m.dos.1));
        }
        if e.crc != m.crc {
            return Err(format!("entry {i}: stored CRC {:#010x} != CRC of the written content {:#010x}", e.crc, m.crc));
        }
        if e.usize_ != m.content.len() as u64 {
            return Err(format!("entry {i}: stored uncompressed size {} != {}", e.usize_, m.content.len()));
        }
        if (e.flags & 1 != 0) != m.password.is_some() {
            return Err(format!("entry {i}: encryption flag {} but password given = {}", e.flags & 1, m.password.is_some()));
        }
        let mode_ok = if m.raw_copy { (e.external_attr >> 16) & 0o777 == m.mode & 0o777 } else { e.external_attr >> 16 == m.mode };
        if !mode_ok || (e.made_by >> 8) != 3 {
            return Err(format!("entry {i}: external attributes {:#o} (system {}) != mode {:#o} on Unix", e.external_attr >> 16, e.made_by >> 8, m.mode));
        }
        match &m.password {
            None => {
                if e.content.as_deref() != Some(&m.content[..]) {
                    return Err(format!("entry {i}: independently decoded content differs from what was written"));
                }
            }
            Some(pw) => {
                let raw = &bytes[e.data_start as usize..(e.data_start + e.csize) as usize];
                let plain = zipcrypto_plain(raw, pw.as_bytes(), e.method, e.crc, m.content.len() + 1).map_err(|x| format!("entry {i}: {x}"))?;
                if plain != m.content {
                    return Err(format!("entry {i}: independently decrypted content differs from what was written"));
                }
            }
        }
        // extra data: the writer's own ZIP64 record first (local: iff large_file), then the caller's
        let mut want_local = Vec::new();
        if m.large {
            want_local.extend_from_slice(&1u16.to_le_bytes());
            want_local.extend_from_slice(&16u16.to_le_bytes());
            want_local.extend_from_slice(&e.usize_.to_le_bytes());
            want_local.extend_from_slice(&e.csize.to_le_bytes());
        }
        match m.align {
            None => {
                want_local.extend_from_slice(&m.local_extra);
                if e.local_extra != want_local {
                    return Err(format!("entry {i}: local extra field ({} bytes) != [own ZIP64 record] + supplied local extra data ({} bytes)", e.local_extra.len(), want_local.len()));
                }
                // the writer's own central ZIP64 record (present iff a 32-bit field cannot hold its value; its
                // contents are validated by the strict parser) comes first, then the caller's data
                let central_user: &[u8] = if e.central_has_zip64 && e.central_extra.len() >= 4 && e.central_extra[0..2] == [1, 0] {
                    let l = u16::from_le_bytes([e.central_extra[2], e.central_extra[3]]) as usize;
                    e.central_extra.get(4 + l..).unwrap_or(&[])
                } else {
                    &e.central_extra[..]
                };
                if central_user != &m.central_extra[..] {
                    return Err(format!("entry {i}: central extra field ({} bytes) != supplied central extra data ({} bytes)", e.central_extra.len(), m.central_extra.len()));
                }
            }
            Some(a) => {
                if a > 1 && e.data_start % a as u64 != 0 {
                    return Err(format!("entry {i}: data starts at {} which is not a multiple of the requested alignment {a}", e.data_start));
                }
                if !e.central_extra.is_empty() {
                    return Err(format!("entry {i}: aligned entry carries central extra data"));
                }
            }
        }
    }
    Ok(())
}

pub struct Outcome {
    pub bytes: Vec<u8>,
    pub model: Vec<ModelEntry>,
    pub comment: Vec<u8>,
}

/// Execute a scenario through the crate. Err = some call refused (with description).
pub fn execute(s: &Scenario) -> Result<Outcome, String> {
    let (mut model, mut comment) = gen::model(&s.program);
    let mut sink = Cursor::new(Vec::new());
    {
        let mut w = std::mem::ManuallyDrop::new(ZipWriter::new(&mut sink));
        for op in &s.program.ops {
            gen::apply(&mut w, op)?;
        }
        if let Some((srcp, picks)) = &s.raw {
            let src = gen::run_program(srcp, false).map_err(|e| format!("harness: source program failed: {e}"))?;
            let (sm, _) = gen::model(srcp);
            let mut za = ZipArchive::new(Cursor::new(&src[..])).map_err(|e| format!("harness: source archive unreadable: {e}"))?;
            if !sm.is_empty() {
                for (pick, rename) in picks {
                    let i = (*pick as usize * sm.len()) >> 16;
                    let f = za.by_index_raw(i).map_err(|e| format!("by_index_raw: {e}"))?;
                    let mut me = sm[i].clone();
                    match rename {
                        Some(n) => {
                            w.raw_copy_file_rename(f, n.clone()).map_err(|e| format!("raw_copy_file_rename: {e}"))?;
                            me.name = n.clone();
                        }
                        None => w.raw_copy_file(f).map_err(|e| format!("raw_copy_file: {e}"))?,
                    }
                    // a raw copy keeps permission bits only; type bits become "regular file"
                    me.raw_copy = true;
                    me.local_extra.clear();
                    me.central_extra.clear();
                    me.align = None;
                    me.large = false;
                    model.push(me);
                }
            }
        }
        w.finish().map_err(|e| format!("finish: {e}"))?;
    }
    let mut bytes = sink.into_inner();
    if let Some(ap) = &s.append {
        let mut cur = Cursor::new(bytes);
        {
            let mut w = std::mem::ManuallyDrop::new(ZipWriter::new_append(&mut cur).map_err(|e| format!("new_append: {e}"))?);
            for op in &ap.ops {
                gen::apply(&mut w, op)?;
            }
            w.finish().map_err(|e| format!("finish after append: {e}"))?;
        }
        bytes = cur.into_inner();
        let (m2, c2) = gen::model(ap);
        model.extend(m2);
        if ap.ops.iter().any(|o| matches!(o, Op::Comment(_))) {
            comment = c2;
        }
    }
    Ok(Outcome { bytes, model, comment })
}

fn strip_comment_ops(mut p: Program) -> Program {
    p.ops.retain(|o| !matches!(o, Op::Comment(_)));
    p
}

pub fn scenario(maxc: u32) -> BoxedStrategy<Scenario> {
    let raw = prop_oneof![
        3 => Just(None),
        1 => (gen::program(5, maxc.min(20000), false, false), proptest::collection::vec((any::<u16>(), prop_oneof![Just(None), gen::name().prop_map(Some)]), 1..4)).prop_map(Some),
    ];
    let app = prop_oneof![3 => Just(None), 1 => gen::program(4, maxc.min(20000), true, true).prop_map(|p| Some(strip_comment_ops(p)))];
    (gen::program(10, maxc, true, true), raw, app).prop_map(|(program, raw, append)| Scenario { program, raw, append }).boxed()
}

pub fn check_scenario(s: &Scenario, info: &mut Info) -> Result<Option<Outcome>, String> {
    c01::labels(&s.program, info);
    info.label_if(s.raw.is_some(), "raw-copy");
    info.label_if(s.append.is_some(), "append-round");
    let out = match catch(|| execute(s)) {
        Err(p) => return Err(format!("PANIC in writer: {p}")),
        Ok(Err(e)) => return Err(format!("legal scenario refused: {e}")),
        Ok(Ok(o)) => o,
    };
    info.nontrivial = out.model.len() >= 2 || out.model.iter().any(|m| m.password.is_some() || m.align.is_some() || !m.local_extra.is_empty() || !m.central_extra.is_empty()) || s.raw.is_some() || s.append.is_some();
    let parsed = parse::parse(&out.bytes[..], parse::Opts::strict()).map_err(|e| format!("strict parser rejects the emitted archive: {e}"))?;
    compare_parsed(&parsed, &out.bytes, &out.model, &out.comment)?;
    Ok(Some(out))
}

#[derive(Clone, Debug, Serialize, Deserialize, Hash)]
pub struct Reject {
    kind: String,
    len: u32,
    large: bool,
    multibyte: bool,
    /// position of the sink when the writer starts (>= 2^32: every central record needs a ZIP64 offset)
    #[serde(default)]
    start: u64,
    /// after a refused call keep issuing the remaining calls and finish()
    #[serde(default)]
    cont: bool,
}

/// Run the program on a sparse sink positioned at `start`. With `cont`, a refused op is skipped and the
/// remaining ops are still issued. Returns (sink, finish result, indices of refused ops).
/// `.3` = finish() refused the archive (over-long comment), the caller then set a short comment and called
/// finish() again: `.1` is the result of that second call
fn run_reject(p: &Program, start: u64, cont: bool, persistent: bool) -> (crate::sio::Shared<crate::sio::SparseFile>, Result<(), String>, Vec<usize>, bool) {
    let file = crate::sio::Shared::new(crate::sio::SparseFile::at_position(start));
    let mut w = std::mem::ManuallyDrop::new(ZipWriter::new(file.clone()));
    let mut refused = Vec::new();
    for (i, op) in p.ops.iter().enumerate() {
        // with `cont` the caller issues every call of the operation whatever the earlier ones returned
        // (data is written although end_extra_data() refused the extra data); only for the extra-data kinds: after a
        // refused over-long NAME the previous entry is still open and would legitimately take that data
        let r = if cont && persistent {
            let mut first: Option<String> = None;
            gen::apply_persistent(&mut w, op, &mut |e| {
                first.get_or_insert(e);
            });
            match first {
                Some(e) => Err(e),
                None => Ok(()),
            }
        } else {
            gen::apply(&mut w, op)
        };
        if let Err(e) = r {
            refused.push(i);
            if !cont {
                // closing the writer is still exercised (no panic), its result does not matter
                let _ = w.finish();
                return (file, Err(e), refused, false);
            }
        }
    }
    let r = w.finish().map(|_| ()).map_err(|e| format!("finish: {e}"));
    if r.is_err() && cont && refused.is_empty() {
        // nothing but finish() itself was refused (an unrepresentable comment): replace the comment and retry
        w.set_raw_comment(RETRY_COMMENT.to_vec());
        let r2 = w.finish().map(|_| ()).map_err(|e| format!("finish (second call): {e}"));
        return (file, r2, refused, true);
    }
    (file, r, refused, false)
}
const RETRY_COMMENT: &[u8] = b"second try";

fn reject_program(r: &Reject) -> Program {
    let first = Op::File { name: "first".into(), opts: Opts::plain(Method::Deflated), chunks: vec![Content::Text { seed: 1, len: 200 }] };
    // a compressing method for every other length: what the writer does with the data of an entry whose
    // extra data it refused must still be a decodable entry if finish() reports success
    let mut o = Opts::plain(if r.len % 2 == 1 { Method::Deflated } else { Method::Stored });
    o.large = r.large;
    let body = vec![Content::Bytes(b"body".to_vec())];
    let big = |n: u32| -> Vec<Extra> {
        // one or two records adding up to exactly n bytes (n >= 4)
        let mut v = Vec::new();
        let mut left = n as usize;
        while left > 0 {
            let take = left.min(65535 + 4).max(4);
            let take = if left - take > 0 && left - take < 4 { take - 4 } else { take };
            v.push(Extra { id: 0xbeef, data: vec![0x5a; take - 4] });
            left -= take;
        }
        v
    };
    let name = |n: u32| if r.multibyte { let mut s = "é".repeat(n as usize / 2); if n % 2 == 1 { s.push('y'); } s } else { "x".repeat(n as usize) };
    let mut ops = vec![first];
    match r.kind.as_str() {
        "name" => ops.push(Op::File { name: name(r.len), opts: o, chunks: body }),
        "dirname" => ops.push(Op::Dir { name: name(r.len), opts: o }),
        "symlink-name" => ops.push(Op::Symlink { name: name(r.len), target: "t".into(), opts: o }),
        "comment" => {
            ops.push(Op::File { name: "f".into(), opts: o, chunks: body });
            ops.push(Op::Comment(gen::sanitize_comment(Content::Text { seed: 2, len: r.len }.expand())));
        }
        "extra-shared" => ops.push(Op::ExtraFile { name: "f".into(), opts: o, local: big(r.len), central: None, chunks: body }),
        "extra-local" => ops.push(Op::ExtraFile { name: "f".into(), opts: o, local: big(r.len), central: Some(vec![]), chunks: body }),
        "extra-central" => ops.push(Op::ExtraFile { name: "f".into(), opts: o, local: vec![], central: Some(big(r.len)), chunks: body }),
        _ => {}
    }
    ops.push(Op::File { name: "last".into(), opts: Opts::plain(Method::Stored), chunks: vec![Content::Bytes(b"tail".to_vec())] });
    Program { ops }
}

pub fn run(ctx: &mut Ctx) {
    ctx.rule("scenarios: C01-style programs extended with extra-data / aligned / ZipCrypto entries, optional raw copies from a generated source archive and an optional append round; every successful finish() is judged by the independent strict parser (offsets, counts, sizes, local/central agreement, UTF-8 flag, ZIP64 consistency, TLV extras, decoded CRC/size) and compared field by field with the model; a sample is also judged by CPython zipfile and unzip -t. Non-trivial = >=2 entries or an extra/aligned/encrypted/raw/appended entry. raw_straddle: raw copies of hand-laid-out sparse source entries whose uncompressed/compressed sizes lie on different sides of 4 GiB (ZIP64 records in local header and central record exactly as needed). reject: name/comment/extra lengths around 65535/65536, with the writer starting at offset 0, just below 2^32 and above 2^32 (sparse sink; central records then need their own ZIP64 record next to the caller's extra data), stopping at the first refusal or continuing with the remaining calls (after a refused finish(): a shorter comment and a second finish()) - the oracle is 'some call returns Err, or the archive parses strictly and carries the full-length field'; whenever finish() returns Ok the archive must parse strictly and hold exactly the entries whose creation succeeded.");
    ctx.assume("version-needed is only required to agree between local and central header and be >=45 when a central ZIP64 record is present");
    ctx.assume("CPython zipfile / Info-ZIP unzip are trusted on the feature subset they support; unzip exit status 1 (warning) is not treated as rejection");

    let n = ctx.q(4000, 40000);
    let maxc = ctx.q(1 << 17, 4 << 20);
    let ext_budget = ctx.q(200usize, 4000);
    let ext: Mutex<Vec<(Vec<u8>, Option<String>, bool, serde_json::Value)>> = Mutex::new(Vec::new());
    ctx.explore::<Scenario>("scenarios", n, &|| scenario(maxc), &|s: &Scenario, info: &mut Info| match check_scenario(s, info) {
        Ok(out) => {
            if let Some(o) = out {
                let pws: std::collections::BTreeSet<&String> = o.model.iter().filter_map(|m| m.password.as_ref()).collect();
                let uniform = pws.len() <= 1 && pws.iter().all(|p| !p.is_empty() && p.is_ascii() && !p.starts_with('-') && !p.contains('\0'));
                if uniform && o.bytes.len() < (2 << 20) {
                    let mut g = ext.lock().unwrap();
                    if g.len() < ext_budget {
                        let has_zstd = o.model.iter().any(|m| m.method == Method::Zstd);
                        g.push((o.bytes, pws.iter().next().map(|s| s.to_string()), has_zstd, serde_json::to_value(s).unwrap()));
                    }
                }
            }
            Verdict::Pass
        }
        Err(m) => Verdict::Fail(m),
    });
    // external judges on the collected sample
    if ctx.is_run() {
        let g = ext.into_inner().unwrap();
        let t0 = std::time::Instant::now();
        let arcs: Vec<(Vec<u8>, Option<String>)> = g.iter().map(|x| (x.0.clone(), x.1.clone())).collect();
        match super::common::external_judges(&arcs, "c02") {
            Ok(res) => {
                let mut bad = None;
                for (i, (py, uz)) in res.iter().enumerate() {
                    if !py.is_empty() {
                        bad = Some((i, format!("CPython zipfile rejects the emitted archive: {py}")));
                        break;
                    }
                    if !g[i].2 && !uz.is_empty() && !uz.starts_with("exit Some(1)") {
                        bad = Some((i, format!("unzip -t rejects the emitted archive: {uz}")));
                        break;
                    }
                }
                ctx.count_bulk("external_judges", g.len() as u64, 0, vec![], t0.elapsed().as_secs_f64());
                ctx.add_class("external:archives-judged-by-cpython-and-unzip", g.len() as u64);
                if let Some((i, m)) = bad {
                    ctx.violation("scenarios", g[i].3.clone(), m);
                }
            }
            Err(e) => {
                eprintln!("[C02] external judges unavailable: {e}");
                ctx.assume(&format!("external judges could not run: {e}"));
            }
        }
    }

    // entry counts around the 16-bit limit: end records must stay consistent
    #[derive(Clone, Debug, Serialize, Deserialize, Hash)]
    struct Count {
        n: u32,
        comment: bool,
    }
    let counts: Vec<u32> = ctx.q(vec![65534, 65535, 65536, 65537], vec![65534, 65535, 65536, 65537, 70000, 131071, 131072]);
    ctx.enumerate::<Count>(
        "counts",
        counts.len() as u64 * 2,
        &|i| Count { n: counts[i as usize / 2], comment: i % 2 == 1 },
        &|c: &Count, info: &mut Info| {
            info.nontrivial = true;
            info.label(if c.n > 65535 { "zip64-count" } else { "classic-count" });
            let mut ops: Vec<Op> = (0..c.n)
                .map(|i| {
                    if i % 1000 == 7 {
                        Op::File { name: format!("f{i}"), opts: Opts::plain(Method::Deflated), chunks: vec![Content::Bytes(i.to_le_bytes().to_vec())] }
                    } else {
                        Op::File { name: format!("f{i}"), opts: Opts::plain(Method::Stored), chunks: vec![] }
                    }
                })
                .collect();
            if c.comment {
                ops.push(Op::Comment(b"count test".to_vec()));
            }
            let p = Program { ops };
            match catch(|| gen::run_program(&p, false)) {
                Err(pm) => Verdict::Fail(format!("PANIC writing {} entries: {pm}", c.n)),
                Ok(Err(e)) => Verdict::Fail(format!("writing {} entries refused: {e}", c.n)),
                Ok(Ok(bytes)) => {
                    let (model, comment) = gen::model(&p);
                    Verdict::from_result(parse::parse(&bytes[..], parse::Opts::strict()).and_then(|pp| compare_parsed(&pp, &bytes, &model, &comment)).map_err(|e| format!("{} entries: {e}", c.n)))
                }
            }
        },
    );

    // raw copies whose declared sizes lie on different sides of 4 GiB (hand-laid-out sparse sources): the
    // local header needs its ZIP64 record exactly when either size overflows, the central record exactly
    // the overflowing values - judged by the strict parser on the finished archive
    #[derive(Clone, Debug, Serialize, Deserialize, Hash)]
    struct RawStraddle(Vec<(u64, u64)>, u64);
    const G: u64 = 1 << 32;
    let rs: Vec<RawStraddle> = ctx.q(
        vec![RawStraddle(vec![(G + 243, 4000)], 0), RawStraddle(vec![(4000, G + 243)], 0)],
        vec![RawStraddle(vec![(G + 243, 4000)], 0), RawStraddle(vec![(4000, G + 243)], 0), RawStraddle(vec![(G - 1, 70), (G, 71), (70, G - 1), (71, G)], G - 77), RawStraddle(vec![(G + 1, G + 2)], 5)],
    );
    ctx.enumerate::<RawStraddle>("raw_straddle", rs.len() as u64, &|i| rs[i as usize].clone(), &|c: &RawStraddle, info: &mut Info| {
        info.nontrivial = true;
        match catch(|| super::c14::check_straddle(&c.0, c.1)) {
            Ok(r) => Verdict::from_result(r),
            Err(p) => Verdict::Fail(format!("PANIC: {p}")),
        }
    });

    // reject domain
    let kinds = ["name", "dirname", "symlink-name", "comment", "extra-shared", "extra-local", "extra-central"];
    let lens = [65515u32, 65516, 65534, 65535, 65536, 65537, 70000, 131072];
    let starts = [0u64, 0xFFFF_FFFF - 30, 0x1_0000_0040];
    let base = kinds.len() * lens.len() * 4;
    let total = (base * starts.len() * 2) as u64;
    ctx.enumerate::<Reject>(
        "reject",
        total,
        &|i| {
            let i = i as usize;
            let j = i % base;
            let k = i / base;
            Reject { kind: kinds[j % kinds.len()].to_string(), len: lens[(j / kinds.len()) % lens.len()], large: (j / (kinds.len() * lens.len())) % 2 == 1, multibyte: j / (kinds.len() * lens.len() * 2) == 1, start: starts[k % starts.len()], cont: k / starts.len() == 1 }
        },
        &|r: &Reject, info: &mut Info| {
            info.nontrivial = true;
            info.label_if(r.len > 65535, "unrepresentable-length");
            info.label_if(r.len <= 65535, "boundary-length");
            info.label_if(r.start > 0, "sink-starts-near-or-above-4GiB");
            info.label_if(r.cont, "calls-continue-after-refusal");
            let p = reject_program(r);
            let what = format!("{} of {} bytes (large_file={}, writer starts at offset {:#x}{})", r.kind, r.len, r.large, r.start, if r.cont { ", calls continue after a refusal" } else { "" });
            let (file, fin, refused, retried) = match catch(|| run_reject(&p, r.start, r.cont, r.kind.starts_with("extra"))) {
                Err(pm) => return Verdict::Fail(format!("PANIC for {what}: {pm}")),
                Ok(x) => x,
            };
            let fits = {
                // refusing is a violation only when the input clearly fits: extra data must
                // leave room for the writer's own ZIP64 record (up to 28 bytes)
                let dirslash = if r.kind == "dirname" { 1 } else { 0 };
                match r.kind.as_str() {
                    "extra-shared" | "extra-local" | "extra-central" => r.len + 28 <= 65535,
                    _ => r.len + dirslash <= 65535,
                }
            };
            info.label_if(retried, "finish-retried-with-a-short-comment");
            if !refused.is_empty() || fin.is_err() || retried {
                info.label("refused-with-error");
                if fits {
                    return Verdict::Fail(format!("{what} is representable but was refused ({})", fin.as_ref().err().cloned().unwrap_or_else(|| if retried { "first finish()".to_string() } else { format!("op {:?}", refused) })));
                }
            }
            match fin {
                Err(_) => Verdict::Pass,
                Ok(()) => {
                    info.label("finish-ok");
                    // success was reported: the bytes must be a valid archive holding exactly the
                    // entries whose creation succeeded
                    let mut q = p.clone();
                    let name_refusal = matches!(r.kind.as_str(), "name" | "dirname" | "symlink-name");
                    for &i in refused.iter().rev() {
                        q.ops.remove(i);
                    }
                    let (model, mut comment) = gen::model(&q);
                    if retried {
                        comment = RETRY_COMMENT.to_vec();
                    }
                    let what = if retried { format!("{what}; finish() refused it, set_raw_comment(short), finish() again") } else { what };
                    let opts = parse::Opts { lenient: false, allow_leading_gap: true, decode_limit: 64 << 20, allow_trailing: false };
                    let parsed = match parse::parse(&file, opts) {
                        Ok(pp) => pp,
                        Err(e) => return Verdict::Fail(format!("{what}: finish() Ok, but the archive is corrupt: {e}")),
                    };
                    if refused.is_empty() || name_refusal {
                        // (a refused extra-data entry leaves an entry whose state the docs do not define:
                        // only structural validity is demanded there)
                        if let Err(e) = compare_parsed(&parsed, &[], &model, &comment) {
                            return Verdict::Fail(format!("{what}: finish() Ok, but the archive is wrong: {e}"));
                        }
                    }
                    Verdict::Pass
                }
            }
        },
    );
}
