//! C03 — well-formed archives from other producers are read faithfully.
use super::common::{self, trunc};
use crate::engine::{Ctx, Info, Verdict};
use crate::genf;
use crate::refzip::{self, build, ArchiveSpec, Built, Desc};
use crate::util::catch;
use proptest::prelude::*;
use serde::{Deserialize, Serialize};
use std::io::{Cursor, Read};
use zip::result::ZipError;
use zip::ZipArchive;

pub fn model_mode(made_by: u16, attr: u32) -> Option<u32> {
    if attr == 0 {
        return None;
    }
    match made_by >> 8 {
        3 => Some(attr >> 16),
        0 => {
            let mut m = if attr & 0x10 != 0 { 0o040775 } else { 0o100664 };
            if attr & 1 != 0 {
                m &= 0o0555;
            }
            Some(m)
        }
        _ => None,
    }
}

pub fn labels(spec: &ArchiveSpec, info: &mut Info) {
    let mut nt = false;
    for e in &spec.entries {
        let d = e.desc != Desc::None;
        let z = e.zip64.iter().any(|x| *x) || e.local_zip64;
        let unsup = !matches!(e.method, 0 | 8 | 12 | 93);
        info.label_if(d, "data-descriptor");
        info.label_if(z, "forced-zip64-field");
        info.label_if(e.local_name.is_some(), "local!=central name");
        info.label_if(!e.name.is_ascii() && e.utf8, "utf8-name");
        info.label_if(!e.name.is_ascii() && !e.utf8, "cp437-name");
        info.label_if(e.made_by >> 8 == 0, "dos-system");
        info.label_if(unsup, "unsupported-method");
        info.label_if(!e.gap_before.is_empty(), "gap");
        info.label_if(!e.comment.is_empty(), "file-comment");
        nt |= d || z || e.local_name.is_some() || !e.name.is_ascii() || e.made_by >> 8 == 0 || unsup || !e.gap_before.is_empty();
    }
    info.label_if(spec.prefix.len() > 0, "junk-prefix");
    info.label_if(!spec.trailing.is_empty(), "trailing-garbage");
    info.label_if(spec.zip64_end.is_some(), "zip64-end-record");
    info.label_if(spec.central_order.is_some(), "central-order-shuffled");
    info.label_if(spec.comment.len() > 1000, "long-comment");
    let mut names = std::collections::HashSet::new();
    let dup = spec.entries.iter().any(|e| !names.insert((&e.name, e.utf8)));
    info.label_if(dup, "duplicate-name");
    nt |= spec.prefix.len() > 0 || !spec.trailing.is_empty() || dup || spec.zip64_end.is_some() || spec.central_order.is_some();
    info.nontrivial = nt && !spec.entries.is_empty();
}

/// Compare the crate's seekable reader with the spec (the spec is the model).
pub fn check_spec(spec: &ArchiveSpec, b: &Built, bufs: &[usize]) -> Result<(), String> {
    let order = spec.order();
    let mut za = ZipArchive::new(Cursor::new(&b.bytes[..])).map_err(|e| format!("ZipArchive::new refused a well-formed archive: {e}"))?;
    if za.len() != order.len() {
        return Err(format!("len() = {} but the central directory lists {}", za.len(), order.len()));
    }
    if za.is_empty() != order.is_empty() {
        return Err("is_empty() inconsistent".into());
    }
    if za.comment() != &spec.comment[..] {
        return Err(format!("archive comment: got {} bytes, expected {}", za.comment().len(), spec.comment.len()));
    }
    if za.offset() != b.prefix_len {
        return Err(format!("offset() = {} but {} bytes were prepended", za.offset(), b.prefix_len));
    }
    let decoded: Vec<String> = order.iter().map(|&i| refzip::decode_text(&spec.entries[i].name, spec.entries[i].utf8)).collect();
    for (j, &i) in order.iter().enumerate() {
        let e = &spec.entries[i];
        let be = &b.entries[i];
        let supported = matches!(e.method, 0 | 8 | 12 | 93);
        let plain = e.content.expand();
        // raw access works for every entry
        let raw = {
            let mut f = za.by_index_raw(j).map_err(|x| format!("entry {j}: by_index_raw: {x}"))?;
            let mut v = Vec::new();
            f.read_to_end(&mut v).map_err(|x| format!("entry {j}: raw read: {x}"))?;
            v
        };
        let payload = &b.bytes[be.data_start as usize..(be.data_start + be.csize) as usize];
        if raw != payload {
            return Err(format!("entry {j}: by_index_raw bytes differ from the stored payload ({} vs {} bytes)", raw.len(), payload.len()));
        }
        if !supported {
            match za.by_index(j) {
                Err(ZipError::UnsupportedArchive(_)) => {}
                Err(x) => return Err(format!("entry {j}: unsupported method {} -> {x} (expected UnsupportedArchive)", e.method)),
                Ok(_) => return Err(format!("entry {j}: unsupported method {} opened", e.method)),
            }
        }
        let o = if supported {
            let mut f = za.by_index(j).map_err(|x| format!("entry {j} ({:?}): by_index: {x}", trunc(&decoded[j])))?;
            common::observe_file(&mut f, bufs)
        } else {
            let mut f = za.by_index_raw(j).map_err(|x| format!("entry {j}: by_index_raw: {x}"))?;
            let mut o = common::observe_file(&mut f, bufs);
            o.content = Ok(plain.clone()); // content of unsupported entries is not decodable
            o
        };
        let ck = |what: &str, ok: bool, got: String, want: String| -> Result<(), String> {
            if ok {
                Ok(())
            } else {
                Err(format!("entry {j} ({:?}): {what}: reader says {got}, central directory says {want}", trunc(&decoded[j])))
            }
        };
        ck("name()", o.name == decoded[j], format!("{:?}", trunc(&o.name)), format!("{:?}", trunc(&decoded[j])))?;
        ck("name_raw()", o.name_raw == e.name, format!("{} bytes", o.name_raw.len()), format!("{} bytes", e.name.len()))?;
        let want_comment = refzip::decode_text(&e.comment, e.utf8);
        ck("comment()", o.comment == want_comment, format!("{:?}", trunc(&o.comment)), format!("{:?}", trunc(&want_comment)))?;
        ck("size()", o.size == be.usize_, o.size.to_string(), be.usize_.to_string())?;
        ck("compressed_size()", o.csize == be.csize, o.csize.to_string(), be.csize.to_string())?;
        ck("crc32()", o.crc == be.stored_crc, format!("{:#x}", o.crc), format!("{:#x}", be.stored_crc))?;
        ck("compression()", o.method_id == e.method, o.method_id.to_string(), e.method.to_string())?;
        ck("last_modified()", o.dos == (e.dos_date, e.dos_time), format!("{:04x?}", o.dos), format!("{:04x?}", (e.dos_date, e.dos_time)))?;
        let mm = model_mode(e.made_by, e.external_attr);
        ck("unix_mode()", o.mode == mm, format!("{:?}", o.mode), format!("{mm:?} (made_by {:#06x}, attr {:#010x})", e.made_by, e.external_attr))?;
        ck("extra_data()", o.extra == be.central_extra, format!("{} bytes", o.extra.len()), format!("{} bytes", be.central_extra.len()))?;
        ck("header_start()", o.header_start == be.header_start, o.header_start.to_string(), be.header_start.to_string())?;
        ck("central_header_start()", o.central_header_start == be.central_header_start, o.central_header_start.to_string(), be.central_header_start.to_string())?;
        ck("data_start()", o.data_start == be.data_start, o.data_start.to_string(), be.data_start.to_string())?;
        let isdir = decoded[j].ends_with('/') || decoded[j].ends_with('\\');
        ck("is_dir()", o.is_dir == isdir, o.is_dir.to_string(), isdir.to_string())?;
        match &o.content {
            Ok(c) if *c == plain => {}
            Ok(c) => return Err(format!("entry {j} ({:?}): content differs ({} bytes read, {} expected)", trunc(&decoded[j]), c.len(), plain.len())),
            Err(x) => return Err(format!("entry {j} ({:?}): {x}", trunc(&decoded[j]))),
        }
        let vm = za.by_index_raw(j).map(|f| f.version_made_by()).map_err(|x| x.to_string())?;
        let v = (e.made_by & 0xff) as u8;
        if vm != (v / 10, v % 10) {
            return Err(format!("entry {j}: version_made_by() {vm:?} != {:?}", (v / 10, v % 10)));
        }
    }
    // lookups: by_name of a duplicate returns the last such entry of the central directory
    let mut last: std::collections::HashMap<&str, usize> = std::collections::HashMap::new();
    for (j, n) in decoded.iter().enumerate() {
        last.insert(n.as_str(), j);
    }
    for (n, &j) in &last {
        let i = order[j];
        let r = za.by_name(n);
        if !matches!(spec.entries[i].method, 0 | 8 | 12 | 93) {
            if r.is_ok() {
                return Err(format!("by_name({:?}) opened an entry with an unsupported method", trunc(n)));
            }
            continue;
        }
        let f = r.map_err(|x| format!("by_name({:?}): {x}", trunc(n)))?;
        if f.central_header_start() != b.entries[i].central_header_start {
            return Err(format!("by_name({:?}) did not return the last entry with that name (central index {j})", trunc(n)));
        }
    }
    if !last.contains_key("\u{1}absent\u{2}") {
        match za.by_name("\u{1}absent\u{2}") {
            Err(ZipError::FileNotFound) => {}
            Err(x) => return Err(format!("by_name(absent) -> {x}, expected FileNotFound")),
            Ok(_) => return Err("by_name(absent) returned an entry".into()),
        }
    }
    for idx in [order.len(), order.len() + 7, usize::MAX] {
        if !matches!(za.by_index(idx), Err(ZipError::FileNotFound)) || !matches!(za.by_index_raw(idx), Err(ZipError::FileNotFound)) {
            return Err(format!("by_index/by_index_raw({idx}) out of range did not fail with FileNotFound"));
        }
    }
    let mut got: Vec<&str> = za.file_names().collect();
    got.sort();
    let mut want: Vec<&str> = last.keys().copied().collect();
    want.sort();
    if got != want {
        return Err("file_names() is not the set of (decoded) entry names".into());
    }
    Ok(())
}

// ------------------------------------------------------------------ CPython as a second producer
#[derive(Clone, Debug, Serialize, Deserialize, Hash)]
pub struct PyEntry {
    pub name: String,
    pub content: crate::refzip::Content,
    pub method: u16,
    #[serde(with = "crate::util::hexbytes")]
    pub comment: Vec<u8>,
    pub create_system: u8,
    pub external_attr: u32,
    pub date_time: (u16, u8, u8, u8, u8, u8),
    pub force_zip64: bool,
}
#[derive(Clone, Debug, Serialize, Deserialize, Hash)]
pub struct PySpec {
    pub entries: Vec<PyEntry>,
    #[serde(with = "crate::util::hexbytes")]
    pub comment: Vec<u8>,
    pub prefix_len: u32,
    pub streaming: bool,
}

pub fn py_spec() -> BoxedStrategy<PySpec> {
    let e = (
        prop_oneof![4 => "[a-z0-9_.-]{1,12}(/[a-z0-9_.-]{1,8}){0,2}/?", 2 => "[a-zé漢ß😀]{1,10}", 1 => "[a-z]{1,5}\\\\[a-z]{1,5}"],
        crate::refzip::content::content(30000),
        prop_oneof![Just(0u16), Just(8u16), Just(12u16)],
        prop_oneof![3 => Just(vec![]), 1 => proptest::collection::vec(any::<u8>(), 1..30)],
        prop_oneof![Just(3u8), Just(0u8), Just(7u8)],
        genf::ext_attr().prop_map(|a| if a == 0 { 0o100640 << 16 } else { a }), // CPython replaces attr 0 by 0o600<<16
        (1980u16..=2107, 1u8..=12, 1u8..=28, 0u8..=23, 0u8..=59, 0u8..=59),
        prop_oneof![3 => Just(false), 1 => Just(true)],
    )
        .prop_map(|(name, content, method, comment, create_system, external_attr, date_time, force_zip64)| PyEntry { name, content, method, comment, create_system, external_attr, date_time, force_zip64 });
    (proptest::collection::vec(e, 0..8), prop_oneof![Just(vec![]), proptest::collection::vec(any::<u8>(), 1..40)], prop_oneof![3 => Just(0u32), 1 => 1u32..5000], any::<bool>())
        .prop_map(|(entries, comment, prefix_len, streaming)| PySpec { entries, comment: genf::no_sig(comment), prefix_len, streaming })
        .boxed()
}

/// Let CPython's zipfile write the archive described by `s`.
pub fn py_produce(s: &PySpec) -> Result<Vec<u8>, String> {
    let root = std::env::var("ZV_ROOT").unwrap_or_else(|_| "/verif".into());
    static SEQ: std::sync::atomic::AtomicU64 = std::sync::atomic::AtomicU64::new(0);
    let dir = std::path::PathBuf::from(format!("/var/tmp/zv-py-{}-{}", std::process::id(), SEQ.fetch_add(1, std::sync::atomic::Ordering::Relaxed)));
    std::fs::create_dir_all(&dir).map_err(|e| format!("harness: {e}"))?;
    let r = (|| -> Result<Vec<u8>, String> {
        let job = serde_json::json!({
            "comment": crate::util::hex(&s.comment), "prefix_len": s.prefix_len, "streaming": s.streaming,
            "entries": s.entries.iter().map(|e| serde_json::json!({
                "name": e.name, "content": crate::util::hex(&e.content.expand()), "method": e.method, "comment": crate::util::hex(&e.comment),
                "create_system": e.create_system, "external_attr": e.external_attr, "date_time": [e.date_time.0, e.date_time.1, e.date_time.2, e.date_time.3, e.date_time.4, e.date_time.5],
                "force_zip64": e.force_zip64})).collect::<Vec<_>>() });
        std::fs::write(dir.join("job.json"), serde_json::to_vec(&job).unwrap()).map_err(|e| format!("harness: {e}"))?;
        let out = std::process::Command::new("python3").arg(format!("{root}/py/zf_produce.py")).arg(dir.join("job.json")).arg(dir.join("out.zip")).output().map_err(|e| format!("harness: python3: {e}"))?;
        if !out.status.success() {
            return Err(format!("harness: zf_produce.py failed: {}", String::from_utf8_lossy(&out.stderr)));
        }
        std::fs::read(dir.join("out.zip")).map_err(|e| format!("harness: {e}"))
    })();
    let _ = std::fs::remove_dir_all(&dir);
    r
}

/// DOS words CPython stores for a date_time tuple
pub fn py_dos(dt: (u16, u8, u8, u8, u8, u8)) -> (u16, u16) {
    let (y, mo, d, h, mi, sec) = dt;
    ((d as u16) | ((mo as u16) << 5) | ((y - 1980) << 9), ((sec as u16) >> 1) | ((mi as u16) << 5) | ((h as u16) << 11))
}

fn check_py(s: &PySpec, idx_tag: u64) -> Result<(), String> {
    let _ = idx_tag;
    let bytes = py_produce(s)?;
    {
        let r = (|| -> Result<(), String> {
        let mut za = ZipArchive::new(Cursor::new(&bytes[..])).map_err(|e| format!("ZipArchive::new refused a CPython-written archive: {e}"))?;
        if za.len() != s.entries.len() {
            return Err(format!("len() {} != {}", za.len(), s.entries.len()));
        }
        if za.comment() != &s.comment[..] {
            return Err("archive comment differs".into());
        }
        // CPython records absolute offsets on a seekable sink (the junk is then part of the
        // archive, offset 0) and offsets relative to its first byte on an unseekable one
        let want_off = if s.streaming { s.prefix_len as u64 } else { 0 };
        if za.offset() != want_off {
            return Err(format!("offset() = {} but expected {want_off} ({} bytes prepended, streaming={})", za.offset(), s.prefix_len, s.streaming));
        }
        for (i, e) in s.entries.iter().enumerate() {
            let mut f = za.by_index(i).map_err(|x| format!("entry {i}: by_index: {x}"))?;
            let o = common::observe_file(&mut f, &[4096]);
            let plain = e.content.expand();
            if o.name != e.name {
                return Err(format!("entry {i}: name {:?} != {:?}", o.name, e.name));
            }
            if o.content.as_ref().map(|c| c == &plain) != Ok(true) {
                return Err(format!("entry {i}: content differs or failed: {:?}", o.content.as_ref().map(|c| c.len())));
            }
            if o.size != plain.len() as u64 || o.crc != common::crc(&plain) {
                return Err(format!("entry {i}: size/crc differ"));
            }
            if o.method_id != e.method {
                return Err(format!("entry {i}: method {} != {}", o.method_id, e.method));
            }
            let (y, mo, d, h, mi, sec) = e.date_time;
            let dos = ((d as u16) | ((mo as u16) << 5) | ((y - 1980) << 9), ((sec as u16) >> 1) | ((mi as u16) << 5) | ((h as u16) << 11));
            if o.dos != dos {
                return Err(format!("entry {i}: timestamp {:04x?} != {:04x?}", o.dos, dos));
            }
            let mm = model_mode((e.create_system as u16) << 8, e.external_attr);
            if o.mode != mm {
                return Err(format!("entry {i}: unix_mode {:?} != {:?}", o.mode, mm));
            }
            // CPython stores comments raw; decoding follows the entry's flag
            let utf8 = !e.name.is_ascii();
            if o.comment != refzip::decode_text(&e.comment, utf8) {
                return Err(format!("entry {i}: comment differs"));
            }
        }
        Ok(())
        })();
        r
    }
}

#[derive(Clone, Debug, Serialize, Deserialize, Hash)]
pub struct IzSpec {
    files: Vec<(String, crate::refzip::Content)>,
    fd: bool,
    fz: bool,
    level: u8,
    bzip2: bool,
}

fn iz_spec() -> BoxedStrategy<IzSpec> {
    (proptest::collection::vec(("[a-z0-9_]{1,8}(/[a-z0-9_]{1,6}){0,2}", crate::refzip::content::content(20000)), 1..6), any::<bool>(), any::<bool>(), 0u8..=9, prop_oneof![3 => Just(false), 1 => Just(true)])
        .prop_map(|(mut files, fd, fz, level, bzip2)| {
            // unique, conflict-free paths
            let mut seen = std::collections::HashSet::new();
            files.retain(|(n, _)| {
                let ok = !seen.iter().any(|s: &String| s.starts_with(&format!("{n}/")) || n.starts_with(&format!("{s}/")) || s == n);
                if ok {
                    seen.insert(n.clone());
                }
                ok
            });
            // Info-ZIP itself fails on `-0 -Z bzip2` (bzlib has no level 0)
            // and on `-fd -Z bzip2` ("can't rewrite method")
            // and `-fd -fz` together yields an archive without ZIP64 end records that unzip itself rejects
            IzSpec { files, fd, fz: fz && !fd, level: if bzip2 && level == 0 { 1 } else { level }, bzip2: bzip2 && !fd }
        })
        .boxed()
}

fn check_iz(s: &IzSpec) -> Result<(), String> {
    let files: Vec<(String, Vec<u8>)> = s.files.iter().map(|(n, c)| (n.clone(), c.expand())).collect();
    let mut flags = vec![format!("-{}", s.level)];
    if s.fd {
        flags.push("-fd".into());
    }
    if s.fz {
        flags.push("-fz".into());
    }
    if s.bzip2 {
        flags.push("-Z".into());
        flags.push("bzip2".into());
    }
    let bytes = common::infozip_archive(&files, &flags)?;
    let mut za = ZipArchive::new(Cursor::new(&bytes[..])).map_err(|e| format!("ZipArchive::new refused an Info-ZIP archive ({flags:?}): {e}"))?;
    if za.len() != files.len() {
        return Err(format!("len() {} != {} files archived", za.len(), files.len()));
    }
    for (i, (n, c)) in files.iter().enumerate() {
        let mut f = za.by_index(i).map_err(|e| format!("entry {i}: {e}"))?;
        let o = common::observe_file(&mut f, &[4096]);
        if o.name != *n {
            return Err(format!("entry {i}: name {:?} != {:?}", o.name, n));
        }
        if o.content.as_ref().map(|x| x == c) != Ok(true) {
            return Err(format!("entry {i} ({n}): content differs or fails ({flags:?}): {:?}", o.content.as_ref().map(|x| x.len())));
        }
        if o.size != c.len() as u64 || o.crc != common::crc(c) {
            return Err(format!("entry {i}: size/crc differ"));
        }
    }
    for (n, c) in &files {
        let mut f = za.by_name(n).map_err(|e| format!("by_name({n}): {e}"))?;
        let mut v = Vec::new();
        f.read_to_end(&mut v).map_err(|e| format!("by_name({n}) read: {e}"))?;
        if v != *c {
            return Err(format!("by_name({n}) content differs"));
        }
    }
    Ok(())
}

#[derive(Clone, Debug, Serialize, Deserialize, Hash)]
pub struct TailCase {
    comment_len: u32,
    garbage_len: u32,
    seed: u64,
}
#[derive(Clone, Debug, Serialize, Deserialize, Hash)]
pub struct PrefixCase {
    prefix_len: u32,
    zip64_end: bool,
    mask: u8,
    seed: u64,
}

pub fn run(ctx: &mut Ctx) {
    ctx.rule("specs: proptest-generated specs for the independent builder (<=24 entries; stored/deflate/bzip2/zstd and unsupported method ids; data descriptors in 4 shapes; ZIP64 values forced in any subset, before/after other extras, local ZIP64; unknown extras; comments; DOS/Unix/other systems; any attributes and DOS time bits; shuffled central order, gaps, junk prefix, trailing garbage, ZIP64 end records); the spec is the model for every accessor and the content. Non-trivial = uses at least one such layout freedom. cpython: archives produced by CPython zipfile (seekable and unseekable sinks, force_zip64, prefix). tail_sweep / prefix_sweep: every length 0..=65535 of comment(+trailing garbage) and of prepended data (with and without ZIP64 end records) on a two-entry archive - exhaustive over the length, so no magic length of the end-record searches is left out.");
    ctx.assume("the independent builder is validated against CPython zipfile and unzip -t in the self-test");
    ctx.assume("unix_mode() model: attr==0 -> None; Unix -> attr>>16; DOS -> dir/readonly mapping; other systems -> None");
    ctx.assume("prefixed ZIP64 archives whose payload contains a fake ZIP64 end signature inside the forward-search window are skipped (counted under label skipped-ambiguous)");
    let n = ctx.q(8000, 100000);
    let maxc = ctx.q(1 << 16, 2 << 20);
    ctx.explore::<(ArchiveSpec, u8)>("specs", n, &|| (genf::archive(24, maxc, true), any::<u8>()).boxed(), &|(spec, bsel): &(ArchiveSpec, u8), info: &mut Info| {
        labels(spec, info);
        // every 8th un-prefixed spec is prefixed with a complete copy of ITSELF (an older version of the
        // same archive in front, as self-extractors and naive "append by concatenation" produce): every
        // offset recorded in the second copy then also points at a record of the same kind in the first
        let mut owned;
        let mut spec = spec;
        if spec.prefix.is_empty() && *bsel % 8 == 3 && !spec.entries.is_empty() {
            if let Ok(first) = build::build(spec) {
                if first.bytes.len() < 60000 {
                    owned = spec.clone();
                    owned.prefix = refzip::Content::Bytes(first.bytes);
                    spec = &owned;
                    info.label("prefixed-with-a-copy-of-itself");
                }
            }
        }
        let b = match build::build(spec) {
            Ok(b) => b,
            Err(_) => {
                info.nontrivial = false;
                info.label("skipped-unrepresentable");
                return Verdict::Pass;
            }
        };
        if genf::zip64_search_ambiguous(spec, &b) {
            info.nontrivial = false;
            info.label("skipped-ambiguous");
            return Verdict::Pass;
        }
        const BUFS: &[&[usize]] = &[&[4096], &[1], &[0, 3, 0, 64], &[65536]];
        match catch(|| check_spec(spec, &b, BUFS[*bsel as usize % BUFS.len()])) {
            Ok(Ok(())) => Verdict::Pass,
            Ok(Err(m)) => Verdict::Fail(m),
            Err(p) => Verdict::Fail(format!("PANIC while reading a well-formed archive: {p}")),
        }
    });
    // Tail sweep: EVERY length 0..=65535 of what follows the end record (archive comment, or comment
    // followed by trailing garbage), so that no single magic length of the backward end-record search
    // (window size, block boundaries) goes untried. One small entry; the spec is the model.
    let tail_total: u64 = 65536;
    let stride = ctx.q(1u64, 1);
    ctx.enumerate::<TailCase>("tail_sweep", tail_total / stride, &|i| {
        let t = (i * stride) as u32;
        let garbage = match i % 3 {
            0 => 0,
            1 => t / 2,
            _ => t.min(17),
        };
        TailCase { comment_len: t - garbage, garbage_len: garbage, seed: i.wrapping_mul(0x9e3779b97f4a7c15) }
    }, &|c: &TailCase, info: &mut Info| {
        info.nontrivial = c.comment_len + c.garbage_len > 0;
        info.label_if(c.garbage_len > 0, "trailing-garbage");
        let mut spec = ArchiveSpec::plain(vec![refzip::EntrySpec::simple(b"t.txt", if c.seed & 1 == 0 { 0 } else { 8 }, refzip::Content::Text { seed: c.seed, len: 40 })]);
        spec.comment = genf::no_sig(refzip::Content::Text { seed: c.seed ^ 1, len: c.comment_len }.expand());
        spec.trailing = genf::no_sig(refzip::Content::Rand { seed: c.seed ^ 2, len: c.garbage_len }.expand());
        let b = match build::build(&spec) {
            Ok(b) => b,
            Err(e) => return Verdict::Fail(format!("harness: {e}")),
        };
        match catch(|| check_spec(&spec, &b, &[4096])) {
            Ok(Ok(())) => Verdict::Pass,
            Ok(Err(m)) => Verdict::Fail(format!("comment of {} bytes + {} bytes of trailing garbage: {m}", c.comment_len, c.garbage_len)),
            Err(p) => Verdict::Fail(format!("PANIC while reading a well-formed archive: {p}")),
        }
    });
    // Prefix sweep: every length 0..=65535 (+ a few beyond) of prepended data in front of an archive
    // WITH ZIP64 end records (the reader finds the ZIP64 end record by a forward search over the prefix
    // length) and, on alternating cases, without.
    let pre_total: u64 = 65536 + 64;
    ctx.enumerate::<PrefixCase>("prefix_sweep", pre_total, &|i| PrefixCase { prefix_len: i as u32, zip64_end: i % 4 != 3, mask: (i / 4 % 8) as u8, seed: i.wrapping_mul(0x9e3779b97f4a7c15) | 1 }, &|c: &PrefixCase, info: &mut Info| {
        info.nontrivial = c.prefix_len > 0;
        info.label_if(c.zip64_end, "zip64-end-record");
        let mut spec = ArchiveSpec::plain(vec![
            refzip::EntrySpec::simple(b"p.txt", 8, refzip::Content::Text { seed: c.seed, len: 60 }),
            refzip::EntrySpec::simple(b"q.bin", 0, refzip::Content::Rand { seed: c.seed, len: 9 }),
        ]);
        spec.prefix = refzip::Content::Rand { seed: c.seed ^ 5, len: c.prefix_len };
        if c.zip64_end {
            spec.zip64_end = Some([c.mask & 1 != 0, c.mask & 2 != 0, c.mask & 4 != 0]);
        }
        spec.comment = b"c".to_vec();
        let b = match build::build(&spec) {
            Ok(b) => b,
            Err(e) => return Verdict::Fail(format!("harness: {e}")),
        };
        if genf::zip64_search_ambiguous(&spec, &b) || b.bytes[..b.prefix_len as usize].windows(4).any(|w| w == [0x50, 0x4b, 0x05, 0x06]) {
            info.nontrivial = false;
            info.label("skipped-ambiguous");
            return Verdict::Pass;
        }
        match catch(|| check_spec(&spec, &b, &[4096])) {
            Ok(Ok(())) => Verdict::Pass,
            Ok(Err(m)) => Verdict::Fail(format!("{} bytes prepended (zip64 end records: {}): {m}", c.prefix_len, c.zip64_end)),
            Err(p) => Verdict::Fail(format!("PANIC while reading a well-formed archive: {p}")),
        }
    });
    // entry counts around the 16-bit limit from the independent builder: 65535 entries in a CLASSIC end
    // record (count field 0xFFFF, no ZIP64 records - what CPython and many tools write), with ZIP64 end
    // records, and 65536 entries
    #[derive(Clone, Debug, Serialize, Deserialize, Hash)]
    struct FCount {
        n: u32,
        zip64_end: Option<[bool; 3]>,
        prefix: u32,
    }
    let fc: Vec<FCount> = {
        let mut v = Vec::new();
        for n in ctx.q(vec![65535u32, 65536], vec![65534, 65535, 65536, 65537]) {
            for z in [None, Some([false; 3]), Some([true, true, true])] {
                if n > 65535 && z.is_none() {
                    v.push(FCount { n, zip64_end: None, prefix: 0 });
                    continue;
                }
                v.push(FCount { n, zip64_end: z, prefix: if z.is_some() { 0 } else { 333 } });
            }
        }
        v
    };
    ctx.enumerate::<FCount>("counts", fc.len() as u64, &|i| fc[i as usize].clone(), &|c: &FCount, info: &mut Info| {
        info.nontrivial = true;
        info.label(if c.zip64_end.is_none() && c.n <= 65535 { "classic-end-record" } else { "zip64-end-records" });
        let entries: Vec<refzip::EntrySpec> = (0..c.n).map(|i| refzip::EntrySpec::simple(format!("c{i}").as_bytes(), 0, if i % 7919 == 2 { refzip::Content::Bytes(b"some data".to_vec()) } else { refzip::Content::Bytes(vec![]) })).collect();
        let mut spec = ArchiveSpec::plain(entries);
        spec.zip64_end = c.zip64_end;
        spec.prefix = refzip::Content::Rep { byte: 0x2e, len: c.prefix };
        spec.comment = b"count".to_vec();
        let b = match build::build(&spec) {
            Ok(b) => b,
            Err(e) => return Verdict::Fail(format!("harness: {e}")),
        };
        match catch(|| check_spec(&spec, &b, &[4096])) {
            Ok(Ok(())) => Verdict::Pass,
            Ok(Err(m)) => Verdict::Fail(format!("{} entries ({}): {m}", c.n, if c.zip64_end.is_some() || c.n > 65535 { "ZIP64 end records" } else { "classic end record, count field 0xFFFF" })),
            Err(p) => Verdict::Fail(format!("PANIC while reading a well-formed archive: {p}")),
        }
    });
    // third producer: Info-ZIP zip (data descriptors -fd, forced ZIP64 -fz, store/deflate/bzip2)
    let niz = ctx.q(150, 3000);
    ctx.explore::<IzSpec>("infozip", niz, &iz_spec, &|s: &IzSpec, info: &mut Info| {
        info.nontrivial = !s.files.is_empty() && (s.fd || s.fz || s.files.len() > 1);
        info.label_if(s.fd, "-fd");
        info.label_if(s.fz, "-fz");
        match catch(|| check_iz(s)) {
            Ok(Ok(())) => Verdict::Pass,
            Ok(Err(m)) => Verdict::Fail(m),
            Err(p) => Verdict::Fail(format!("PANIC: {p}")),
        }
    });
    let npy = ctx.q(300, 5000);
    ctx.explore::<PySpec>("cpython", npy, &py_spec, &|s: &PySpec, info: &mut Info| {
        info.nontrivial = !s.entries.is_empty() && (s.streaming || s.prefix_len > 0 || s.entries.iter().any(|e| e.force_zip64 || !e.name.is_ascii() || e.create_system != 3));
        info.label_if(s.streaming, "unseekable-sink(data descriptors)");
        info.label_if(s.prefix_len > 0, "junk-prefix");
        info.label_if(s.entries.iter().any(|e| e.force_zip64), "force_zip64");
        match catch(|| check_py(s, 0)) {
            Ok(Ok(())) => Verdict::Pass,
            Ok(Err(m)) => Verdict::Fail(m),
            Err(p) => Verdict::Fail(format!("PANIC: {p}")),
        }
    });
}
