//! C04 — a read that completes successfully returned uncorrupted data.
use crate::engine::{Ctx, Info, Verdict};
use crate::refzip::{build, codec, crypto, ArchiveSpec, Content, EntrySpec};
use crate::seeds::{self, Seed};
use crate::util::catch;
use proptest::prelude::*;
use serde::{Deserialize, Serialize};
use std::io::{Cursor, Read};

const BUFS: &[&[usize]] = &[&[4096], &[1], &[0, 1], &[2, 0, 3], &[7], &[64], &[0, 4096, 0]];

#[derive(Default)]
pub struct Tally {
    pub completed: u32,
    pub errored: u32,
    pub identical: u32,
    pub opened: u32,
}

/// Reads with the given buffer schedule until Ok(0) on a non-empty buffer or an error.
fn drain<R: Read>(r: &mut R, bufs: &[usize], cap: usize) -> Result<Vec<u8>, String> {
    let mut out = Vec::new();
    let mut scratch = vec![0u8; bufs.iter().copied().max().unwrap_or(1).max(1)];
    let mut i = 0usize;
    loop {
        let want = bufs[i % bufs.len()];
        i += 1;
        match r.read(&mut scratch[..want]) {
            Ok(0) if want > 0 => return Ok(out),
            Ok(n) => {
                out.extend_from_slice(&scratch[..n]);
                if out.len() > cap {
                    return Err("cap".into());
                }
            }
            Err(e) => return Err(e.to_string()),
        }
    }
}

/// The invariant on one archive: every entry that can be opened and read to EOF without error
/// returned bytes whose CRC-32 equals crc32(), unless it is an encrypted AE-2 entry.
/// `must_fail[i]`: entries for which a completed read is itself a violation (damaged stored data).
pub fn invariant(bytes: &[u8], seed: &Seed, bsel: usize, must_fail: Option<usize>, t: &mut Tally) -> Result<(), String> {
    invariant_b(bytes, seed, BUFS[bsel % BUFS.len()], must_fail, t)
}

pub fn invariant_b(bytes: &[u8], seed: &Seed, bufs: &[usize], must_fail: Option<usize>, t: &mut Tally) -> Result<(), String> {
    if let Ok(mut za) = zip::ZipArchive::new(Cursor::new(bytes)) {
        for i in 0..za.len().min(64) {
            let pw = seed.passwords.get(i).cloned().flatten();
            let ae2 = seed.ae2.get(i).copied().unwrap_or(false);
            let f = match &pw {
                Some(p) => match za.by_index_decrypt(i, p) {
                    Ok(Ok(f)) => Some(f),
                    _ => None,
                },
                None => za.by_index(i).ok(),
            };
            let Some(mut f) = f else {
                t.errored += 1;
                continue;
            };
            t.opened += 1;
            let declared = f.crc32();
            match drain(&mut f, bufs, 1 << 24) {
                Ok(data) => {
                    t.completed += 1;
                    let c = crypto::crc32(&data);
                    if !ae2 && c != declared {
                        return Err(format!("entry {i}: read completed without error but CRC-32 of the {} returned bytes is {c:#010x}, declared {declared:#010x} (seekable reader, buffers {bufs:?})", data.len()));
                    }
                    if seed.contents.get(i).map(|x| x == &data).unwrap_or(false) {
                        t.identical += 1;
                    } else if must_fail == Some(i) && !ae2 {
                        return Err(format!("entry {i}: damaged entry read to end-of-file without error (seekable reader)"));
                    }
                    if must_fail == Some(i) && seed.stored_plain.get(i).copied().unwrap_or(false) {
                        return Err(format!("entry {i}: single-bit damage to a stored entry or its declared CRC was not reported (seekable reader, buffers {bufs:?})"));
                    }
                }
                Err(_) => t.errored += 1,
            }
        }
    }
    // streaming reader over the same bytes (entries it can serve)
    let start = seed.built.as_ref().map(|b| b.prefix_len as usize).unwrap_or(0);
    if start <= bytes.len() {
        let mut cur = Cursor::new(&bytes[start..]);
        let mut i = 0usize;
        loop {
            if !seed.streamable.get(i).copied().unwrap_or(false) {
                break; // the stream cannot be followed past an entry it cannot serve
            }
            match zip::read::read_zipfile_from_stream(&mut cur) {
                Ok(Some(mut f)) => {
                    let declared = f.crc32();
                    match drain(&mut f, bufs, 1 << 24) {
                        Ok(data) => {
                            let c = crypto::crc32(&data);
                            if c != declared {
                                return Err(format!("entry {i}: streaming read completed without error but CRC-32 of the {} returned bytes is {c:#010x}, declared {declared:#010x} (buffers {bufs:?})", data.len()));
                            }
                            t.completed += 1;
                        }
                        Err(_) => t.errored += 1,
                    }
                }
                _ => break,
            }
            i += 1;
            if i > 64 {
                break;
            }
        }
    }
    Ok(())
}

#[derive(Clone, Debug, Serialize, Deserialize, Hash)]
pub struct Flip {
    seed: usize,
    /// absolute byte offset and bit
    pos: u64,
    bit: u8,
    bufsel: u8,
}

#[derive(Clone, Debug, Serialize, Deserialize, Hash)]
pub enum Damage {
    Bytes { seed: u16, hits: Vec<(u16, u8)> },
    Burst { seed: u16, at: u16, len: u8, fill: u64 },
    Truncate { method: u16, cut: u16, content: Content },
    Swap { method: u16, a: Content, b: Content },
}

fn region_positions(s: &Seed) -> Vec<(u64, Option<usize>)> {
    let mut v = Vec::new();
    for (i, (st, len)) in s.data.iter().enumerate() {
        for p in *st..*st + *len {
            v.push((p, Some(i)));
        }
    }
    for (i, f) in s.crc_fields.iter().enumerate() {
        for p in *f..*f + 4 {
            v.push((p, Some(i)));
        }
    }
    v
}

pub fn run(ctx: &mut Ctx) {
    ctx.rule("flips: EVERY single-bit flip inside every entry's data region and central CRC field of the small seed archives (all methods, ZipCrypto, AE-1/AE-2, crate-written and reference-built), each read with a caller-buffer schedule from {1,2,3,7,64,4096, zero-length interleaved} through the seekable and the streaming reader; crc_values: every entry's declared CRC (central record / local header) replaced by 0, all ones, 1, the top bit, its complement, record signatures, a rotation; damage: random multi-byte damage, truncated payloads (sizes adjusted) and payloads swapped between entries; size_lies: entries whose data decodes to MORE bytes than they declare while the declared CRC is that of the declared prefix, read with call boundaries exactly at the declared size and through read_exact(size)+read_to_end. Oracle: a read that reaches end-of-file without error has CRC(bytes)==crc32() unless the entry is an encrypted AE-2 entry; a flipped stored entry must fail. Non-trivial = the mutant still opens and the damaged entry was opened and read to a terminal state.");
    ctx.assume("AE-2 exemption applies to entries that are actually AES-encrypted (flag bit 0 + AE-2 record); an unencrypted entry that merely carries an AE-2 extra record is not exempt");
    if let Some(c) = ctx.replay_case("fuzz_raw") {
        let bytes = crate::util::unhex(c["bytes"].as_str().unwrap_or("")).unwrap_or_default();
        ctx.replay_verdict = Some(Verdict::from_result(raw_invariant(&bytes)));
        return;
    }
    let seeds = seeds::small_seeds();
    let mut index: Vec<(usize, u64, Option<usize>)> = Vec::new();
    for (si, s) in seeds.iter().enumerate() {
        for (p, e) in region_positions(s) {
            index.push((si, p, e));
        }
    }
    let total = index.len() as u64 * 8;
    let tally = std::sync::Mutex::new((0u64, 0u64, 0u64));
    ctx.enumerate::<Flip>(
        "flips",
        total,
        &|k| {
            let (si, p, _) = index[(k / 8) as usize];
            Flip { seed: si, pos: p, bit: (k % 8) as u8, bufsel: (k % 7) as u8 }
        },
        &|f: &Flip, info: &mut Info| {
            let s = &seeds[f.seed];
            let mut b = s.bytes.clone();
            if f.pos as usize >= b.len() {
                return Verdict::Pass;
            }
            b[f.pos as usize] ^= 1 << f.bit;
            let hit = region_positions(s).iter().find(|x| x.0 == f.pos).and_then(|x| x.1);
            let mut t = Tally::default();
            let r = catch(|| invariant(&b, s, f.bufsel as usize, hit, &mut t));
            info.nontrivial = t.opened > 0;
            info.label(if t.errored > 0 { "damaged-entry:Err" } else if t.identical as usize >= s.contents.len() { "all-identical" } else { "completed" });
            {
                let mut g = tally.lock().unwrap();
                g.0 += t.completed as u64;
                g.1 += t.errored as u64;
                g.2 += t.identical as u64;
            }
            match r {
                Ok(Ok(())) => Verdict::Pass,
                Ok(Err(m)) => Verdict::Fail(format!("seed {} flip byte {} bit {}: {m}", s.name, f.pos, f.bit)),
                Err(p) => {
                    // panics on damaged input are C05's subject; here only the CRC invariant is judged
                    if p.contains("/repo/src") {
                        Verdict::Pass
                    } else {
                        Verdict::Fail(format!("PANIC in harness: {p}"))
                    }
                }
            }
        },
    );
    // declared CRC replaced by special VALUES (not reachable by one bit flip): 0, all ones, 1, the top
    // bit, the complement, record signatures - in the central record (seekable reader) and in the local
    // header (streaming reader)
    #[derive(Clone, Debug, Serialize, Deserialize, Hash)]
    struct CrcVal {
        seed: usize,
        entry: usize,
        val: u8,
        local: bool,
        bufsel: u8,
    }
    let mut cidx: Vec<(usize, usize)> = Vec::new();
    for (si, s) in seeds.iter().enumerate() {
        for e in 0..s.crc_fields.len().min(s.local_crc_fields.len()) {
            cidx.push((si, e));
        }
    }
    ctx.enumerate::<CrcVal>(
        "crc_values",
        cidx.len() as u64 * 8 * 2,
        &|k| {
            let (seed, entry) = cidx[(k / 16) as usize];
            CrcVal { seed, entry, val: (k % 8) as u8, local: (k / 8) % 2 == 1, bufsel: (k % 7) as u8 }
        },
        &|c: &CrcVal, info: &mut Info| {
            let s = &seeds[c.seed];
            let mut b = s.bytes.clone();
            let off = if c.local { s.local_crc_fields[c.entry] } else { s.crc_fields[c.entry] } as usize;
            if off + 4 > b.len() {
                return Verdict::Pass;
            }
            let cur = u32::from_le_bytes(b[off..off + 4].try_into().unwrap());
            let v = [0u32, 0xFFFF_FFFF, 1, 0x8000_0000, !cur, 0x0403_4b50, 0x0807_4b50, cur.rotate_left(8)][c.val as usize];
            if v == cur {
                return Verdict::Pass;
            }
            b[off..off + 4].copy_from_slice(&v.to_le_bytes());
            let mut t = Tally::default();
            // a wrong declared CRC in the central record must make the seekable read of a stored entry fail
            let r = catch(|| invariant(&b, s, c.bufsel as usize, if c.local { None } else { Some(c.entry) }, &mut t));
            info.nontrivial = t.opened > 0;
            info.label(if c.local { "local-header-crc" } else { "central-crc" });
            match r {
                Ok(Ok(())) => Verdict::Pass,
                Ok(Err(m)) => Verdict::Fail(format!("seed {} entry {}: declared CRC {cur:#010x} replaced by {v:#010x} in the {}: {m}", s.name, c.entry, if c.local { "local header" } else { "central record" })),
                Err(p) => {
                    if p.contains("/repo/src") {
                        Verdict::Pass
                    } else {
                        Verdict::Fail(format!("PANIC in harness: {p}"))
                    }
                }
            }
        },
    );
    let g = tally.into_inner().unwrap();
    ctx.extra.insert("flip_reads".into(), serde_json::json!({"completed": g.0, "errored": g.1, "identical_content": g.2}));
    ctx.exhaustive_all = true;

    let n = ctx.q(120000, 1000000);
    let nseeds = seeds.len();
    ctx.explore::<(Damage, u8)>(
        "damage",
        n,
        &|| {
            let m = prop_oneof![Just(0u16), Just(8u16), Just(12u16), Just(93u16)];
            let d = prop_oneof![
                4 => (any::<u16>(), proptest::collection::vec((any::<u16>(), 1u8..=255), 1..6)).prop_map(|(seed, hits)| Damage::Bytes { seed, hits }),
                2 => (any::<u16>(), any::<u16>(), 1u8..40, any::<u64>()).prop_map(|(seed, at, len, fill)| Damage::Burst { seed, at, len, fill }),
                2 => (m.clone(), 1u16..200, crate::refzip::content::content_nonempty(3000)).prop_map(|(method, cut, content)| Damage::Truncate { method, cut, content }),
                2 => (m, crate::refzip::content::content_nonempty(2000), crate::refzip::content::content_nonempty(2000)).prop_map(|(method, a, b)| Damage::Swap { method, a, b }),
            ];
            (d, any::<u8>()).boxed()
        },
        &|(d, bsel): &(Damage, u8), info: &mut Info| {
            let mut t = Tally::default();
            let r = match d {
                Damage::Bytes { seed, hits } => {
                    info.label("multi-byte");
                    let s = &seeds[(*seed as usize * nseeds) >> 16];
                    let pos = region_positions(s);
                    let mut b = s.bytes.clone();
                    for (h, x) in hits {
                        let p = pos[(*h as usize * pos.len()) >> 16].0 as usize;
                        b[p] ^= *x;
                    }
                    catch(|| invariant(&b, s, *bsel as usize, None, &mut t))
                }
                Damage::Burst { seed, at, len, fill } => {
                    info.label("burst");
                    let s = &seeds[(*seed as usize * nseeds) >> 16];
                    let pos = region_positions(s);
                    let mut b = s.bytes.clone();
                    let start = (*at as usize * pos.len()) >> 16;
                    let mut g = crate::util::Sm(*fill);
                    for k in start..(start + *len as usize).min(pos.len()) {
                        b[pos[k].0 as usize] = g.next() as u8;
                    }
                    catch(|| invariant(&b, s, *bsel as usize, None, &mut t))
                }
                Damage::Truncate { method, cut, content } => {
                    info.label("truncated-payload");
                    let plain = content.expand();
                    let comp = match codec::compress(*method, None, &plain) {
                        Ok(c) => c,
                        Err(_) => return Verdict::Pass,
                    };
                    let keep = comp.len().saturating_sub(*cut as usize);
                    let mut e = EntrySpec::simple(b"t", *method, content.clone());
                    e.raw_payload = Some(Content::Bytes(comp[..keep].to_vec()));
                    let spec = ArchiveSpec::plain(vec![EntrySpec::simple(b"before", 0, Content::Bytes(b"x".to_vec())), e, EntrySpec::simple(b"after", 8, Content::Text { seed: 1, len: 50 })]);
                    let built = build::build(&spec).unwrap();
                    let s = seed_of(&spec, built);
                    catch(|| invariant(&s.bytes, &s, *bsel as usize, if keep < comp.len() { Some(1) } else { None }, &mut t))
                }
                Damage::Swap { method, a, b } => {
                    info.label("swapped-payloads");
                    let (pa, pb) = (a.expand(), b.expand());
                    let (ca, cb) = match (codec::compress(*method, None, &pa), codec::compress(*method, None, &pb)) {
                        (Ok(x), Ok(y)) => (x, y),
                        _ => return Verdict::Pass,
                    };
                    let mut ea = EntrySpec::simple(b"a", *method, a.clone());
                    ea.raw_payload = Some(Content::Bytes(cb));
                    let mut eb = EntrySpec::simple(b"b", *method, b.clone());
                    eb.raw_payload = Some(Content::Bytes(ca));
                    let spec = ArchiveSpec::plain(vec![ea, eb]);
                    let built = build::build(&spec).unwrap();
                    let s = seed_of(&spec, built);
                    catch(|| invariant(&s.bytes, &s, *bsel as usize, None, &mut t))
                }
            };
            info.nontrivial = t.opened > 0;
            info.label(if t.errored > 0 { "some-entry:Err" } else { "all-completed" });
            match r {
                Ok(Ok(())) => Verdict::Pass,
                Ok(Err(m)) => Verdict::Fail(m),
                Err(p) if p.contains("/repo/src") => Verdict::Pass,
                Err(p) => Verdict::Fail(format!("PANIC in harness: {p}")),
            }
        },
    );
    // the declared size LIES: the stream decodes to more bytes than the entry declares and the declared CRC
    // is that of the declared prefix; read with a call boundary exactly at the declared size (and through
    // read_exact(size) + read_to_end) - completing is only acceptable with bytes matching the declared CRC
    #[derive(Clone, Debug, Serialize, Deserialize, Hash)]
    struct Lie {
        method: u16,
        content: Content,
        /// declared size as a fraction (of 65536) of the real length
        frac: u16,
        how: u8,
    }
    let nl = ctx.q(6000, 60000);
    ctx.explore::<Lie>(
        "size_lies",
        nl,
        &|| (prop_oneof![Just(0u16), Just(8u16), Just(12u16), Just(93u16)], crate::refzip::content::content_nonempty(3000), prop_oneof![1 => Just(0u16), 4 => any::<u16>()], 0u8..4).prop_map(|(method, content, frac, how)| Lie { method, content, frac, how }).boxed(),
        &|l: &Lie, info: &mut Info| {
            let full = l.content.expand();
            if full.len() < 2 {
                return Verdict::Pass;
            }
            let n = ((l.frac as usize * (full.len() - 1)) >> 16).min(full.len() - 1);
            let comp = match codec::compress(l.method, None, &full) {
                Ok(c) => c,
                Err(_) => return Verdict::Pass,
            };
            let mut e = EntrySpec::simple(b"liar", l.method, Content::Bytes(full[..n].to_vec()));
            e.raw_payload = Some(Content::Bytes(comp));
            let spec = ArchiveSpec::plain(vec![EntrySpec::simple(b"before", 0, Content::Bytes(b"x".to_vec())), e, EntrySpec::simple(b"after", 8, Content::Text { seed: 1, len: 50 })]);
            let built = match build::build(&spec) {
                Ok(b) => b,
                Err(_) => return Verdict::Pass,
            };
            let mut s = seed_of(&spec, built);
            s.stored_plain = vec![false; 3]; // nothing is demanded beyond the invariant
            let bufs: Vec<usize> = match l.how {
                0 => vec![n.max(1), 4096],
                1 => vec![n.max(1)],
                2 => vec![1.max(n / 2), n - n / 2, 7],
                _ => vec![4096],
            };
            info.label(["boundary-at-declared-size", "chunks-of-declared-size", "two-reads-to-declared-size", "big-reads"][l.how as usize]);
            info.label(if l.method == 0 { "stored" } else { "compressed" });
            let mut t = Tally::default();
            let mut r = catch(|| invariant_b(&s.bytes, &s, &bufs, None, &mut t));
            if let Ok(Ok(())) = r {
                // read_exact(declared size) followed by read_to_end, through both readers
                r = catch(|| -> Result<(), String> {
                    let mut za = zip::ZipArchive::new(Cursor::new(&s.bytes[..])).map_err(|e| format!("harness: {e}"))?;
                    if let Ok(mut f) = za.by_index(1) {
                        let (declared, size) = (f.crc32(), f.size() as usize);
                        let mut head = vec![0u8; size];
                        if f.read_exact(&mut head).is_ok() {
                            let mut rest = Vec::new();
                            if f.read_to_end(&mut rest).is_ok() {
                                head.extend_from_slice(&rest);
                                let c = crypto::crc32(&head);
                                if c != declared {
                                    return Err(format!("entry 1: read_exact(size()) + read_to_end completed without error but CRC-32 of the {} returned bytes is {c:#010x}, declared {declared:#010x} (seekable reader; the entry declares {size} bytes, its data decodes to {})", head.len(), full.len()));
                                }
                            }
                        }
                    }
                    let mut cur = Cursor::new(&s.bytes[..]);
                    for i in 0..3 {
                        match zip::read::read_zipfile_from_stream(&mut cur) {
                            Ok(Some(mut f)) => {
                                let (declared, size) = (f.crc32(), f.size() as usize);
                                let mut head = vec![0u8; size];
                                if f.read_exact(&mut head).is_ok() {
                                    let mut rest = Vec::new();
                                    if f.read_to_end(&mut rest).is_ok() {
                                        head.extend_from_slice(&rest);
                                        let c = crypto::crc32(&head);
                                        if c != declared {
                                            return Err(format!("entry {i}: read_exact(size()) + read_to_end completed without error but CRC-32 of the {} returned bytes is {c:#010x}, declared {declared:#010x} (streaming reader)", head.len()));
                                        }
                                    }
                                }
                            }
                            _ => break,
                        }
                    }
                    Ok(())
                });
            }
            info.nontrivial = t.opened > 0;
            match r {
                Ok(Ok(())) => Verdict::Pass,
                Ok(Err(m)) => Verdict::Fail(format!("declared size {n} of {} real bytes (method {}): {m}", full.len(), l.method)),
                Err(p) if p.contains("/repo/src") => Verdict::Pass,
                Err(p) => Verdict::Fail(format!("PANIC in harness: {p}")),
            }
        },
    );
}

fn seed_of(spec: &ArchiveSpec, b: crate::refzip::Built) -> Seed {
    Seed {
        name: "spec".into(),
        bytes: b.bytes.clone(),
        passwords: vec![None; spec.entries.len()],
        ae2: vec![false; spec.entries.len()],
        data: b.entries.iter().map(|e| (e.data_start, e.csize)).collect(),
        crc_fields: vec![],
        local_crc_fields: vec![],
        contents: spec.entries.iter().map(|e| e.content.expand()).collect(),
        stored_plain: spec.entries.iter().map(|e| e.method == 0).collect(),
        streamable: vec![true; spec.entries.len()],
        built: Some(b),
    }
}

/// The CRC invariant on arbitrary bytes (password-less access only, so no AES exemption applies);
/// same logic as the libFuzzer target fuzz_c04.
pub fn raw_invariant(data: &[u8]) -> Result<(), String> {
    let chunk = 1 + (data.len() % 61);
    let r = catch(|| -> Result<(), String> {
        if let Ok(mut za) = zip::ZipArchive::new(Cursor::new(data)) {
            for i in 0..za.len().min(32) {
                if let Ok(mut f) = za.by_index(i) {
                    let declared = f.crc32();
                    if let Ok(d) = drain(&mut f, &[chunk], 4 << 20) {
                        let c = crypto::crc32(&d);
                        if c != declared {
                            return Err(format!("entry {i}: read completed, CRC {c:#x} != declared {declared:#x}"));
                        }
                    }
                }
            }
        }
        let mut cur = Cursor::new(data);
        for _ in 0..32 {
            match zip::read::read_zipfile_from_stream(&mut cur) {
                Ok(Some(mut f)) => {
                    let declared = f.crc32();
                    if let Ok(d) = drain(&mut f, &[chunk], 4 << 20) {
                        let c = crypto::crc32(&d);
                        if c != declared {
                            return Err(format!("stream: read completed, CRC {c:#x} != declared {declared:#x}"));
                        }
                    }
                }
                _ => break,
            }
        }
        Ok(())
    });
    match r {
        Ok(x) => x,
        Err(_) => Ok(()), // panics on arbitrary bytes are C05's subject
    }
}
