//! C05 — untrusted bytes never crash, hang or exhaust memory in the readers / append opener.
use crate::engine::{Ctx, Info, Verdict};
use crate::genf;
use crate::refzip::{build, ArchiveSpec, Content, Desc, Enc, EntrySpec, Extra};
use crate::robust::{self, Report};
use crate::seeds;
use proptest::prelude::*;
use serde::{Deserialize, Serialize};

#[derive(Clone, Debug, Serialize, Deserialize, Hash)]
pub struct Prefix {
    seed: usize,
    len: usize,
}
#[derive(Clone, Debug, Serialize, Deserialize, Hash)]
pub struct Subst {
    seed: usize,
    pos: usize,
    val: u8,
}
#[derive(Clone, Debug, Serialize, Deserialize, Hash)]
pub struct Havoc {
    seed: u16,
    edits: Vec<(u16, u8)>,
    cut: Option<u16>,
    dup: Option<(u16, u16)>,
}
#[derive(Clone, Debug, Serialize, Deserialize, Hash)]
pub struct FieldEdit {
    field: u16,
    value: u8,
}
#[derive(Clone, Debug, Serialize, Deserialize, Hash)]
pub struct Hostile {
    spec: ArchiveSpec,
    edits: Vec<FieldEdit>,
}
#[derive(Clone, Debug, Serialize, Deserialize, Hash)]
pub struct RawBytes(#[serde(with = "crate::util::hexbytes")] pub Vec<u8>);

fn verdict(r: Result<Report, String>, info: &mut Info) -> Verdict {
    match r {
        Ok(rep) => {
            info.nontrivial = rep.opened || rep.appended || rep.stream_entries > 0;
            info.label_if(rep.opened, "opened:ZipArchive");
            info.label_if(rep.appended, "opened:new_append");
            info.label_if(rep.stream_entries > 0, "opened:stream");
            info.label_if(!rep.opened && !rep.appended && rep.stream_entries == 0, "rejected-by-all");
            Verdict::Pass
        }
        Err(m) => Verdict::Fail(m),
    }
}

const V16: [u64; 12] = [0, 1, 2, 8, 12, 93, 99, 0x0800, 0x0009, 0x7FFF, 0xFFFE, 0xFFFF];
const V32: [u64; 12] = [0, 1, 2, 0xFFFF, 0x10000, 0x10001, 0x7FFFFFFF, 0x80000000, 0xFFFFFFFD, 0xFFFFFFFE, 0xFFFFFFFF, 22];
const V64: [u64; 12] = [0, 1, 0xFFFF, 0xFFFFFFFE, 0xFFFFFFFF, 0x100000000, 0x100000001, 1 << 62, 1 << 63, u64::MAX - 1, u64::MAX, 44];

fn aes_extra_data(version: u16, strength: u8, method: u16) -> Vec<u8> {
    let mut d = Vec::new();
    d.extend_from_slice(&version.to_le_bytes());
    d.extend_from_slice(b"AE");
    d.push(strength);
    d.extend_from_slice(&method.to_le_bytes());
    d
}

fn hostile_entry() -> BoxedStrategy<EntrySpec> {
    (
        genf::entry(300, true),
        // AES extra: (where: 0 none,1 central,2 local,3 both), version, strength, inner method
        (0u8..4, prop_oneof![Just(1u16), Just(2u16), Just(3u16), Just(0u16)], 0u8..5, prop_oneof![Just(0u16), Just(8u16), Just(99u16), Just(14u16), Just(12u16), Just(93u16)]),
        // method override, encrypted flag, payload override length
        prop_oneof![3 => Just(None), 1 => Just(Some(99u16)), 1 => Just(Some(0u16)), 1 => Just(Some(8u16))],
        any::<bool>(),
        prop_oneof![2 => Just(None), 1 => (0u32..40).prop_map(Some)],
        prop_oneof![3 => Just(0u8), 1 => Just(1u8), 1 => Just(2u8)],
    )
        .prop_map(|(mut e, (wh, ver, st, inner), mo, encflag, short, real_enc)| {
            if wh & 1 != 0 {
                e.central_extra_after.push(Extra { id: 0x9901, data: aes_extra_data(ver, st, inner) });
            }
            if wh & 2 != 0 {
                e.local_extra.push(Extra { id: 0x9901, data: aes_extra_data(ver, st, inner) });
            }
            if real_enc == 1 {
                e.enc = Enc::ZipCrypto { password: b"pw".to_vec(), header: vec![1; 11], time_check: e.desc != Desc::None };
            } else if real_enc == 2 && matches!(e.method, 0 | 8 | 12 | 93) {
                e.enc = Enc::Aes { password: b"helloworld".to_vec(), salt_seed: vec![st], strength: 1 + st % 3, ae2: ver == 2 };
            }
            if let Some(m) = mo {
                if e.raw_payload.is_none() {
                    e.raw_payload = Some(Content::Rand { seed: 5, len: e.content.len().min(64) as u32 });
                }
                e.method = m;
            }
            if encflag {
                e.flags_extra |= 1;
            }
            if let Some(n) = short {
                e.raw_payload = Some(Content::Rand { seed: 9, len: n });
            }
            e
        })
        .boxed()
}

fn apply_edits(spec: &ArchiveSpec, edits: &[FieldEdit]) -> Option<Vec<u8>> {
    let b = build::build(spec).ok()?;
    let mut bytes = b.bytes;
    if b.fields.is_empty() {
        return Some(bytes);
    }
    for e in edits {
        let f = &b.fields[(e.field as usize * b.fields.len()) >> 16];
        let v = match f.width {
            2 => V16[e.value as usize % 12],
            4 => V32[e.value as usize % 12],
            _ => V64[e.value as usize % 12],
        };
        // relative values: some edits use "current +- 1"
        let cur = match f.width {
            2 => u16::from_le_bytes([bytes[f.off], bytes[f.off + 1]]) as u64,
            4 => u32::from_le_bytes(bytes[f.off..f.off + 4].try_into().unwrap()) as u64,
            _ => u64::from_le_bytes(bytes[f.off..f.off + 8].try_into().unwrap()),
        };
        let v = match e.value / 12 {
            1 => cur.wrapping_add(1),
            2 => cur.wrapping_sub(1),
            3 => cur.wrapping_add(bytes.len() as u64),
            _ => v,
        };
        let le = v.to_le_bytes();
        bytes[f.off..f.off + f.width].copy_from_slice(&le[..f.width]);
    }
    Some(bytes)
}

pub fn run(ctx: &mut Ctx) {
    ctx.rule("prefixes: every truncation point of the seed archives and repository fixtures; subst: every one of the 255 substitute values at every byte outside the entry data of the seeds (headers, central directory, end records); havoc: random multi-site edits, cuts and duplicated chunks; hostile: structure-aware specs whose headers lie (counts/sizes/offsets at 0, 1, 2^16, 2^32, 2^63, 2^64-1 and +-1, AES extra records with and without the encryption flag, method 99 anywhere, encrypted entries shorter than their crypto header, long runs of one record signature in front), built by the independent builder then field-edited. Each input goes through ZipArchive::new + every accessor + by_index/by_index_raw/by_index_decrypt/by_name(_decrypt) + capped reads, read_zipfile_from_stream with none/partial/full consumption, ZipStreamReader::visit, and ZipWriter::new_append followed by finish and by drop. Oracle: no panic/abort; I/O calls while opening <= 16*len+1e6; peak heap while opening <= 512*len+2MiB. Non-trivial = accepted by at least one opener.");
    ctx.assume("reads are capped at 1 MiB of output per entry so decompression bombs cost bounded work; memory is measured on the Rust heap of the calling thread around ZipArchive::new / new_append only");
    ctx.assume("a loop that never touches the stream would only trip the supervisor's watchdog (exit 2)");
    ctx.assume("inputs with >= 64 'PK' pairs are exercised on a thread with a 1 MiB stack, so that stack use growing with the number of records shows up as a stack overflow (process abort)");
    ctx.assume("known finding bzip2-c-decoder-uninitialised-read (libbz2 reading uninitialised decoder tables on crafted Bzip2 entries; crashes or not depending on heap garbage): a worker killed by a fatal signal raised inside libbz2 is restarted with that case left out (coverage.excluded_by_known_finding counts them); the stored reproducer is re-run with MALLOC_PERTURB_=1 in a child process on every run");
    if let Some(c) = ctx.replay_case("fuzz_raw") {
        let bytes = crate::util::unhex(c["bytes"].as_str().unwrap_or("")).unwrap_or_default();
        ctx.replay_verdict = Some(Verdict::from_result(robust::exercise(&bytes).map(|_| ())));
        return;
    }
    if let Some(c) = ctx.replay_case("crash_raw") {
        // A stored input that kills the process: run it in a child of this binary (`zv rawexercise`)
        // with the recorded MALLOC_PERTURB_ value and report what happens to the child.
        let root = ctx.root.clone();
        let tmp = root.join("replays").join("C05").join(format!(".crash-raw-{}.json", std::process::id()));
        let _ = std::fs::create_dir_all(tmp.parent().unwrap());
        let _ = std::fs::write(&tmp, serde_json::to_vec(&serde_json::json!({"case": c})).unwrap());
        let perturb = c["perturb"].as_u64().unwrap_or(1).to_string();
        let st = std::process::Command::new(std::env::current_exe().expect("exe")).arg("rawexercise").arg(&tmp).env("MALLOC_PERTURB_", &perturb).stdout(std::process::Stdio::null()).stderr(std::process::Stdio::null()).status();
        let _ = std::fs::remove_file(&tmp);
        use std::os::unix::process::ExitStatusExt;
        ctx.replay_verdict = Some(match st {
            Ok(s) if s.signal().is_some() => Verdict::Known("bzip2-c-decoder-uninitialised-read", format!("child process running the stored input with MALLOC_PERTURB_={perturb} died by signal {}", s.signal().unwrap())),
            Ok(s) if s.code() == Some(0) => Verdict::Pass,
            Ok(s) => Verdict::Fail(format!("stored crash input now fails differently (child exit status {:?})", s.code())),
            Err(e) => Verdict::Fail(format!("harness: cannot spawn child: {e}")),
        });
        return;
    }
    let seeds = seeds::small_seeds();
    let mut inputs: Vec<(String, Vec<u8>, Vec<(u64, u64)>)> = seeds.iter().map(|s| (s.name.clone(), s.bytes.clone(), s.data.clone())).collect();
    for (n, b) in seeds::repo_fixtures() {
        inputs.push((format!("fixture:{n}"), b, vec![]));
    }
    // (1) prefixes
    let mut pidx: Vec<(usize, usize)> = Vec::new();
    for (si, (_, b, _)) in inputs.iter().enumerate() {
        let step = if b.len() > 8192 && ctx.tier == crate::engine::Tier::Quick { 17 } else { 1 };
        let mut l = 0;
        while l <= b.len() {
            pidx.push((si, l));
            l += step;
        }
    }
    ctx.enumerate::<Prefix>("prefixes", pidx.len() as u64, &|k| Prefix { seed: pidx[k as usize].0, len: pidx[k as usize].1 }, &|p: &Prefix, info: &mut Info| {
        let b = &inputs[p.seed].1;
        info.label(if p.len < 22 { "len<22" } else if p.len == b.len() { "complete" } else { "truncated" });
        verdict(robust::exercise(&b[..p.len.min(b.len())]), info)
    });
    // (2) substitutions at structural bytes
    let nsub_seeds = ctx.q(7usize, inputs.len());
    let mut sidx: Vec<(usize, usize)> = Vec::new();
    for (si, (_, b, data)) in inputs.iter().enumerate().take(nsub_seeds) {
        for pos in 0..b.len() {
            if !data.iter().any(|(s, l)| (pos as u64) >= *s && (pos as u64) < s + l) {
                sidx.push((si, pos));
            }
        }
    }
    // order seeds so the quick subset mixes builder variants: take every k-th when too many
    let total = sidx.len() as u64 * 255;
    ctx.enumerate::<Subst>(
        "subst",
        total,
        &|k| {
            let (si, pos) = sidx[(k / 255) as usize];
            let orig = inputs[si].1[pos];
            let v = (k % 255) as u8;
            Subst { seed: si, pos, val: if v >= orig { v + 1 } else { v } }
        },
        &|s: &Subst, info: &mut Info| {
            let mut b = inputs[s.seed].1.clone();
            b[s.pos] = s.val;
            verdict(robust::exercise(&b), info)
        },
    );
    ctx.exhaustive_all = true;
    // (3) havoc
    let ninputs = inputs.len();
    let n = ctx.q(20000, 400000);
    ctx.explore::<Havoc>(
        "havoc",
        n,
        &|| {
            (any::<u16>(), proptest::collection::vec((any::<u16>(), any::<u8>()), 1..8), prop_oneof![3 => Just(None), 1 => any::<u16>().prop_map(Some)], prop_oneof![3 => Just(None), 1 => (any::<u16>(), any::<u16>()).prop_map(Some)])
                .prop_map(|(seed, edits, cut, dup)| Havoc { seed, edits, cut, dup })
                .boxed()
        },
        &|h: &Havoc, info: &mut Info| {
            let mut b = inputs[(h.seed as usize * ninputs) >> 16].1.clone();
            if b.is_empty() {
                return Verdict::Pass;
            }
            for (p, v) in &h.edits {
                let i = (*p as usize * b.len()) >> 16;
                b[i] = *v;
            }
            if let Some((a, l)) = h.dup {
                let s = (a as usize * b.len()) >> 16;
                let e = (s + 1 + ((l as usize * 200) >> 16)).min(b.len());
                let chunk = b[s..e].to_vec();
                b.splice(s..s, chunk);
                info.label("dup-chunk");
            }
            if let Some(c) = h.cut {
                let k = (c as usize * b.len()) >> 16;
                b.truncate(k);
                info.label("cut");
            }
            if let Ok(path) = std::env::var("ZV_DUMP_INPUT") {
                let _ = std::fs::write(path, &b);
            }
            verdict(robust::exercise(&b), info)
        },
    );
    // (4) hostile, structure-aware
    let n = ctx.q(30000, 600000);
    ctx.explore::<Hostile>(
        "hostile",
        n,
        &|| {
            (
                proptest::collection::vec(hostile_entry(), 1..4),
                prop_oneof![2 => Just(None), 1 => any::<[bool; 3]>().prop_map(Some)],
                prop_oneof![
                    4 => Just(Content::Bytes(vec![])),
                    2 => (any::<u64>(), 1u32..100).prop_map(|(s, l)| Content::Rand { seed: s, len: l }),
                    // long runs of one record signature (split-archive markers, headers, end records) in front
                    1 => (proptest::sample::select(vec![*b"PK\x07\x08", *b"PK00", *b"PK\x03\x04", *b"PK\x01\x02", *b"PK\x05\x06", *b"PK\x06\x06", *b"PK\x06\x07"]), proptest::sample::select(vec![1usize, 16, 300, 600, 5000, 16000, 60000])).prop_map(|(sig, n)| Content::Bytes(sig.repeat(n))),
                ],
                proptest::collection::vec(any::<u8>(), 0..10),
                proptest::collection::vec((any::<u16>(), 0u8..48).prop_map(|(field, value)| FieldEdit { field, value }), 0..4),
            )
                .prop_map(|(entries, zip64_end, prefix, comment, edits)| {
                    let mut spec = ArchiveSpec::plain(entries);
                    spec.zip64_end = zip64_end;
                    spec.prefix = prefix;
                    spec.comment = genf::no_sig(comment);
                    Hostile { spec, edits }
                })
                .boxed()
        },
        &|h: &Hostile, info: &mut Info| {
            let Some(bytes) = apply_edits(&h.spec, &h.edits) else {
                return Verdict::Pass;
            };
            info.label_if(h.edits.is_empty(), "no-field-edit");
            info.label_if(h.spec.entries.iter().any(|e| e.central_extra_after.iter().any(|x| x.id == 0x9901) && !e.encrypted() && e.flags_extra & 1 == 0), "aes-extra-without-flag");
            info.label_if(h.spec.entries.iter().any(|e| e.method == 99), "method-99");
            info.label_if(h.spec.zip64_end.is_some(), "zip64-end");
            verdict(robust::exercise(&bytes), info)
        },
    );
}
