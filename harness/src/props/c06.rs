//! C06 — sanitised entry paths can never escape the extraction root.
use crate::engine::{Ctx, Info, Verdict};
use crate::refzip::{build, ArchiveSpec, Content, EntrySpec};
use crate::util::catch;
use proptest::prelude::*;
use serde::{Deserialize, Serialize};
use std::io::Cursor;
use std::path::{Component, Path, PathBuf};

/// String model of enclosed_name on a Unix host: Some(()) iff safe.
pub fn model_enclosed(s: &str) -> bool {
    if s.contains('\0') || s.starts_with('/') {
        return false;
    }
    let mut depth: i64 = 0;
    for c in s.split('/') {
        match c {
            "" | "." => {}
            ".." => {
                depth -= 1;
                if depth < 0 {
                    return false;
                }
            }
            _ => depth += 1,
        }
    }
    true
}

/// String model of mangled_name on a Unix host: the ordinary components in order.
pub fn model_mangled(s: &str) -> Vec<String> {
    let cut = s.split('\0').next().unwrap_or("");
    cut.replace('\\', "/").split('/').filter(|c| !c.is_empty() && *c != "." && *c != "..").map(|c| c.to_string()).collect()
}

/// lexical normalisation of base.join(rel): None if it climbs above the root of `base`
fn lexical_inside(base: &str, rel: &Path) -> bool {
    let mut stack: Vec<String> = Vec::new();
    let base_depth = base.split('/').filter(|c| !c.is_empty()).count();
    for c in base.split('/').filter(|c| !c.is_empty()) {
        stack.push(c.to_string());
    }
    if rel.is_absolute() {
        return false;
    }
    for c in rel.components() {
        match c {
            Component::Normal(x) => stack.push(x.to_string_lossy().into_owned()),
            Component::CurDir => {}
            Component::ParentDir => {
                if stack.len() <= base_depth {
                    return false;
                }
                stack.pop();
            }
            _ => return false,
        }
    }
    stack.len() >= base_depth
}

pub fn check_name(s: &str, enclosed: Option<&Path>, mangled: &Path, via: &str) -> Result<(), String> {
    // --- enclosed_name
    let want = model_enclosed(s);
    match enclosed {
        Some(p) => {
            // validity predicates on the result itself
            let bytes = p.as_os_str().to_string_lossy();
            if p.is_absolute() || p.has_root() {
                return Err(format!("[{via}] enclosed_name({s:?}) returned an absolute path {p:?}"));
            }
            if bytes.contains('\0') {
                return Err(format!("[{via}] enclosed_name({s:?}) returned a path containing NUL"));
            }
            let mut depth: i64 = 0;
            for c in p.components() {
                match c {
                    Component::Normal(_) => depth += 1,
                    Component::ParentDir => {
                        depth -= 1;
                        if depth < 0 {
                            return Err(format!("[{via}] enclosed_name({s:?}) = {p:?} climbs above its starting directory"));
                        }
                    }
                    Component::CurDir => {}
                    _ => return Err(format!("[{via}] enclosed_name({s:?}) = {p:?} has a root/prefix component")),
                }
            }
            for base in ["/x/y", "rel/base", "/"] {
                if !lexical_inside(base, p) {
                    return Err(format!("[{via}] {base:?}.join(enclosed_name({s:?})) leaves {base:?}"));
                }
            }
            if p != Path::new(s) {
                return Err(format!("[{via}] enclosed_name({s:?}) = {p:?} is not the name as a path"));
            }
            if !want {
                return Err(format!("[{via}] enclosed_name({s:?}) returned Some for an unsafe name"));
            }
        }
        None => {
            if want {
                return Err(format!("[{via}] enclosed_name({s:?}) returned None for a safe name"));
            }
        }
    }
    // --- mangled_name
    let mut got = Vec::new();
    for c in mangled.components() {
        match c {
            Component::Normal(x) => got.push(x.to_string_lossy().into_owned()),
            other => return Err(format!("[{via}] mangled_name({s:?}) = {mangled:?} contains a non-ordinary component {other:?}")),
        }
    }
    if mangled.is_absolute() {
        return Err(format!("[{via}] mangled_name({s:?}) is absolute"));
    }
    let wantm = model_mangled(s);
    if got != wantm {
        return Err(format!("[{via}] mangled_name({s:?}) = {got:?}, expected the ordinary components {wantm:?}"));
    }
    for base in ["/x/y", "rel/base"] {
        if !lexical_inside(base, mangled) {
            return Err(format!("[{via}] {base:?}.join(mangled_name({s:?})) leaves {base:?}"));
        }
    }
    Ok(())
}

struct MetaCollector {
    metas: Vec<(String, Option<PathBuf>, PathBuf)>,
    files: Vec<(String, Option<PathBuf>, PathBuf)>,
}
impl zip::unstable::stream::ZipStreamVisitor for MetaCollector {
    fn visit_file(&mut self, f: &mut zip::read::ZipFile<'_>) -> zip::result::ZipResult<()> {
        self.files.push((f.name().to_string(), f.enclosed_name().map(|p| p.to_path_buf()), f.mangled_name()));
        Ok(())
    }
    fn visit_additional_metadata(&mut self, m: &zip::unstable::stream::ZipStreamFileMetadata) -> zip::result::ZipResult<()> {
        self.metas.push((m.name().to_string(), m.enclosed_name().map(|p| p.to_path_buf()), m.mangled_name()));
        Ok(())
    }
}

/// Put the names into one archive (UTF-8 flag set) and check them through every access path.
pub fn check_batch(names: &[String]) -> Result<(), String> {
    let entries: Vec<EntrySpec> = names
        .iter()
        .enumerate()
        .map(|(i, n)| {
            let mut e = EntrySpec::simple(n.as_bytes(), 0, Content::Bytes(vec![]));
            // host system of the producer varies (Unix / MS-DOS / NTFS / other); ASCII names also go unflagged
            e.utf8 = !(n.is_ascii() && i % 2 == 1);
            e.made_by = ([3u16, 0, 10, 0, 3, 19][i % 6] << 8) | [20u16, 10, 45, 63][i % 4];
            e.version_needed = [20u16, 10, 45][i % 3];
            if e.made_by >> 8 == 0 {
                e.external_attr = 0x20;
            }
            e
        })
        .collect();
    let b = build::build(&ArchiveSpec::plain(entries)).map_err(|e| format!("harness: {e}"))?;
    let mut za = zip::ZipArchive::new(Cursor::new(&b.bytes[..])).map_err(|e| format!("harness: archive of names does not open: {e}"))?;
    if za.len() != names.len() {
        return Err("harness: entry count".into());
    }
    for (i, n) in names.iter().enumerate() {
        let f = za.by_index_raw(i).map_err(|e| format!("harness: by_index_raw: {e}"))?;
        if f.name() != n {
            return Err(format!("harness: precondition name()==s failed for {n:?}"));
        }
        let r = catch(|| check_name(n, f.enclosed_name(), &f.mangled_name(), "ZipArchive")).map_err(|p| format!("PANIC for name {n:?}: {p}"))?;
        r?;
        #[allow(deprecated)]
        let san = f.sanitized_name();
        if san != f.mangled_name() {
            return Err(format!("sanitized_name({n:?}) != mangled_name"));
        }
    }
    // streaming reader (names from the local headers) and visitor metadata (central headers)
    let mut col = MetaCollector { metas: vec![], files: vec![] };
    zip::unstable::stream::ZipStreamReader::new(Cursor::new(&b.bytes[..])).visit(&mut col).map_err(|e| format!("streaming visit failed: {e}"))?;
    if col.files.len() != names.len() {
        return Err(format!("streaming reader saw {} of {} entries", col.files.len(), names.len()));
    }
    for (n, (name, enc, man)) in names.iter().zip(col.files.iter()) {
        if name != n {
            return Err(format!("harness: streaming name {name:?} != {n:?}"));
        }
        check_name(n, enc.as_deref(), man, "stream ZipFile")?;
    }
    for (k, (name, enc, man)) in col.metas.iter().enumerate() {
        if k < names.len() && name != &names[k] {
            return Err(format!("stream metadata {k}: name {name:?} != {:?}", names[k]));
        }
        check_name(name, enc.as_deref(), man, "ZipStreamFileMetadata")?;
    }
    Ok(())
}

#[derive(Clone, Debug, Serialize, Deserialize, Hash)]
pub struct Range {
    first: u64,
    count: u64,
}

const ALPHA: [char; 5] = ['a', '.', '/', '\\', '\0'];
/// k-th string over ALPHA in length-then-lexicographic order
fn nth_string(mut k: u64) -> String {
    let mut len = 0u32;
    let mut block = 1u64;
    while k >= block {
        k -= block;
        len += 1;
        block *= 5;
    }
    let mut s = vec!['a'; len as usize];
    for i in (0..len as usize).rev() {
        s[i] = ALPHA[(k % 5) as usize];
        k /= 5;
    }
    s.into_iter().collect()
}
fn count_upto(len: u32) -> u64 {
    (0..=len).map(|l| 5u64.pow(l)).sum()
}

const COMPS: [&str; 5] = ["a", "b", ".", "..", ""];
/// component-sequence enumeration: index -> name
fn nth_component_name(mut k: u64, maxc: u32) -> Option<String> {
    // layout: sep(2) x lead(2) x trail(2) x double(2) x nulpos(0..=14 -> none or position) x sequence
    let sep = if k % 2 == 0 { '/' } else { '\\' };
    k /= 2;
    let lead = k % 2 == 1;
    k /= 2;
    let trail = k % 2 == 1;
    k /= 2;
    let dbl = k % 2 == 1;
    k /= 2;
    let nul = (k % 8) as usize; // 0 = none, else insert NUL before char index (nul-1)*2
    k /= 8;
    // sequence index
    let mut n = 0u32;
    let mut block = 1u64;
    while k >= block {
        k -= block;
        n += 1;
        block *= 5;
        if n > maxc {
            return None;
        }
    }
    let mut comps = Vec::new();
    for _ in 0..n {
        comps.push(COMPS[(k % 5) as usize]);
        k /= 5;
    }
    let sepstr = if dbl { format!("{sep}{sep}") } else { sep.to_string() };
    let mut s = String::new();
    if lead {
        s.push(sep);
    }
    s.push_str(&comps.join(&sepstr));
    if trail {
        s.push(sep);
    }
    if nul > 0 {
        let chars: Vec<char> = s.chars().collect();
        let pos = ((nul - 1) * 2).min(chars.len());
        let mut t: String = chars[..pos].iter().collect();
        t.push('\0');
        t.extend(chars[pos..].iter());
        s = t;
    }
    Some(s)
}
fn component_total(maxc: u32) -> u64 {
    (0..=maxc).map(|l| 5u64.pow(l)).sum::<u64>() * 2 * 2 * 2 * 2 * 8
}

const MCOMPS: [&str; 4] = ["a", ".", "..", ""];
/// mixed-separator enumeration: every sequence of n components from {a, ., .., empty}, every
/// assignment of '/' or '\\' to each of the n-1 joints, times {no, '/', '\\'} leading separator.
fn nth_mixed_name(mut k: u64, n: u32) -> String {
    let lead = k % 3;
    k /= 3;
    let mut seps = Vec::new();
    for _ in 1..n.max(1) {
        seps.push(if k % 2 == 0 { '/' } else { '\\' });
        k /= 2;
    }
    let mut s = String::new();
    match lead {
        1 => s.push('/'),
        2 => s.push('\\'),
        _ => {}
    }
    for i in 0..n {
        if i > 0 {
            s.push(seps[i as usize - 1]);
        }
        s.push_str(MCOMPS[(k % 4) as usize]);
        k /= 4;
    }
    s
}
fn mixed_total(n: u32) -> u64 {
    3 * 2u64.pow(n.saturating_sub(1)) * 4u64.pow(n)
}

fn hostile(s: &str) -> bool {
    s.contains("..") || s.starts_with('/') || s.starts_with('\\') || s.contains('\0') || s.contains('\\')
}

pub fn run(ctx: &mut Ctx) {
    ctx.rule("alphabet: every string over {a . / \\\\ NUL} up to length L (quick 8, thorough 10), 1000 names per generated archive, observed through ZipFile of the seekable reader, ZipFile of the streaming reader and ZipStreamFileMetadata; components: every sequence of <=C components from {a,b,.,..,empty} x separator x leading/trailing/doubled separator x NUL position; mixed_separators: every sequence of <=M components (quick 6, thorough 7) from {a,.,..,empty} with '/' or '\\\\' chosen independently at every joint x {none,'/','\\\\'} leading separator; special_names: drive-letter/UNC/device prefixes x short tails, components longer than 255 bytes with multi-byte characters at every offset around 255, and ordinary components that only look like '.' / '..' ('.. ', ' ..', '...', '..<TAB>', '..<NBSP>': blank padding, trailing dots) in every position; every batch mixes producer host systems (Unix, MS-DOS, NTFS, other) and flagged/unflagged ASCII names; random: Unicode/control names up to 64 KiB. Oracle: validity predicates on the result + string model. Non-trivial = name contains '..', a leading separator, NUL or backslash; all enumerated names are distinct by construction.");
    ctx.assume("host path semantics are Unix ('/' separates, '\\\\' is an ordinary character for enclosed_name and a separator for mangled_name)");
    const B: u64 = 1000;
    let l = ctx.q(8u32, 10);
    let total = count_upto(l);
    let chunks = (total + B - 1) / B;
    ctx.enumerate::<Range>(
        "alphabet",
        chunks,
        &|i| Range { first: i * B, count: B.min(total - i * B) },
        &|r: &Range, info: &mut Info| {
            let names: Vec<String> = (r.first..r.first + r.count).map(nth_string).collect();
            info.nontrivial = names.iter().any(|n| hostile(n));
            Verdict::from_result(check_batch(&names))
        },
    );
    ctx.add_class("alphabet:names-checked", total);
    let c = ctx.q(4u32, 6);
    let ctotal = component_total(c);
    let cchunks = (ctotal + B - 1) / B;
    ctx.enumerate::<Range>(
        "components",
        cchunks,
        &|i| Range { first: i * B, count: B.min(ctotal - i * B) },
        &|r: &Range, info: &mut Info| {
            let names: Vec<String> = (r.first..r.first + r.count).filter_map(|k| nth_component_name(k, c)).collect();
            info.nontrivial = names.iter().any(|n| hostile(n));
            Verdict::from_result(check_batch(&names))
        },
    );
    ctx.add_class("components:names-checked", ctotal);
    // mixed separators: '\\' is an ordinary character for enclosed_name on Unix but a separator for
    // mangled_name; names that mix both in front of '..' chains need more characters than the alphabet
    // sweep reaches (e.g. `a\a/../..`), so they get their own component-level enumeration
    let mmax = ctx.q(6u32, 7);
    let mut offs = vec![0u64];
    for n in 1..=mmax {
        offs.push(offs[n as usize - 1] + mixed_total(n));
    }
    let mtotal = *offs.last().unwrap();
    let mchunks = (mtotal + B - 1) / B;
    ctx.enumerate::<Range>(
        "mixed_separators",
        mchunks,
        &|i| Range { first: i * B, count: B.min(mtotal - i * B) },
        &|r: &Range, info: &mut Info| {
            let names: Vec<String> = (r.first..r.first + r.count)
                .map(|k| {
                    let n = (1..=mmax).find(|&n| k < offs[n as usize]).unwrap();
                    nth_mixed_name(k - offs[n as usize - 1], n)
                })
                .collect();
            info.nontrivial = names.iter().any(|n| hostile(n));
            Verdict::from_result(check_batch(&names))
        },
    );
    ctx.add_class("mixed_separators:names-checked", mtotal);
    // drive-letter / UNC / device style prefixes (ordinary characters on Unix) in front of every short tail,
    // and single components longer than NAME_MAX with multi-byte characters at every offset around 255
    let mut special: Vec<String> = Vec::new();
    for pre in ["C:", "c:", "Z:", "C:\\", "C:/", "//", "\\\\", "\\\\?\\C:\\", "CON", "a:b:"] {
        for tail in ["", "..", ".", "../x", "..\\x", "..\\..\\x", "a", "a/..", "a/../..", "/a", "\\a", "\0..", "..\0", "./..", ".\\..", "../../a/b"] {
            special.push(format!("{pre}{tail}"));
            special.push(format!("d/{pre}{tail}"));
        }
    }
    for pad in 240..=262usize {
        for ch in ["é", "漢", "😀"] {
            special.push(format!("{}{}{}", "p".repeat(pad), ch.repeat(6), "/t"));
            special.push(format!("x/{}{}", "p".repeat(pad), ch.repeat(3)));
            special.push(format!("{}{}/../../t", ch.repeat(2), "p".repeat(pad)));
        }
    }
    // ordinary components that turn into '.' / '..' if a sanitiser trims or normalises them (FAT blank padding,
    // trailing dots, tabs): they must come through verbatim
    for d in [".. ", " ..", "..  ", ".. .", "...", "..\t", "..;", ".. /", ". ", " .", " ", ".\u{a0}.", "..\u{a0}"] {
        let d = d.replace("\\t", "\t");
        for shape in ["{d}/x", "a/{d}/{d}/x", "{d}/{d}/{d}/etc/passwd", "{d}\\x", "a/{d}", "{d}", "/{d}/x", "a\\{d}\\{d}\\x"] {
            special.push(shape.replace("{d}", &d));
        }
    }
    let special = std::sync::Arc::new(special);
    let stotal = special.len() as u64;
    let sp = special.clone();
    ctx.enumerate::<Range>(
        "special_names",
        (stotal + 99) / 100,
        &|i| Range { first: i * 100, count: 100.min(stotal - i * 100) },
        &move |r: &Range, info: &mut Info| {
            let names: Vec<String> = (r.first..r.first + r.count).map(|k| sp[k as usize].clone()).collect();
            info.nontrivial = true;
            Verdict::from_result(check_batch(&names))
        },
    );
    ctx.add_class("special_names:names-checked", stotal);
    ctx.exhaustive_all = true;
    let n = ctx.q(20000, 300000);
    ctx.explore::<Vec<String>>(
        "random",
        n,
        &|| {
            let one = prop_oneof![
                4 => "[a-c./\\\\\0 ]{0,24}",
                3 => "\\PC{0,40}",
                2 => "(\\.\\./|/|[a-z]{1,3}/|\\./|\\\\|\0|é/|\u{2215}|\u{ff0f}|\u{2024}\u{2024}/){0,12}",
                1 => ".{0,60}",
                1 => (any::<u64>(), 1000u32..65000).prop_map(|(s, n)| {
                    let mut g = crate::util::Sm(s);
                    let parts = ["a/", "../", "./", "/", "bb", "\\", "é", "x/../"];
                    let mut t = String::new();
                    while t.len() < n as usize {
                        t.push_str(parts[(g.next() % parts.len() as u64) as usize]);
                    }
                    t
                }),
            ];
            proptest::collection::vec(one, 1..10).boxed()
        },
        &|names: &Vec<String>, info: &mut Info| {
            info.nontrivial = names.iter().any(|n| hostile(n));
            info.label_if(names.iter().any(|n| n.len() > 1000), "long-name");
            info.label_if(names.iter().any(|n| !n.is_ascii()), "non-ascii");
            Verdict::from_result(check_batch(names))
        },
    );
}
