//! C07 — extract() reproduces the tree and writes nothing outside the target.
use super::c03::model_mode;
use super::c06::model_enclosed;
use crate::engine::{Ctx, Info, Verdict};
use crate::refzip::{self, build, ArchiveSpec, Content, EntrySpec};
use crate::util::catch;
use proptest::prelude::*;
use serde::{Deserialize, Serialize};
use std::collections::BTreeMap;
use std::io::Cursor;
use std::os::unix::fs::PermissionsExt;
use std::path::{Path, PathBuf};

#[derive(Clone, Debug, Serialize, Deserialize, Hash)]
pub struct Ent {
    name: String,
    dir: bool,
    symlink_typed: bool,
    mode: u32,
    content: Content,
    method: u16,
    /// low (MS-DOS) byte of the external attributes: read-only 0x01, directory 0x10, archive 0x20 ...
    /// (Info-ZIP mirrors it from the Unix mode; it must not change the mode of a Unix-made entry)
    #[serde(default)]
    attr_low: u8,
    /// entry made by an MS-DOS/FAT producer: the mode then follows from the DOS attributes alone
    #[serde(default)]
    dos_made: bool,
}
#[derive(Clone, Debug, Serialize, Deserialize, Hash)]
pub struct Case {
    entries: Vec<Ent>,
    /// all names come from the safe pool
    safe: bool,
    stream: bool,
    /// Some(seed): the central directory lists the entries in a shuffled order (the local headers
    /// stay in physical order) - legal, and what the two extractors walk differs then
    #[serde(default)]
    central_shuffle: Option<u64>,
    /// hand the extractor a RELATIVE target path that starts with `..` components (relative to the
    /// process's working directory, which the check parks in a directory of its own)
    #[serde(default)]
    rel_target: bool,
    /// Some((entry pick, bit pick, in the central CRC field instead of the data)): flip one bit of a
    /// non-empty file entry before extraction
    #[serde(default)]
    damage: Option<(u16, u32, bool)>,
    /// how the reader handed to the extractor behaves: (largest read it serves, 0 = unlimited; every n-th
    /// read call first reports `Interrupted`, 0 = never). Interrupted is only injected where no entry is
    /// abandoned half-read (the streaming reader's drop-time skip panics on any reader error by design)
    #[serde(default)]
    io: (usize, usize),
}

/// The worker's working directory is parked (once) in /var/tmp/zv-c07-cwd-<pid>/a/b so that relative
/// target paths with leading `..` can be formed; everything else in the harness uses absolute paths.
fn parked_cwd() -> PathBuf {
    static ONCE: std::sync::OnceLock<PathBuf> = std::sync::OnceLock::new();
    ONCE.get_or_init(|| {
        let d = PathBuf::from(format!("/var/tmp/zv-c07-cwd-{}/a/b", std::process::id()));
        let _ = std::fs::create_dir_all(&d);
        let _ = std::env::set_current_dir(&d);
        d
    })
    .clone()
}

/// (path relative to root) -> (kind, mode&0o7777, content hash / link target)
type Snap = BTreeMap<PathBuf, (char, u32, u64)>;

fn snapshot(root: &Path) -> Snap {
    fn walk(root: &Path, p: &Path, out: &mut Snap) {
        let Ok(md) = std::fs::symlink_metadata(p) else { return };
        let rel = p.strip_prefix(root).unwrap_or(p).to_path_buf();
        let ft = md.file_type();
        if ft.is_symlink() {
            let t = std::fs::read_link(p).map(|t| crate::util::hash_of(t.to_string_lossy().as_bytes())).unwrap_or(0);
            out.insert(rel, ('l', 0, t));
        } else if ft.is_dir() {
            out.insert(rel, ('d', md.permissions().mode() & 0o7777, 0));
            // make unreadable dirs readable for the walk (and restore): extraction may chmod dirs
            let mode = md.permissions().mode();
            let _ = std::fs::set_permissions(p, std::fs::Permissions::from_mode(mode | 0o700));
            if let Ok(rd) = std::fs::read_dir(p) {
                let mut kids: Vec<PathBuf> = rd.flatten().map(|e| e.path()).collect();
                kids.sort();
                for k in kids {
                    walk(root, &k, out);
                }
            }
            let _ = std::fs::set_permissions(p, std::fs::Permissions::from_mode(mode));
        } else {
            let h = std::fs::read(p).map(|b| crate::util::hash_of(&b[..])).unwrap_or(1);
            out.insert(rel, ('f', md.permissions().mode() & 0o7777, h));
        }
    }
    let mut s = Snap::new();
    walk(root, root, &mut s);
    s
}

fn rm_rf(p: &Path) {
    // directories may have been chmod-ed to 000 by extraction
    fn fix(p: &Path) {
        if let Ok(md) = std::fs::symlink_metadata(p) {
            if md.is_dir() {
                let _ = std::fs::set_permissions(p, std::fs::Permissions::from_mode(0o700));
                if let Ok(rd) = std::fs::read_dir(p) {
                    for e in rd.flatten() {
                        fix(&e.path());
                    }
                }
            }
        }
    }
    fix(p);
    let _ = std::fs::remove_dir_all(p);
}

static SEQ: std::sync::atomic::AtomicU64 = std::sync::atomic::AtomicU64::new(0);

fn check(c: &Case, info: &mut Info) -> Result<(), String> {
    // ---- archive
    let entries: Vec<EntrySpec> = c
        .entries
        .iter()
        .map(|e| {
            let name = if e.dir && !e.name.ends_with('/') { format!("{}/", e.name) } else { e.name.clone() };
            let mut s = EntrySpec::simple(name.as_bytes(), if e.dir { 0 } else { e.method }, if e.dir { Content::Bytes(vec![]) } else { e.content.clone() });
            s.utf8 = true;
            let ty = if e.dir { 0o040000 } else if e.symlink_typed { 0o120000 } else { 0o100000 };
            s.external_attr = ((ty | (e.mode & 0o777)) << 16) | e.attr_low as u32;
            if e.dos_made {
                s.made_by = 20;
                s.external_attr = (e.attr_low as u32 & !0x10) | if e.dir { 0x10 } else { 0 };
            }
            s
        })
        .collect();
    let mut spec = ArchiveSpec::plain(entries);
    if let Some(seed) = c.central_shuffle {
        let n = spec.entries.len();
        if n > 1 {
            let mut o: Vec<usize> = (0..n).collect();
            let mut g = crate::util::Sm(seed);
            for i in (1..n).rev() {
                let j = (g.next() % (i as u64 + 1)) as usize;
                o.swap(i, j);
            }
            spec.central_order = Some(o);
        }
    }
    let mut b = build::build(&spec).map_err(|e| format!("harness: {e}"))?;
    let mut damaged: Option<usize> = None;
    if let Some((ep, bp, in_crc)) = c.damage {
        let cands: Vec<usize> = (0..spec.entries.len()).filter(|&i| b.entries[i].csize > 0).collect();
        if !cands.is_empty() {
            let i = cands[(ep as usize * cands.len()) >> 16];
            let be = &b.entries[i];
            let (start, len) = if in_crc { (be.central_header_start + 16, 4u64) } else { (be.data_start, be.csize) };
            let bit = (bp as u64) % (len * 8);
            b.bytes[(start + bit / 8) as usize] ^= 1 << (bit % 8);
            damaged = Some(i);
        }
    }
    // ---- sandbox: <base>/canary (absolute-path bait), <base>/l1/.../l12/target
    let base = PathBuf::from(format!("/var/tmp/zv-c07-{}-{}", std::process::id(), SEQ.fetch_add(1, std::sync::atomic::Ordering::Relaxed)));
    rm_rf(&base);
    let mut nest = base.clone();
    for i in 1..=12 {
        nest.push(format!("l{i}"));
    }
    let target = nest.join("target");
    std::fs::create_dir_all(&target).map_err(|e| format!("harness: {e}"))?;
    std::fs::create_dir_all(base.join("canary")).map_err(|e| format!("harness: {e}"))?;
    std::fs::write(base.join("canary/keep.txt"), b"canary").map_err(|e| format!("harness: {e}"))?;
    std::fs::write(nest.join("sibling.txt"), b"sibling").map_err(|e| format!("harness: {e}"))?;
    let r = (|| -> Result<(), String> {
        let before = snapshot(&base);
        let given: PathBuf = if c.rel_target {
            // cwd = /var/tmp/zv-c07-cwd-<pid>/a/b  ->  ../../../<sandbox>/l1/.../target
            let cwd = parked_cwd();
            if std::env::current_dir().ok().as_ref() != Some(&cwd) {
                return Err("harness: working directory is not the parked one".into());
            }
            Path::new("../../..").join(target.strip_prefix("/var/tmp").map_err(|e| format!("harness: {e}"))?)
        } else {
            target.clone()
        };
        let intr = if c.stream && (!c.safe || c.damage.is_some()) { 0 } else { c.io.1 };
        let rd = crate::sio::ChunkReader::new(Cursor::new(&b.bytes[..]), if c.io.0 == 0 { vec![] } else { vec![c.io.0] }, vec![]).with_interrupts(intr);
        info.label_if(c.io.0 > 0, "short-reading source");
        info.label_if(intr > 0, "source reports Interrupted");
        let res = catch(|| {
            if c.stream {
                zip::unstable::stream::ZipStreamReader::new(rd).extract(&given)
            } else {
                zip::ZipArchive::new(rd).and_then(|mut z| z.extract(&given))
            }
        });
        // nothing may appear below the parked working directory either
        if c.rel_target {
            let cwd_root = PathBuf::from(format!("/var/tmp/zv-c07-cwd-{}", std::process::id()));
            let stray = snapshot(&cwd_root);
            if stray.len() != 3 {
                let names: Vec<_> = stray.keys().filter(|p| !matches!(p.to_str(), Some("") | Some("a") | Some("a/b"))).collect();
                // remove the strays but keep the parked directory itself (other threads are using it)
                for (dir, keep) in [(cwd_root.clone(), Some("a")), (cwd_root.join("a"), Some("b")), (cwd_root.join("a/b"), None)] {
                    if let Ok(rd) = std::fs::read_dir(&dir) {
                        for e in rd.flatten() {
                            if Some(e.file_name().to_string_lossy().as_ref()) != keep {
                                rm_rf(&e.path());
                            }
                        }
                    }
                }
                return Err(format!("extraction into the relative target {given:?} created {names:?} outside the target (below the working directory)"));
            }
        }
        let after = snapshot(&base);
        let bait = PathBuf::from(format!("/var/tmp/zv-c07-{}-canarybait", std::process::id()));
        if bait.exists() {
            rm_rf(&bait);
            return Err("extraction created the absolute path named by an entry (outside the target directory)".into());
        }
        let trel = target.strip_prefix(&base).unwrap().to_path_buf();
        // (1) nothing outside the target may differ
        for (p, v) in &after {
            if p.starts_with(&trel) {
                continue;
            }
            match before.get(p) {
                Some(b) if b == v => {}
                Some(_) => return Err(format!("extraction MODIFIED {:?} outside the target directory", p)),
                None => return Err(format!("extraction CREATED {:?} outside the target directory", p)),
            }
        }
        for p in before.keys() {
            if !after.contains_key(p) {
                return Err(format!("extraction REMOVED {:?} outside the target directory", p));
            }
        }
        let res = res.map_err(|p| format!("extract PANICKED: {p}"))?;
        let names: Vec<String> = spec.entries.iter().map(|e| String::from_utf8_lossy(&e.name).into_owned()).collect();
        let unsafe_name = names.iter().find(|n| !model_enclosed(n));
        info.label_if(unsafe_name.is_some(), "has-unsafe-name");
        // (2) an unsafe name must make extraction fail
        if let Some(n) = unsafe_name {
            if res.is_ok() {
                return Err(format!("archive contains the unsafe entry name {n:?} but extract() returned Ok"));
            }
            return Ok(());
        }
        if !c.safe {
            return Ok(()); // conflicting / odd but safe names: only confinement is claimed
        }
        // (2b) one bit of an entry's data (or of its declared CRC) was flipped: extraction either fails, or
        // everything it wrote is still the original content (a flip inside a compressed stream may be
        // harmless) - it never reports success for altered data. The streaming extractor reads the local
        // header's CRC, so damage to the central CRC field alone does not concern it.
        if let Some(di) = damaged {
            info.label("one-bit-damaged");
            if res.is_ok() {
                for (i, (e, sp)) in c.entries.iter().zip(spec.entries.iter()).enumerate() {
                    if e.dir {
                        continue;
                    }
                    let name = String::from_utf8_lossy(&sp.name).into_owned();
                    let rel = trel.join(&name);
                    let want = crate::util::hash_of(&e.content.expand()[..]);
                    let want_link = crate::util::hash_of(String::from_utf8_lossy(&e.content.expand()).as_bytes());
                    match after.get(&rel) {
                        Some(('f', _, h)) if *h == want => {}
                        Some(('l', _, h)) if *h == want_link => {}
                        Some((k, _, _)) => {
                            if i == di && !(c.stream && c.damage.map(|d| d.2).unwrap_or(false)) {
                                return Err(format!("entry {name:?} had one bit flipped in its {}, extract() returned Ok and wrote a {} with content that differs from the original ({} extractor)", if c.damage.unwrap().2 { "declared CRC" } else { "data" }, if *k == 'l' { "symbolic link" } else { "file" }, if c.stream { "streaming" } else { "seekable" }));
                            }
                        }
                        None => {}
                    }
                }
                if c.damage.unwrap().2 && !c.stream {
                    return Err(format!("entry {:?} declares a CRC-32 with one bit flipped, yet extract() returned Ok (seekable extractor)", String::from_utf8_lossy(&spec.entries[di].name)));
                }
                if !c.damage.unwrap().2 && spec.entries[di].method == 0 {
                    return Err(format!("stored entry {:?} had one data bit flipped, yet extract() returned Ok ({} extractor)", String::from_utf8_lossy(&spec.entries[di].name), if c.stream { "streaming" } else { "seekable" }));
                }
            }
            return Ok(());
        }
        // (3) safe and mutually consistent names: success and an exact tree
        res.map_err(|e| format!("extract() of an archive with safe, consistent names failed: {e}"))?;
        let mut want: BTreeMap<PathBuf, (char, Option<u32>, u64)> = BTreeMap::new();
        want.insert(trel.clone(), ('d', None, 0));
        for (e, s) in c.entries.iter().zip(spec.entries.iter()) {
            let name = String::from_utf8_lossy(&s.name).into_owned();
            let rel = trel.join(name.trim_end_matches('/'));
            // implied parents
            let mut anc = rel.parent();
            while let Some(a) = anc {
                if a == trel || !a.starts_with(&trel) {
                    break;
                }
                want.entry(a.to_path_buf()).or_insert(('d', None, 0));
                anc = a.parent();
            }
            let mode = model_mode(s.made_by, s.external_attr).map(|m| m & 0o777);
            if e.dir {
                want.insert(rel, ('d', mode, 0));
            } else if e.symlink_typed {
                // extracted as a regular file holding the link text (what the code does), or - equally
                // faithful - as a symbolic link with that target: kind 's' accepts both
                want.insert(rel, ('s', None, crate::util::hash_of(&e.content.expand()[..])));
            } else {
                want.insert(rel, ('f', mode, crate::util::hash_of(&e.content.expand()[..])));
            }
        }
        let got: BTreeMap<PathBuf, (char, u32, u64)> = after.iter().filter(|(p, _)| p.starts_with(&trel)).map(|(p, v)| (p.clone(), *v)).collect();
        for (p, (k, m, h)) in &want {
            match got.get(p) {
                None => return Err(format!("{:?} is missing after extraction ({} extractor)", p.strip_prefix(&trel).unwrap_or(p), if c.stream { "streaming" } else { "seekable" })),
                Some((gk, gm, gh)) => {
                    if *k == 's' {
                        let ok = (*gk == 'f' && gh == h) || *gk == 'l';
                        if !ok {
                            return Err(format!("symlink-typed entry {:?} was extracted as kind {gk} with different content", p.strip_prefix(&trel).unwrap_or(p)));
                        }
                        continue;
                    }
                    if gk != k {
                        return Err(format!("{:?} has kind {gk}, expected {k}", p.strip_prefix(&trel).unwrap_or(p)));
                    }
                    if *k == 'f' && gh != h {
                        return Err(format!("{:?}: extracted content differs from the archive's", p.strip_prefix(&trel).unwrap_or(p)));
                    }
                    if let Some(m) = m {
                        if gm & 0o777 != *m {
                            return Err(format!("{:?}: permission bits {:#o} after extraction, archive records {:#o} ({} extractor)", p.strip_prefix(&trel).unwrap_or(p), gm & 0o777, m, if c.stream { "streaming" } else { "seekable" }));
                        }
                    }
                }
            }
        }
        for p in got.keys() {
            if !want.contains_key(p) {
                return Err(format!("unexpected object {:?} in the target after extraction", p.strip_prefix(&trel).unwrap_or(p)));
            }
        }
        Ok(())
    })();
    rm_rf(&base);
    r
}

fn comp() -> BoxedStrategy<String> {
    prop_oneof![4 => "zv_[a-z0-9]{1,6}", 1 => "zv_[a-zé漢 ]{1,5}", 1 => "zv_[a-z]{1,3}\\.[a-z]{1,3}"].boxed()
}

/// safe pool: unique file paths, dirs carry >= 0o700, no file/dir conflicts
fn safe_case() -> BoxedStrategy<Vec<Ent>> {
    proptest::collection::vec((proptest::collection::vec(comp(), 1..5), any::<bool>(), 0u32..512, crate::refzip::content::content(5000), prop_oneof![Just(0u16), Just(8), Just(93)]), 1..10)
        .prop_map(|raw| {
            let mut out: Vec<Ent> = Vec::new();
            let mut files: std::collections::HashSet<String> = Default::default();
            let mut dirs: std::collections::HashSet<String> = Default::default();
            let mut explicit: std::collections::HashSet<String> = Default::default();
            for (comps, dir, mode, content, method) in raw {
                let name = comps.join("/");
                // conflict-free: no existing file is a prefix dir of this path and vice versa
                // an explicit directory entry may follow entries below it (the directory is then only
                // implied so far); a second explicit entry or a file of that name would be a conflict
                let mut ok = !files.contains(&name) && if dir { !explicit.contains(&name) } else { !dirs.contains(&name) };
                let mut pre = String::new();
                for c in &comps[..comps.len() - 1] {
                    if !pre.is_empty() {
                        pre.push('/');
                    }
                    pre.push_str(c);
                    if files.contains(&pre) {
                        ok = false;
                    }
                }
                if !dir && dirs.iter().any(|d| d == &name || d.starts_with(&format!("{name}/"))) {
                    ok = false;
                }
                if !dir && files.iter().any(|f| f.starts_with(&format!("{name}/"))) {
                    ok = false;
                }
                if !ok {
                    continue;
                }
                let mut pre = String::new();
                for c in &comps[..comps.len() - 1] {
                    if !pre.is_empty() {
                        pre.push('/');
                    }
                    pre.push_str(c);
                    dirs.insert(pre.clone());
                }
                if dir {
                    dirs.insert(name.clone());
                    explicit.insert(name.clone());
                } else {
                    files.insert(name.clone());
                }
                // directories (explicit) must stay traversable/writable for the owner so that
                // later entries can be created below them (consistency of the archive)
                let mode = if dir { mode | 0o700 } else { mode };
                // some file entries are typed as symbolic links (their content is the link text)
                let sym = !dir && mode % 8 == 5;
                let content = if sym { Content::Bytes(format!("zv_link_target_{}", mode).into_bytes()) } else { content };
                // producer-dependent attribute bytes, derived from the generated values
                let h = crate::util::hash_of(&(name.as_str(), mode));
                let dos_made = !sym && h % 6 == 0;
                let mut attr_low = [0u8, 0, 0, 0x01, 0x20, 0x21, 0x30, 0x11, (h >> 8) as u8, 0][(h >> 16) as usize % 10];
                if dir && dos_made {
                    attr_low &= !1; // a read-only DOS directory would block its own children
                }
                out.push(Ent { name, dir, symlink_typed: sym, mode, content, method: if sym { 0 } else { method }, attr_low, dos_made });
            }
            // every third case: the parent directory of a file gets its explicit entry (with permission bits of
            // its own) only AFTER that file - bottom-up listings as `find -depth | zip -@` produces
            let pick = out.iter().find(|e| !e.dir && e.name.contains('/')).map(|e| e.name.rsplit_once('/').unwrap().0.to_string());
            if let Some(parent) = pick {
                let h = crate::util::hash_of(&(parent.as_str(), out.len()));
                if h % 3 == 0 && !explicit.contains(&parent) && !files.contains(&parent) {
                    out.push(Ent { name: parent, dir: true, symlink_typed: false, mode: 0o700 | (h >> 8) as u32 & 0o077, content: Content::Bytes(vec![]), method: 0, attr_low: 0, dos_made: false });
                }
            }
            out
        })
        .boxed()
}

fn hostile_name(base_canary: String) -> BoxedStrategy<String> {
    prop_oneof![
        3 => (0usize..9, comp()).prop_map(|(n, c)| format!("{}{}", "../".repeat(n), c)),
        2 => (comp(), 0usize..9, comp()).prop_map(|(a, n, c)| format!("{a}/{}{}", "../".repeat(n), c)),
        2 => comp().prop_map(move |c| format!("{base_canary}/{c}")),
        1 => (comp(), comp()).prop_map(|(a, b)| format!("{a}\0{b}")),
        1 => (comp(), comp()).prop_map(|(a, b)| format!("{a}\\..\\..\\{b}")),
        // mixed separators: on Unix `a\b\c` is ONE component, so the '..' chain behind it climbs out
        2 => (proptest::collection::vec(comp(), 2..5), 1usize..8, comp()).prop_map(|(v, n, c)| format!("{}/{}{}", v.join("\\"), "../".repeat(n), c)),
        1 => (comp(), comp(), 1usize..4, comp()).prop_map(|(a, b, n, c)| format!("{a}/{b}\\x\\y/{}{}", "../".repeat(n + 1), c)),
        1 => (0usize..5, comp()).prop_map(|(n, c)| format!("./{}{}", "../".repeat(n), c)),
        1 => comp().prop_map(|c| format!("{c}/..")),
        1 => Just("..".to_string()),
        1 => (comp(), comp()).prop_map(|(a, b)| format!("{a}/./{b}/../{a}")),
        2 => proptest::collection::vec(comp(), 1..20).prop_map(|v| v.join("/")),
    ]
    .boxed()
}

pub fn run(ctx: &mut Ctx) {
    ctx.rule("archives built by the independent builder with names from a SAFE pool (unique nested paths, explicit dirs >= 0o700, any permission bits on files, no conflicts; entries made by Unix with any MS-DOS attribute byte next to the mode, or made by MS-DOS with the mode following from the DOS attributes) or a HOSTILE pool ('..' chains up to 8 deep, absolute paths into a disposable canary directory, NUL, backslash chains, mixed '\\' and '/' separators in front of a '..' chain, './..' prefixes, duplicates, file/dir conflicts, symlink-typed entries, deep nesting), central directory order shuffled against the physical order in a third of the cases; explicit directory entries may follow entries below them; a quarter of the cases pass a relative target path with leading '..' components; a quarter of the safe archives get one bit flipped in an entry's data or declared CRC (extraction must fail or have written only original content); symlink-typed entries also occur in the safe pool (regular file with the link text, or a symbolic link with that target, are both accepted); extracted with ZipArchive::extract and ZipStreamReader::extract into a 12-level nested sandbox under /var/tmp. Oracle: recursive snapshot (type, mode, content hash) of everything outside the target is unchanged; an archive with an unsafe name (C06 string model) returns Err; an all-safe archive returns Ok and the tree equals the model exactly (implied parents, contents, mode & 0o777 for every entry that records one). Non-trivial = has a hostile name, or >=3 safe entries with nesting.");
    ctx.assume("hostile names use only zv_-prefixed components, at most 8 '..' (cannot leave the 12-level nest) and absolute paths only under the run's own canary directory, so even a tree with broken sanitisation cannot touch anything real");
    ctx.assume("symlink-typed entries are extracted as regular files (what the code does; it cannot escape)");
    let n = ctx.q(8000, 60000);
    let canary = format!("/var/tmp/zv-c07-{}-canarybait", std::process::id());
    ctx.explore::<Case>(
        "extract",
        n,
        &|| {
            let canary = canary.clone();
            let shuf = || prop_oneof![2 => Just(None), 1 => any::<u64>().prop_map(Some)];
            let rel = || prop_oneof![3 => Just(false), 1 => Just(true)];
            let dmg = || prop_oneof![3 => Just(None), 1 => (any::<u16>(), any::<u32>(), any::<bool>()).prop_map(Some)];
            let io = || (prop_oneof![3 => Just(0usize), 1 => Just(1usize), 1 => Just(7usize), 1 => 2usize..5000], prop_oneof![3 => Just(0usize), 1 => 1usize..4, 1 => 4usize..40]);
            let safe = (safe_case(), any::<bool>(), shuf(), rel(), dmg(), io()).prop_map(|(entries, stream, central_shuffle, rel_target, damage, io)| Case { entries, safe: true, stream, central_shuffle, rel_target, damage, io });
            let hostile = (safe_case(), proptest::collection::vec((hostile_name(canary), any::<bool>(), any::<bool>(), 0u32..512, crate::refzip::content::content(300)), 1..4), any::<u16>(), any::<bool>(), shuf(), rel(), io()).prop_map(|(mut entries, hs, at, stream, central_shuffle, rel_target, io)| {
                for (i, (name, dir, sym, mode, content)) in hs.into_iter().enumerate() {
                    let pos = ((at as usize + i * 7919) * (entries.len() + 1)) >> 16;
                    entries.insert(pos.min(entries.len()), Ent { name, dir, symlink_typed: sym, mode, content, method: 0, attr_low: 0, dos_made: false });
                }
                // duplicates and file/dir conflicts
                if entries.len() >= 2 && at % 3 == 0 {
                    let e = entries[0].clone();
                    entries.push(Ent { dir: !e.dir, ..e });
                }
                Case { entries, safe: false, stream, central_shuffle, rel_target, damage: None, io }
            });
            prop_oneof![1 => safe, 1 => hostile].boxed()
        },
        &|c: &Case, info: &mut Info| {
            info.label(if c.stream { "stream-extract" } else { "seekable-extract" });
            info.label(if c.safe { "safe-pool" } else { "hostile-pool" });
            info.label_if(c.central_shuffle.is_some(), "central-order-shuffled");
            info.label_if(c.rel_target, "relative-target-with-leading-dotdot");
            info.label_if(c.entries.iter().any(|e| e.name.contains('\\') && e.name.contains("/..")), "mixed-separator-climb");
            info.nontrivial = !c.safe || (c.entries.len() >= 3 && c.entries.iter().any(|e| e.name.contains('/')));
            match catch(|| check(c, info)) {
                Ok(Ok(())) => Verdict::Pass,
                Ok(Err(m)) => Verdict::Fail(m),
                Err(p) => Verdict::Fail(format!("PANIC: {p}")),
            }
        },
    );
    let _ = refzip::decode_text;
    // the parked working directory (see parked_cwd) is not needed any more
    let _ = std::env::set_current_dir("/");
    rm_rf(Path::new(&format!("/var/tmp/zv-c07-cwd-{}", std::process::id())));
}
