//! C08 — archives beyond the 16/32-bit limits stay correct (ZIP64), via sparse in-memory files.
use crate::engine::{Ctx, Info, Verdict};
use crate::refzip::parse::{self, Src};
use crate::refzip::{build, crypto, ArchiveSpec, Content, Desc, EntrySpec, Extra};
use crate::sio::{Shared, SparseFile};
use crate::util::catch;
use serde::{Deserialize, Serialize};
use std::io::{Cursor, Read, Seek, SeekFrom, Write};
use zip::write::FileOptions;
use zip::{CompressionMethod, ZipWriter};

impl Src for Shared<SparseFile> {
    fn size(&self) -> u64 {
        self.0.lock().unwrap().len
    }
    fn at(&self, off: u64, len: usize) -> Result<Vec<u8>, String> {
        self.0.lock().unwrap().at(off, len)
    }
}

/// CRC-32 of `n` zero bytes in O(log n) via crc32_combine doubling.
pub fn crc_zeros(n: u64) -> u32 {
    // crc of 2^k zeros by repeated combination
    let mut result = 0u32; // crc of empty
    let mut have = 0u64;
    let mut block_crc = crypto::crc32(&[0u8]); // crc of 1 zero
    let mut block_len = 1u64;
    let mut rem = n;
    while rem > 0 {
        if rem & 1 == 1 {
            result = if have == 0 { block_crc } else { crypto::crc32_combine(result, block_crc, block_len) };
            have += block_len;
        }
        block_crc = crypto::crc32_combine(block_crc, block_crc, block_len);
        block_len *= 2;
        rem >>= 1;
    }
    result
}

#[derive(Clone, Debug, Serialize, Deserialize, Hash)]
pub struct Layout {
    /// position the sink is at when the writer starts
    start: u64,
    /// entries: (name, size of zero-run content, large_file flag, method: 0 stored / 8 deflate)
    entries: Vec<(String, u64, bool, u16)>,
    comment: bool,
    cpython: bool,
}

fn opts(method: u16, large: bool) -> FileOptions {
    FileOptions::default().compression_method(if method == 8 { CompressionMethod::Deflated } else { CompressionMethod::Stored }).large_file(large).last_modified_time(zip::DateTime::default())
}

fn write_zeros<W: Write>(w: &mut W, n: u64) -> std::io::Result<()> {
    let buf = vec![0u8; 1 << 20];
    let mut left = n;
    while left > 0 {
        let k = left.min(buf.len() as u64) as usize;
        w.write_all(&buf[..k])?;
        left -= k as u64;
    }
    Ok(())
}

fn dump_sparse(f: &Shared<SparseFile>, path: &std::path::Path) -> Result<(), String> {
    let g = f.0.lock().unwrap();
    let mut out = std::fs::File::create(path).map_err(|e| e.to_string())?;
    out.set_len(g.len).map_err(|e| e.to_string())?;
    // copy only non-zero 64 KiB pages
    let mut page = vec![0u8; 1 << 16];
    let mut off = 0u64;
    // walk resident pages cheaply: probe every page would be len/64K iterations (80k for 5 GiB): fine
    while off < g.len {
        let n = ((g.len - off) as usize).min(page.len());
        g.read_at(off, &mut page[..n]);
        if page[..n].iter().any(|b| *b != 0) {
            out.seek(SeekFrom::Start(off)).map_err(|e| e.to_string())?;
            out.write_all(&page[..n]).map_err(|e| e.to_string())?;
        }
        off += n as u64;
    }
    Ok(())
}

fn cpython_infolist(path: &std::path::Path) -> Result<Vec<(String, u64, u64, u32, u64)>, String> {
    let py = "import sys,zipfile,json\nz=zipfile.ZipFile(sys.argv[1])\nprint(json.dumps([[i.filename,i.file_size,i.compress_size,i.CRC,i.header_offset] for i in z.infolist()]))\n";
    let out = std::process::Command::new("python3").args(["-c", py]).arg(path).output().map_err(|e| format!("harness: python3: {e}"))?;
    if !out.status.success() {
        return Err(format!("CPython zipfile rejects the archive: {}", String::from_utf8_lossy(&out.stderr).lines().last().unwrap_or("")));
    }
    let v: Vec<(String, u64, u64, u32, u64)> = serde_json::from_slice(&out.stdout).map_err(|e| format!("harness: {e}"))?;
    Ok(v)
}

static SEQ: std::sync::atomic::AtomicU64 = std::sync::atomic::AtomicU64::new(0);

fn check_layout(l: &Layout, info: &mut Info) -> Result<(), String> {
    let file = Shared::new(SparseFile::at_position(l.start));
    let mut w = std::mem::ManuallyDrop::new(ZipWriter::new(file.clone()));
    let mut expect: Vec<(String, u64, u32, u64)> = Vec::new(); // name, size, crc, header offset
    let mut refused = false;
    for (name, size, large, method) in &l.entries {
        let header_at = file.0.lock().unwrap().pos;
        w.start_file(name.clone(), opts(*method, *large)).map_err(|e| format!("start_file({name}): {e}"))?;
        match write_zeros(&mut *w, *size) {
            Ok(()) => expect.push((name.clone(), *size, crc_zeros(*size), header_at)),
            Err(e) => {
                if *large || *size < 0xFFFF_FFFF {
                    return Err(format!("writing {size} bytes to {name} (large_file={large}) failed: {e}"));
                }
                info.label("large-write-refused-without-large_file");
                refused = true;
                break;
            }
        }
    }
    if l.comment {
        w.set_comment("zip64 boundary test");
    }
    if refused {
        // the entry was declared small and overflowed: no later finish() may succeed with an
        // entry whose recorded size differs from the bytes accepted
        match catch(|| w.finish()) {
            Err(p) => return Err(format!("finish() after a refused oversized write PANICKED: {p}")),
            Ok(Err(_)) => return Ok(()),
            Ok(Ok(_)) => {
                let p = parse::parse(&file, parse::Opts { lenient: false, allow_leading_gap: true, decode_limit: 0, allow_trailing: false });
                return match p {
                    Err(_) => Err("writing > 4 GiB into an entry not declared large failed, but finish() then returned Ok with an invalid archive".into()),
                    Ok(_) => Err("writing > 4 GiB into an entry not declared large failed, but finish() then returned Ok".into()),
                };
            }
        }
    }
    // an entry of exactly 0xFFFFFFFF bytes without large_file may be accepted or refused at close
    let fin = catch(|| w.finish()).map_err(|p| format!("finish() PANICKED: {p}"))?;
    if let Err(e) = fin {
        let sentinel = l.entries.iter().any(|(_, s, large, _)| !*large && *s >= 0xFFFF_FFFF);
        if sentinel {
            info.label("refused-at-finish");
            return Ok(());
        }
        return Err(format!("finish: {e}"));
    }
    info.nontrivial = true;
    // ---- independent strict parser on the sparse file
    let p = parse::parse(&file, parse::Opts { lenient: false, allow_leading_gap: true, decode_limit: 1 << 16, allow_trailing: false }).map_err(|e| format!("independent parser: {e}"))?;
    if p.entries.len() != expect.len() {
        return Err(format!("parser sees {} entries, wrote {}", p.entries.len(), expect.len()));
    }
    for (e, (name, size, crc, off)) in p.entries.iter().zip(expect.iter()) {
        if e.name != name.as_bytes() || e.usize_ != *size || e.crc != *crc || e.header_start != *off {
            return Err(format!("entry {name}: parser recovers size {} crc {:#x} offset {}, expected size {size} crc {crc:#x} offset {off}", e.usize_, e.crc, e.header_start));
        }
        if e.method == 0 && e.csize != *size {
            return Err(format!("entry {name}: stored entry with compressed size {} != {size}", e.csize));
        }
    }
    // ---- the crate's reader
    {
        let mut rd = file.clone();
        rd.seek(SeekFrom::Start(0)).map_err(|e| e.to_string())?;
        let mut za = zip::ZipArchive::new(rd).map_err(|e| format!("the crate cannot reopen its own ZIP64 archive: {e}"))?;
        if za.len() != expect.len() {
            return Err(format!("reader sees {} entries, wrote {}", za.len(), expect.len()));
        }
        for (i, (name, size, crc, off)) in expect.iter().enumerate() {
            let mut f = za.by_index(i).map_err(|e| format!("by_index({i}): {e}"))?;
            if f.name() != name || f.size() != *size || f.crc32() != *crc || f.header_start() != *off {
                return Err(format!("entry {name}: reader reports size {} crc {:#x} offset {}, expected {size} / {crc:#x} / {off}", f.size(), f.crc32(), f.header_start()));
            }
            // content: all zeros, exact length (read fully: verifies the CRC too)
            let mut buf = vec![0u8; 1 << 20];
            let mut total = 0u64;
            loop {
                let n = f.read(&mut buf).map_err(|e| format!("entry {name}: read fails after {total} bytes: {e}"))?;
                if n == 0 {
                    break;
                }
                if buf[..n].iter().any(|b| *b != 0) {
                    return Err(format!("entry {name}: non-zero byte in content near offset {total}"));
                }
                total += n as u64;
            }
            if total != *size {
                return Err(format!("entry {name}: read {total} bytes, expected {size}"));
            }
        }
        if l.comment && za.comment() != b"zip64 boundary test" {
            return Err("archive comment lost".into());
        }
    }
    // ---- CPython zipfile on a sparse on-disk copy
    if l.cpython {
        let path = std::path::PathBuf::from(format!("/var/tmp/zv-c08-{}-{}.zip", std::process::id(), SEQ.fetch_add(1, std::sync::atomic::Ordering::Relaxed)));
        let r = dump_sparse(&file, &path).and_then(|_| cpython_infolist(&path));
        let _ = std::fs::remove_file(&path);
        let infos = r?;
        if infos.len() != expect.len() {
            return Err(format!("CPython sees {} entries, wrote {}", infos.len(), expect.len()));
        }
        for ((n, fs, _cs, crc, ho), (name, size, ecrc, off)) in infos.iter().zip(expect.iter()) {
            if n != name || fs != size || crc != ecrc || ho != off {
                return Err(format!("entry {name}: CPython recovers size {fs} crc {crc:#x} offset {ho}, expected {size} / {ecrc:#x} / {off}"));
            }
        }
    }
    Ok(())
}

#[derive(Clone, Debug, Serialize, Deserialize, Hash)]
pub struct Subset {
    zip64: [bool; 3],
    zip64_after_others: bool,
    local_zip64: bool,
    desc: u8,
    end_mask: Option<[bool; 3]>,
    prefix: u32,
    /// length of the extensible data sector appended to the ZIP64 end record (its size field is 44 + this)
    #[serde(default)]
    ext: u16,
    /// local-header layout of data-descriptor entries (see EntrySpec::desc_mode)
    #[serde(default)]
    desc_mode: u8,
}

fn check_subset(s: &Subset) -> Result<(), String> {
    let mut a = EntrySpec::simple(b"first.txt", 8, Content::Text { seed: 5, len: 700 });
    let mut b = EntrySpec::simple(b"second.bin", 0, Content::Rand { seed: 6, len: 300 });
    for e in [&mut a, &mut b] {
        e.zip64 = s.zip64;
        e.local_zip64 = s.local_zip64;
        e.desc = [Desc::None, Desc::Sig32, Desc::Sig64][s.desc as usize % 3];
        e.desc_mode = s.desc_mode;
        let other = Extra { id: 0x5455, data: vec![3, 1, 2, 3, 4] };
        if s.zip64_after_others {
            e.central_extra_before.push(other);
        } else {
            e.central_extra_after.push(other);
        }
    }
    let mut spec = ArchiveSpec::plain(vec![a, b]);
    spec.zip64_end = s.end_mask;
    if s.end_mask.is_some() {
        spec.zip64_ext = (0..s.ext).map(|i| (i % 251) as u8 | 0x80).collect();
    }
    spec.prefix = Content::Rep { byte: 0x11, len: s.prefix };
    let bt = build::build(&spec).map_err(|e| format!("harness: {e}"))?;
    super::c03::check_spec(&spec, &bt, &[4096])
}

/// A foreign (independently laid out) archive with genuinely large stored zero-run entries.
fn foreign_large(sizes: &[u64]) -> (Shared<SparseFile>, Vec<(String, u64, u32, u64)>) {
    let pairs: Vec<(u64, u64)> = sizes.iter().map(|s| (*s, *s)).collect();
    let (f, e) = foreign_large2(&pairs);
    (f, e.into_iter().map(|(n, u, _c, crc, off)| (n, u, crc, off)).collect())
}

/// entries given as (uncompressed size, compressed size); method 0 when equal, 8 otherwise (the
/// payload is a zero run: not a valid deflate stream, it is never decoded)
pub fn foreign_large2(sizes: &[(u64, u64)]) -> (Shared<SparseFile>, Vec<(String, u64, u64, u32, u64)>) {
    foreign_large3(sizes, 0)
}

/// `prefix` > 0: the archive sits behind that many bytes of other data and all recorded offsets are
/// relative to the archive's own start (self-extractor layout); the expected header offsets returned
/// are absolute positions in the file
pub fn foreign_large3(sizes: &[(u64, u64)], prefix: u64) -> (Shared<SparseFile>, Vec<(String, u64, u64, u32, u64)>) {
    let f = Shared::new(SparseFile::new());
    let mut expect = Vec::new();
    let mut central = Vec::new();
    {
        let mut g = f.0.lock().unwrap();
        if prefix > 0 {
            g.write_all(b"#!/bin/sh\nexit 0\n").unwrap();
            g.seek(SeekFrom::Start(prefix)).unwrap();
            g.len = g.len.max(prefix);
        }
        for (i, &(size, csize)) in sizes.iter().enumerate() {
            let name = format!("big{i}.bin");
            let abs = g.pos;
            let off = g.pos - prefix;
            let crc = crc_zeros(size);
            let big = size >= 0xFFFF_FFFF || csize >= 0xFFFF_FFFF;
            let method: u16 = if size == csize { 0 } else { 8 };
            let mut h = Vec::new();
            h.extend_from_slice(&0x04034b50u32.to_le_bytes());
            h.extend_from_slice(&45u16.to_le_bytes());
            h.extend_from_slice(&0u16.to_le_bytes());
            h.extend_from_slice(&method.to_le_bytes());
            h.extend_from_slice(&0u16.to_le_bytes());
            h.extend_from_slice(&0x21u16.to_le_bytes());
            h.extend_from_slice(&crc.to_le_bytes());
            let s32 = if big { 0xFFFFFFFFu32 } else { size as u32 };
            let c32 = if big { 0xFFFFFFFFu32 } else { csize as u32 };
            h.extend_from_slice(&c32.to_le_bytes());
            h.extend_from_slice(&s32.to_le_bytes());
            h.extend_from_slice(&(name.len() as u16).to_le_bytes());
            h.extend_from_slice(&(if big { 20u16 } else { 0 }).to_le_bytes());
            h.extend_from_slice(name.as_bytes());
            if big {
                h.extend_from_slice(&1u16.to_le_bytes());
                h.extend_from_slice(&16u16.to_le_bytes());
                h.extend_from_slice(&size.to_le_bytes());
                h.extend_from_slice(&csize.to_le_bytes());
            }
            g.write_all(&h).unwrap();
            let p = g.pos + csize;
            g.seek(SeekFrom::Start(p)).unwrap();
            g.len = g.len.max(p);
            // central record
            let mut z = Vec::new();
            if big {
                z.extend_from_slice(&size.to_le_bytes());
                z.extend_from_slice(&csize.to_le_bytes());
            }
            let off_big = off >= 0xFFFF_FFFF;
            if off_big {
                z.extend_from_slice(&off.to_le_bytes());
            }
            let mut c = Vec::new();
            c.extend_from_slice(&0x02014b50u32.to_le_bytes());
            c.extend_from_slice(&((3u16 << 8) | 45).to_le_bytes());
            c.extend_from_slice(&45u16.to_le_bytes());
            c.extend_from_slice(&0u16.to_le_bytes());
            c.extend_from_slice(&method.to_le_bytes());
            c.extend_from_slice(&0u16.to_le_bytes());
            c.extend_from_slice(&0x21u16.to_le_bytes());
            c.extend_from_slice(&crc.to_le_bytes());
            c.extend_from_slice(&c32.to_le_bytes());
            c.extend_from_slice(&s32.to_le_bytes());
            c.extend_from_slice(&(name.len() as u16).to_le_bytes());
            c.extend_from_slice(&(if z.is_empty() { 0u16 } else { 4 + z.len() as u16 }).to_le_bytes());
            c.extend_from_slice(&[0u8; 6]);
            c.extend_from_slice(&(0o100644u32 << 16).to_le_bytes());
            c.extend_from_slice(&(if off_big { 0xFFFFFFFFu32 } else { off as u32 }).to_le_bytes());
            c.extend_from_slice(name.as_bytes());
            if !z.is_empty() {
                c.extend_from_slice(&1u16.to_le_bytes());
                c.extend_from_slice(&(z.len() as u16).to_le_bytes());
                c.extend_from_slice(&z);
            }
            central.push(c);
            expect.push((name, size, csize, crc, abs));
        }
        let cd_start = g.pos - prefix;
        for c in &central {
            g.write_all(c).unwrap();
        }
        let cd_end = g.pos - prefix;
        let mut t = Vec::new();
        t.extend_from_slice(&0x06064b50u32.to_le_bytes());
        t.extend_from_slice(&44u64.to_le_bytes());
        t.extend_from_slice(&45u16.to_le_bytes());
        t.extend_from_slice(&45u16.to_le_bytes());
        t.extend_from_slice(&0u32.to_le_bytes());
        t.extend_from_slice(&0u32.to_le_bytes());
        t.extend_from_slice(&(sizes.len() as u64).to_le_bytes());
        t.extend_from_slice(&(sizes.len() as u64).to_le_bytes());
        t.extend_from_slice(&(cd_end - cd_start).to_le_bytes());
        t.extend_from_slice(&cd_start.to_le_bytes());
        t.extend_from_slice(&0x07064b50u32.to_le_bytes());
        t.extend_from_slice(&0u32.to_le_bytes());
        t.extend_from_slice(&cd_end.to_le_bytes());
        t.extend_from_slice(&1u32.to_le_bytes());
        t.extend_from_slice(&0x06054b50u32.to_le_bytes());
        t.extend_from_slice(&[0u8; 4]);
        t.extend_from_slice(&(sizes.len() as u16).to_le_bytes());
        t.extend_from_slice(&(sizes.len() as u16).to_le_bytes());
        t.extend_from_slice(&((cd_end - cd_start) as u32).to_le_bytes());
        t.extend_from_slice(&0xFFFFFFFFu32.to_le_bytes());
        t.extend_from_slice(&0u16.to_le_bytes());
        g.write_all(&t).unwrap();
    }
    (f, expect)
}

fn check_foreign_large(sizes: &[u64]) -> Result<(), String> {
    let (f, expect) = foreign_large(sizes);
    // the independent parser accepts the hand-laid-out archive (keeps this producer honest)
    parse::parse(&f, parse::Opts { lenient: true, allow_leading_gap: true, decode_limit: 0, allow_trailing: false }).map_err(|e| format!("harness: foreign large archive does not parse: {e}"))?;
    let mut rd = f.clone();
    rd.seek(SeekFrom::Start(0)).map_err(|e| e.to_string())?;
    let mut za = zip::ZipArchive::new(rd).map_err(|e| format!("reader refuses a well-formed ZIP64 archive from another producer: {e}"))?;
    if za.len() != expect.len() {
        return Err(format!("reader sees {} entries, archive has {}", za.len(), expect.len()));
    }
    for (i, (name, size, crc, off)) in expect.iter().enumerate() {
        let mut fz = za.by_index(i).map_err(|e| format!("by_index({i}): {e}"))?;
        if fz.name() != name || fz.size() != *size || fz.compressed_size() != *size || fz.crc32() != *crc || fz.header_start() != *off {
            return Err(format!("entry {name}: reader reports size {} csize {} crc {:#x} offset {}, expected {size} / {size} / {crc:#x} / {off}", fz.size(), fz.compressed_size(), fz.crc32(), fz.header_start()));
        }
        let mut buf = vec![0u8; 1 << 20];
        let mut total = 0u64;
        loop {
            let n = fz.read(&mut buf).map_err(|e| format!("entry {name}: read fails after {total} bytes: {e}"))?;
            if n == 0 {
                break;
            }
            total += n as u64;
        }
        if total != *size {
            return Err(format!("entry {name}: read {total} bytes, expected {size}"));
        }
    }
    Ok(())
}

/// new_append onto a foreign ZIP64 archive whose entries have sizes/offsets beyond 4 GiB (and
/// uncompressed != compressed), add one small entry, finish: every value must survive.
fn check_append_large(sizes: &[(u64, u64)]) -> Result<(), String> {
    check_append_large_p(sizes, 0)
}

pub fn check_append_large_p(sizes: &[(u64, u64)], prefix: u64) -> Result<(), String> {
    let (f, expect) = foreign_large3(sizes, prefix);
    {
        let mut rw = f.clone();
        rw.seek(SeekFrom::Start(0)).map_err(|e| e.to_string())?;
        let mut w = std::mem::ManuallyDrop::new(ZipWriter::new_append(rw).map_err(|e| format!("new_append refuses a well-formed ZIP64 archive: {e}"))?);
        w.start_file("appended.txt", opts(8, false)).map_err(|e| format!("start_file: {e}"))?;
        w.write_all(b"appended after > 4 GiB").map_err(|e| format!("write: {e}"))?;
        w.finish().map_err(|e| format!("finish: {e}"))?;
    }
    let p = parse::parse(&f, parse::Opts { lenient: true, allow_leading_gap: true, decode_limit: 0, allow_trailing: true }).map_err(|e| format!("independent parser rejects the appended ZIP64 archive: {e}"))?;
    if p.entries.len() != expect.len() + 1 {
        return Err(format!("parser sees {} entries, expected {}", p.entries.len(), expect.len() + 1));
    }
    let mut rd = f.clone();
    rd.seek(SeekFrom::Start(0)).map_err(|e| e.to_string())?;
    let mut za = zip::ZipArchive::new(rd).map_err(|e| format!("the crate cannot reopen the appended archive: {e}"))?;
    for (i, (name, us, cs, crc, off)) in expect.iter().enumerate() {
        let e = &p.entries[i];
        if e.usize_ != *us || e.csize != *cs || e.header_start != *off || e.crc != *crc {
            return Err(format!("after append, entry {name}: independent parser recovers usize {} csize {} offset {}, expected {us} / {cs} / {off}", e.usize_, e.csize, e.header_start));
        }
        let fz = za.by_index_raw(i).map_err(|e| format!("by_index_raw({i}): {e}"))?;
        if fz.size() != *us || fz.compressed_size() != *cs || fz.header_start() != *off {
            return Err(format!("after append, entry {name}: reader reports usize {} csize {} offset {}, expected {us} / {cs} / {off}", fz.size(), fz.compressed_size(), fz.header_start()));
        }
    }
    let mut last = za.by_index(expect.len()).map_err(|e| format!("appended entry: {e}"))?;
    let mut v = Vec::new();
    last.read_to_end(&mut v).map_err(|e| format!("appended entry read: {e}"))?;
    if v != b"appended after > 4 GiB" {
        return Err("appended entry content differs".into());
    }
    Ok(())
}

const G: u64 = 1 << 32;

pub fn run(ctx: &mut Ctx) {
    ctx.rule("layouts: the crate's writer on a sparse in-memory sink (64 KiB pages) - start positions / header offsets / central directory offsets on the grid {2^32-2, 2^32-1, 2^32, 2^32+1}; stored and deflated zero-run entries of {2^32-2, 2^32-1, 2^32, 2^32+1, 5 GiB} bytes with and without large_file, with neighbours and comment; judged by the independent strict parser reading the sparse file, by the crate's reader (every byte read back) and by CPython zipfile on a hole-punched on-disk copy; independent CRC of zero runs by CRC combination. Writing > 4 GiB without large_file must fail and finish() must not succeed afterwards. counts: 65534..65537 (thorough also 70000, 131072) entries. subsets: foreign archives with ZIP64 values forced on small files in all 2^3 field subsets x record order x local ZIP64 x descriptors x end-record masks x prefix (exhaustive product). foreign_large: hand-laid-out ZIP64 archive with genuinely > 4 GiB stored entries. Non-trivial = at least one value >= 0xFFFF (count) or >= 0xFFFFFFFE (size/offset).");
    ctx.assume("central directory SIZE >= 4 GiB (tens of millions of entries) and compressed > 4 GiB with uncompressed < 4 GiB (needs 4 GiB of non-uniform pages) are not realised: outside what the sandbox can hold; stated in DESIGN.md");
    ctx.assume("multi-GiB cases cost seconds each: the matrix is a grid of boundary values, not a sweep");
    let small = |n: &str| (n.to_string(), 11u64, false, 0u16);
    let mut layouts: Vec<Layout> = Vec::new();
    // header offsets on the grid: first entry starts exactly there; and the second entry lands there
    for t in [G - 2, G - 1, G, G + 1] {
        layouts.push(Layout { start: t, entries: vec![small("a"), small("b")], comment: false, cpython: true });
        // first record is 30 + 1 + 11 = 42 bytes
        layouts.push(Layout { start: t - 42, entries: vec![small("a"), small("b"), ("c".into(), 500, true, 8)], comment: true, cpython: true });
        // central directory offset on the grid: one record of 42 bytes ends at t
        layouts.push(Layout { start: t - 42, entries: vec![small("a")], comment: false, cpython: true });
    }
    let quick_sizes: Vec<(u64, bool, u16)> = vec![(G + 1, true, 0), (G + 1, false, 0), (G + 1, false, 8)];
    let mut thorough_sizes: Vec<(u64, bool, u16)> = Vec::new();
    for s in [G - 2, G - 1, G, G + 1, 5 << 30] {
        for large in [true, false] {
            thorough_sizes.push((s, large, 0));
        }
    }
    thorough_sizes.push((5 << 30, true, 8));
    thorough_sizes.push((G - 1, true, 8));
    thorough_sizes.push((G + 1, false, 8));
    thorough_sizes.push((5 << 30, false, 8));
    let sizes = ctx.q(quick_sizes, thorough_sizes);
    for (s, large, m) in sizes {
        layouts.push(Layout { start: 0, entries: vec![small("a"), ("big".into(), s, large, m), small("z")], comment: true, cpython: true });
    }
    if ctx.tier == crate::engine::Tier::Thorough {
        // a big entry whose header sits exactly at 0xFFFFFFFF, and one starting beyond 4 GiB
        layouts.push(Layout { start: G - 1, entries: vec![("big".into(), G + 5, true, 0), small("z")], comment: false, cpython: true });
        layouts.push(Layout { start: 5 << 30, entries: vec![small("a"), ("big".into(), G, true, 0)], comment: true, cpython: true });
    }
    ctx.max_shrink_iters = 0;
    let saved_threads = ctx.threads;
    ctx.threads = ctx.threads.min(8); // each multi-GiB case streams gigabytes through memcpy
    ctx.enumerate::<Layout>("layouts", layouts.len() as u64, &|i| layouts[i as usize].clone(), &|l: &Layout, info: &mut Info| {
        info.label_if(l.start >= G - 64, "start-near-or-beyond-4GiB");
        info.label_if(l.entries.iter().any(|e| e.1 >= G - 2), "entry>=4GiB-2");
        match catch(|| check_layout(l, info)) {
            Ok(r) => Verdict::from_result(r),
            Err(p) => Verdict::Fail(format!("PANIC: {p}")),
        }
    });
    ctx.threads = saved_threads;
    // counts
    #[derive(Clone, Debug, Serialize, Deserialize, Hash)]
    struct Count(u32);
    let counts: Vec<u32> = ctx.q(vec![65534, 65535, 65536, 65537], vec![65534, 65535, 65536, 65537, 70000, 131072]);
    ctx.enumerate::<Count>("counts", counts.len() as u64, &|i| Count(counts[i as usize]), &|c: &Count, info: &mut Info| {
        info.nontrivial = c.0 >= 0xFFFF;
        let r = catch(|| -> Result<(), String> {
            let mut sink = Cursor::new(Vec::new());
            {
                let mut w = std::mem::ManuallyDrop::new(ZipWriter::new(&mut sink));
                for i in 0..c.0 {
                    w.start_file(format!("e{i}"), opts(0, false)).map_err(|e| format!("start_file #{i}: {e}"))?;
                }
                w.finish().map_err(|e| format!("finish: {e}"))?;
            }
            let bytes = sink.into_inner();
            let p = parse::parse(&bytes[..], parse::Opts::strict()).map_err(|e| format!("{} entries: independent parser: {e}", c.0))?;
            if p.entries.len() != c.0 as usize {
                return Err(format!("parser sees {} of {} entries", p.entries.len(), c.0));
            }
            let za = zip::ZipArchive::new(Cursor::new(&bytes[..])).map_err(|e| format!("{} entries: the crate cannot reopen its archive: {e}", c.0))?;
            if za.len() != c.0 as usize {
                return Err(format!("reader sees {} of {} entries", za.len(), c.0));
            }
            let path = std::path::PathBuf::from(format!("/var/tmp/zv-c08-{}-{}.zip", std::process::id(), SEQ.fetch_add(1, std::sync::atomic::Ordering::Relaxed)));
            std::fs::write(&path, &bytes).map_err(|e| format!("harness: {e}"))?;
            let r = cpython_infolist(&path);
            let _ = std::fs::remove_file(&path);
            let infos = r?;
            if infos.len() != c.0 as usize {
                return Err(format!("CPython sees {} of {} entries", infos.len(), c.0));
            }
            Ok(())
        });
        match r {
            Ok(r) => Verdict::from_result(r),
            Err(p) => Verdict::Fail(format!("PANIC: {p}")),
        }
    });
    // foreign subsets (exhaustive product)
    let masks: Vec<Option<[bool; 3]>> = {
        let mut v = vec![None];
        for m in 0..8u8 {
            v.push(Some([m & 1 != 0, m & 2 != 0, m & 4 != 0]));
        }
        v
    };
    let total = (8 * 2 * 2 * 3 * masks.len() * 2 * 3 * 3) as u64;
    ctx.enumerate::<Subset>(
        "subsets",
        total,
        &|k| {
            let mut k = k as usize;
            let z = k % 8;
            k /= 8;
            let after = k % 2 == 1;
            k /= 2;
            let lz = k % 2 == 1;
            k /= 2;
            let desc = (k % 3) as u8;
            k /= 3;
            let em = masks[k % masks.len()];
            k /= masks.len();
            let prefix = if k % 2 == 1 { 1234 } else { 0 };
            k /= 2;
            let ext = [0u16, 22, 300][k % 3];
            k /= 3;
            Subset { zip64: [z & 1 != 0, z & 2 != 0, z & 4 != 0], zip64_after_others: after, local_zip64: lz, desc, end_mask: em, prefix, ext, desc_mode: (k % 3) as u8 }
        },
        &|s: &Subset, info: &mut Info| {
            info.nontrivial = s.zip64.iter().any(|x| *x) || s.end_mask.is_some() || s.local_zip64;
            match catch(|| check_subset(s)) {
                Ok(r) => Verdict::from_result(r),
                Err(p) => Verdict::Fail(format!("PANIC: {p}")),
            }
        },
    );
    #[derive(Clone, Debug, Serialize, Deserialize, Hash)]
    struct FL(Vec<u64>);
    let fl: Vec<Vec<u64>> = ctx.q(vec![vec![10, G + 1, 7]], vec![vec![10, G + 1, 7], vec![G - 1, 3, G], vec![5 << 30, 5 << 30], vec![G - 2, G - 1]]);
    ctx.enumerate::<FL>("foreign_large", fl.len() as u64, &|i| FL(fl[i as usize].clone()), &|f: &FL, info: &mut Info| {
        info.nontrivial = true;
        match catch(|| check_foreign_large(&f.0)) {
            Ok(r) => Verdict::from_result(r),
            Err(p) => Verdict::Fail(format!("PANIC: {p}")),
        }
    });
    #[derive(Clone, Debug, Serialize, Deserialize, Hash)]
    struct AL(Vec<(u64, u64)>);
    let al: Vec<Vec<(u64, u64)>> = ctx.q(vec![vec![(5 << 30, (9 << 30) / 2), (20, 20)]], vec![vec![(5 << 30, (9 << 30) / 2), (20, 20)], vec![(7, 7), (G + 3, G + 1), (G - 1, G + 9)], vec![(G, 100), (100, 100)], vec![(300, G + 2)]]);
    ctx.enumerate::<AL>("append_large", al.len() as u64, &|i| AL(al[i as usize].clone()), &|a: &AL, info: &mut Info| {
        info.nontrivial = true;
        match catch(|| check_append_large(&a.0)) {
            Ok(r) => Verdict::from_result(r),
            Err(p) => Verdict::Fail(format!("PANIC: {p}")),
        }
    });
    // the same behind prepended data (offsets recorded relative to the archive's start): the rewritten
    // central directory must still lead to every old entry, in particular to those whose header lies
    // beyond 4 GiB and whose central record already carried a ZIP64 record
    #[derive(Clone, Debug, Serialize, Deserialize, Hash)]
    struct ALP {
        sizes: Vec<(u64, u64)>,
        prefix: u64,
    }
    let alp: Vec<ALP> = ctx.q(
        vec![ALP { sizes: vec![(G + 5, G + 5), (9, 9), (300, 300)], prefix: 4096 }, ALP { sizes: vec![(G - 3000, G - 3000), (10, 10), (11, 11)], prefix: 3000 }],
        vec![ALP { sizes: vec![(G + 5, G + 5), (9, 9), (300, 300)], prefix: 4096 }, ALP { sizes: vec![(G - 3000, G - 3000), (10, 10), (11, 11)], prefix: 3000 }, ALP { sizes: vec![(5 << 30, (9 << 30) / 2), (20, 20)], prefix: 1 }, ALP { sizes: vec![(7, 7), (G + 3, G + 1), (G - 1, G + 9)], prefix: 70000 }],
    );
    ctx.enumerate::<ALP>("append_large_prefixed", alp.len() as u64, &|i| alp[i as usize].clone(), &|a: &ALP, info: &mut Info| {
        info.nontrivial = true;
        match catch(|| check_append_large_p(&a.sizes, a.prefix)) {
            Ok(r) => Verdict::from_result(r),
            Err(p) => Verdict::Fail(format!("PANIC: {p}")),
        }
    });
    // entries whose two sizes lie on different sides of 4 GiB, written (by raw copy from a hand-laid-out
    // sparse source) at header offsets below and beyond 4 GiB: every combination of which of the three
    // ZIP64 values the central record has to carry
    #[derive(Clone, Debug, Serialize, Deserialize, Hash)]
    struct SC(Vec<(u64, u64)>, u64);
    let sc: Vec<SC> = vec![
        SC(vec![((5 << 30) + 123, 1500)], G + 4242),
        SC(vec![((5 << 30) + 123, 1500)], 0),
        SC(vec![(G - 1, 77), (G, 78), (G + 1, 79)], G - 200),
        SC(vec![(12, 12), (G + 7, 9)], (7 << 32) + 1),
    ];
    ctx.enumerate::<SC>("straddle_copy", sc.len() as u64, &|i| sc[i as usize].clone(), &|c: &SC, info: &mut Info| {
        info.nontrivial = true;
        match catch(|| super::c14::check_straddle(&c.0, c.1)) {
            Ok(r) => Verdict::from_result(r),
            Err(p) => Verdict::Fail(format!("PANIC: {p}")),
        }
    });
    ctx.max_shrink_iters = 2048;
}
