//! C09 — results do not depend on how I/O is chunked (reader and writer side).
use super::common::read_with_bufs;
use crate::engine::{Ctx, Info, Verdict};
use crate::gen::{self, Op, Program};
use crate::seeds::{self, Seed};
use crate::sio::{ChunkReader, NoSeek, ShortWriter};
use crate::util::catch;
use proptest::prelude::*;
use serde::{Deserialize, Serialize};
use std::io::{BufReader, Cursor, Read, Seek, Write};
use zip::ZipWriter;

/// What a consumer observes from an archive: per entry metadata + content-or-error.
impl EObs {
    pub fn failed() -> EObs {
        EObs { name: "<failed>".into(), size: u64::MAX, csize: 0, crc: 0, method: 0, dos: (0, 0), mode: None, content: Err(()), comment: String::new(), extra: Vec::new() }
    }
    pub fn is_failed(&self) -> bool {
        self.size == u64::MAX || self.name.starts_with("<open failed")
    }
    pub fn content_failed(&self) -> bool {
        self.content.is_err()
    }
}

#[derive(Debug, PartialEq, Eq, Clone)]
pub struct EObs {
    name: String,
    size: u64,
    csize: u64,
    crc: u32,
    method: u16,
    dos: (u16, u16),
    mode: Option<u32>,
    content: Result<Vec<u8>, ()>,
    comment: String,
    extra: Vec<u8>,
}

fn obs_file(f: &mut zip::read::ZipFile<'_>, bufs: &[usize]) -> Result<EObs, String> {
    obs_file_x(f, bufs, false, 0)
}

/// `persist`: a caller that does not give up at the first read error but calls read() a few more times on
/// the same entry (a retrying copy loop); what those calls return is not judged, they must not panic
fn obs_file_x(f: &mut zip::read::ZipFile<'_>, bufs: &[usize], persist: bool, api: u8) -> Result<EObs, String> {
    let lm = f.last_modified();
    let mut o = EObs { name: f.name().to_string(), size: f.size(), csize: f.compressed_size(), crc: f.crc32(), method: super::common::method_id(f.compression()), dos: (lm.datepart(), lm.timepart()), mode: f.unix_mode(), content: Err(()), comment: f.comment().to_string(), extra: f.extra_data().to_vec() };
    let hint = f.size();
    match if api == 0 { read_with_bufs(f, bufs, 1 << 26) } else { super::common::read_with_api(f, bufs, 1 << 26, api % 7, hint) } {
        Ok(c) => o.content = Ok(c),
        Err(e) if e.starts_with("read error") => {
            if std::env::var_os("ZV_DEBUG").is_some() {
                eprintln!("[debug] entry {:?}: {e}", o.name);
            }
            o.content = Err(());
            if persist {
                let mut scratch = [0u8; 64];
                let want = bufs.iter().copied().find(|b| *b > 0).unwrap_or(64).min(64);
                for _ in 0..6 {
                    let _ = f.read(&mut scratch[..want]);
                }
            }
        }
        Err(e) => return Err(e), // post-EOF / zero-length read contract broken
    }
    Ok(o)
}

pub fn observe_seekable<R: Read + Seek>(r: R, passwords: &[Option<Vec<u8>>], bufs: &[usize]) -> Result<Result<Vec<EObs>, ()>, String> {
    observe_seekable_x(r, passwords, bufs, false)
}

pub fn observe_seekable_x<R: Read + Seek>(r: R, passwords: &[Option<Vec<u8>>], bufs: &[usize], persist: bool) -> Result<Result<Vec<EObs>, ()>, String> {
    observe_seekable_api(r, passwords, bufs, persist, 0)
}

/// `api` > 0: the caller finishes each entry through another `Read` entry point (common::READ_APIS) and
/// retries `Interrupted`
pub fn observe_seekable_api<R: Read + Seek>(r: R, passwords: &[Option<Vec<u8>>], bufs: &[usize], persist: bool, api: u8) -> Result<Result<Vec<EObs>, ()>, String> {
    let mut za = match zip::ZipArchive::new(r) {
        Ok(z) => z,
        Err(_) => return Ok(Err(())),
    };
    let mut v = Vec::new();
    for i in 0..za.len() {
        let pw = passwords.get(i).cloned().flatten();
        let f = match &pw {
            Some(p) => match za.by_index_decrypt(i, p) {
                Ok(Ok(f)) => Ok(f),
                Ok(Err(_)) => Err(()),
                Err(_) => Err(()),
            },
            None => za.by_index(i).map_err(|_| ()),
        };
        match f {
            Ok(mut f) => v.push(obs_file_x(&mut f, bufs, persist, api)?),
            Err(()) => v.push(EObs { name: format!("<open failed {i}>"), size: 0, csize: 0, crc: 0, method: 0, dos: (0, 0), mode: None, content: Err(()), comment: String::new(), extra: Vec::new() }),
        }
    }
    // archive-level observations as a last pseudo entry: entry count, offset(), archive comment
    v.push(EObs { name: "<archive>".into(), size: za.len() as u64, csize: za.offset(), crc: 0, method: 0, dos: (0, 0), mode: None, content: Ok(Vec::new()), comment: String::from_utf8_lossy(za.comment()).into_owned(), extra: za.comment().to_vec() });
    Ok(Ok(v))
}

pub fn observe_stream<R: Read>(r: R, bufs: &[usize]) -> Result<(Vec<EObs>, bool), String> {
    observe_stream_partial(r, bufs, &[0])
}

/// `consume[i % len]`: 0 = read the entry to the end, 1 = read nothing, 2 = read half of it
pub fn observe_stream_partial<R: Read>(r: R, bufs: &[usize], consume: &[u8]) -> Result<(Vec<EObs>, bool), String> {
    observe_stream_api(r, bufs, consume, 0)
}

pub fn observe_stream_api<R: Read>(mut r: R, bufs: &[usize], consume: &[u8], api: u8) -> Result<(Vec<EObs>, bool), String> {
    let mut v = Vec::new();
    loop {
        match zip::read::read_zipfile_from_stream(&mut r) {
            Ok(Some(mut f)) => {
                let mode = consume[v.len() % consume.len()];
                if mode == 0 {
                    v.push(obs_file_x(&mut f, bufs, false, api)?)
                } else {
                    let want = if mode == 1 { 0 } else { (f.size() / 2) as usize };
                    if bufs.contains(&0) {
                        // a zero-length read before the entry is abandoned (it transfers nothing and changes nothing)
                        match f.read(&mut [0u8; 0]) {
                            Ok(0) | Err(_) => {}
                            Ok(n) => return Err(format!("zero-length read returned {n}")),
                        }
                    }
                    let mut got = vec![0u8; want];
                    let mut n = 0;
                    while n < want {
                        match f.read(&mut got[n..]) {
                            Err(e) if e.kind() == std::io::ErrorKind::Interrupted => continue,
                            Ok(0) | Err(_) => break,
                            Ok(k) => n += k,
                        }
                    }
                    got.truncate(n);
                    let lm = f.last_modified();
                    v.push(EObs { name: f.name().to_string(), size: f.size(), csize: f.compressed_size(), crc: f.crc32(), method: super::common::method_id(f.compression()), dos: (lm.datepart(), lm.timepart()), mode: f.unix_mode(), content: Ok(got), comment: f.comment().to_string(), extra: f.extra_data().to_vec() });
                }
            }
            Ok(None) => return Ok((v, true)),
            Err(_) => return Ok((v, false)),
        }
        if v.len() > 10000 {
            return Err("harness: runaway stream".into());
        }
    }
}

#[derive(Clone, Debug, Serialize, Deserialize, Hash)]
pub struct Sched {
    seed: usize,
    /// chunk schedule for the underlying reader (empty = unlimited)
    schedule: Vec<usize>,
    /// a read never crosses these absolute positions
    cuts: Vec<u64>,
    /// 0 = ChunkReader directly, n>0 = BufReader with capacity n on top
    bufreader: usize,
    caller: Vec<usize>,
    /// which `Read` entry point the caller finishes each entry with (index into common::READ_APIS)
    #[serde(default)]
    api: u8,
    /// n > 0: every n-th read call of the underlying reader first reports `Interrupted`
    #[serde(default)]
    intr: usize,
}

/// read_to_string only completes on valid UTF-8 (and the caller's earlier plain reads may have split a
/// multi-byte character): entries whose (reference) content is not pure ASCII are compared on metadata only
/// when the caller used it
fn norm_api(v: Result<Vec<EObs>, ()>, reference: &Result<Vec<EObs>, ()>, api: u8) -> Result<Vec<EObs>, ()> {
    if api as usize % super::common::READ_APIS.len() != 6 {
        return v;
    }
    let Ok(r) = reference else { return v };
    v.map(|v| {
        v.into_iter()
            .enumerate()
            .map(|(i, mut e)| {
                if let Some(Ok(c)) = r.get(i).map(|x| &x.content) {
                    if !c.is_ascii() {
                        e.content = Err(());
                    }
                }
                e
            })
            .collect()
    })
}

fn check_reader(seed: &Seed, s: &Sched, info: &mut Info) -> Result<(), String> {
    let bufs: &[usize] = if s.caller.is_empty() { &[4096] } else { &s.caller };
    // 7 = the plain read() loop of READ_APIS[0], but one that retries `Interrupted` (api 0 = the legacy loop, used by C11)
    let api = 7 + s.api % 7;
    // reference: plain Cursor, read_to_end-style
    let ref_seek = observe_seekable(Cursor::new(&seed.bytes[..]), &seed.passwords, &[65536])?;
    let start = seed.built.as_ref().map(|b| b.prefix_len as usize).unwrap_or(0);
    let ref_stream = observe_stream(Cursor::new(&seed.bytes[start..]), &[65536])?;
    // chunked
    let cr = ChunkReader::new(Cursor::new(&seed.bytes[..]), s.schedule.clone(), s.cuts.clone()).with_interrupts(s.intr);
    let shorts = cr.short_reads.clone();
    let intrs = cr.interrupts.clone();
    let got = if s.bufreader > 0 { observe_seekable_api(BufReader::with_capacity(s.bufreader, cr), &seed.passwords, bufs, false, api)? } else { observe_seekable_api(cr, &seed.passwords, bufs, false, api)? };
    if norm_api(got.clone(), &ref_seek, s.api) != norm_api(ref_seek.clone(), &ref_seek, s.api) {
        return Err(describe_diff("seekable reader", &ref_seek, &got, s));
    }
    let cuts2: Vec<u64> = s.cuts.iter().filter(|c| **c >= start as u64).map(|c| c - start as u64).collect();
    let cr = ChunkReader::new(Cursor::new(&seed.bytes[start..]), s.schedule.clone(), cuts2).with_interrupts(s.intr);
    let shorts2 = cr.short_reads.clone();
    let got_s = if s.bufreader > 0 { observe_stream_api(NoSeek(BufReader::with_capacity(s.bufreader, cr)), bufs, &[0], api)? } else { observe_stream_api(NoSeek(cr), bufs, &[0], api)? };
    let sn = |x: (Vec<EObs>, bool), r: &(Vec<EObs>, bool)| (norm_api(Ok(x.0), &Ok(r.0.clone()), s.api).unwrap(), x.1);
    // partial consumption: whatever the consumer leaves unread must be skipped correctly however
    // the underlying reader chunks its reads
    for pat in [&[1u8, 0][..], &[2, 1, 0][..]] {
        let rp = observe_stream_partial(Cursor::new(&seed.bytes[start..]), &[65536], pat)?;
        let cuts3: Vec<u64> = s.cuts.iter().filter(|c| **c >= start as u64).map(|c| c - start as u64).collect();
        // no `Interrupted` here: what a partially read entry leaves behind is skipped inside Drop, whose
        // documented reaction to ANY error of the underlying reader is a panic (not a Result-returning call)
        let cr = ChunkReader::new(Cursor::new(&seed.bytes[start..]), s.schedule.clone(), cuts3);
        let gp = observe_stream_api(NoSeek(cr), bufs, pat, api)?;
        if sn(gp.clone(), &rp) != sn(rp.clone(), &rp) {
            return Err(format!("streaming reader with partial consumption {pat:?}: schedule {:?} cuts {:?} yields {} entries (complete={}) / different data; unchunked reference {} entries (complete={})", s.schedule, s.cuts, gp.0.len(), gp.1, rp.0.len(), rp.1));
        }
    }
    if sn(got_s.clone(), &ref_stream) != sn(ref_stream.clone(), &ref_stream) {
        return Err(format!("streaming reader: with schedule {:?} cuts {:?} bufreader {} caller buffers {:?} (caller API {}, Interrupted every {}) the stream yields {} entries (complete={}) / different data; reference {} entries (complete={})", s.schedule, s.cuts, s.bufreader, bufs, super::common::READ_APIS[s.api as usize % 7], s.intr, got_s.0.len(), got_s.1, ref_stream.0.len(), ref_stream.1));
    }
    let n = shorts.load(std::sync::atomic::Ordering::Relaxed) + shorts2.load(std::sync::atomic::Ordering::Relaxed) + intrs.load(std::sync::atomic::Ordering::Relaxed);
    info.nontrivial = n > 0 || bufs.iter().any(|b| *b < 64) || s.api % 7 != 0;
    Ok(())
}

fn describe_diff(what: &str, a: &Result<Vec<EObs>, ()>, b: &Result<Vec<EObs>, ()>, s: &Sched) -> String {
    let ctx = format!("schedule {:?} cuts {:?} bufreader {} caller buffers {:?}, caller API {}, Interrupted every {}", s.schedule, s.cuts, s.bufreader, s.caller, super::common::READ_APIS[s.api as usize % 7], s.intr);
    match (a, b) {
        (Ok(x), Ok(y)) => {
            for (i, (p, q)) in x.iter().zip(y.iter()).enumerate() {
                if p != q {
                    let why = if p.content != q.content { format!("content/error-ness differs (reference ok={}, chunked ok={})", p.content.is_ok(), q.content.is_ok()) } else { "metadata differs".to_string() };
                    return format!("{what}: entry {i} ({:?}): {why} with {ctx}", p.name);
                }
            }
            format!("{what}: entry count differs with {ctx}")
        }
        _ => format!("{what}: open succeeds in one run and fails in the other with {ctx}"),
    }
}

#[derive(Clone, Debug, Serialize, Deserialize, Hash)]
pub struct WCase {
    program: Program,
    sink_schedule: Vec<usize>,
    /// how the caller splits its writes: 0 whole, 1 byte-by-byte, n = n-byte pieces
    split: usize,
    append: Option<Program>,
    /// which Write API carries the pieces: 0 write_all per piece, 1 plain write() loop honouring the
    /// returned counts, 2 write_vectored over groups of pieces (honouring the returned counts)
    #[serde(default)]
    how: u8,
}

/// Deliver `pieces` through the chosen Write API, advancing exactly by what each call reports.
fn deliver<W: Write>(w: &mut W, pieces: &[&[u8]], how: u8) -> std::io::Result<()> {
    match how % 3 {
        0 => {
            for p in pieces {
                w.write_all(p)?;
            }
        }
        1 => {
            for p in pieces {
                let mut rest: &[u8] = p;
                while !rest.is_empty() {
                    let n = w.write(rest)?;
                    if n == 0 {
                        return Err(std::io::Error::new(std::io::ErrorKind::WriteZero, "write returned 0"));
                    }
                    rest = &rest[n..];
                }
            }
        }
        _ => {
            // groups of up to 4 pieces per write_vectored call
            for group in pieces.chunks(4) {
                let mut idx = 0usize; // first slice not fully written
                let mut off = 0usize; // bytes of slice idx already written
                while idx < group.len() {
                    if group[idx].len() == off {
                        idx += 1;
                        off = 0;
                        continue;
                    }
                    let mut v: Vec<std::io::IoSlice<'_>> = Vec::new();
                    v.push(std::io::IoSlice::new(&group[idx][off..]));
                    for g in &group[idx + 1..] {
                        v.push(std::io::IoSlice::new(g));
                    }
                    let mut n = w.write_vectored(&v)?;
                    if n == 0 {
                        return Err(std::io::Error::new(std::io::ErrorKind::WriteZero, "write_vectored returned 0"));
                    }
                    while n > 0 {
                        let left = group[idx].len() - off;
                        if n >= left {
                            n -= left;
                            idx += 1;
                            off = 0;
                            if idx == group.len() && n > 0 {
                                return Err(std::io::Error::new(std::io::ErrorKind::Other, "write_vectored reported more bytes than were offered"));
                            }
                        } else {
                            off += n;
                            n = 0;
                        }
                    }
                }
            }
        }
    }
    Ok(())
}

fn run_with_sink<W: Write + Seek + Read>(sink: W, p: &Program, split: usize, append: &Option<Program>, how: u8) -> Result<W, String> {
    let mut w = std::mem::ManuallyDrop::new(ZipWriter::new(sink));
    apply_split(&mut w, p, split, how)?;
    let sink = w.finish().map_err(|e| format!("finish: {e}"))?;
    if let Some(ap) = append {
        let mut w = std::mem::ManuallyDrop::new(ZipWriter::new_append(sink).map_err(|e| format!("new_append: {e}"))?);
        apply_split(&mut w, ap, split, how)?;
        return w.finish().map_err(|e| format!("finish(append): {e}"));
    }
    Ok(sink)
}

fn apply_split<W: Write + Seek>(w: &mut ZipWriter<W>, p: &Program, split: usize, how: u8) -> Result<(), String> {
    for op in &p.ops {
        if split == 0 {
            gen::apply(w, op)?;
            continue;
        }
        // re-split the data writes of file-like ops
        match op {
            Op::File { name, opts, chunks } => {
                w.start_file(name.clone(), opts.to_zip()).map_err(|e| format!("start_file: {e}"))?;
                for c in chunks {
                    let data = c.expand();
                    let pieces: Vec<&[u8]> = data.chunks(split).collect();
                    deliver(w, &pieces, how).map_err(|e| format!("write: {e}"))?;
                }
            }
            other => gen::apply(w, other)?,
        }
    }
    Ok(())
}

fn check_writer(c: &WCase, info: &mut Info) -> Result<(), String> {
    let reference = run_with_sink(Cursor::new(Vec::new()), &c.program, 0, &c.append, 0)?.into_inner();
    let sw = ShortWriter::new(Cursor::new(Vec::new()), c.sink_schedule.clone());
    let out = run_with_sink(sw, &c.program, 0, &c.append, 0)?;
    info.nontrivial = out.short_writes > 0;
    let got = out.inner.into_inner();
    if got != reference {
        let at = got.iter().zip(reference.iter()).position(|(a, b)| a != b).unwrap_or(got.len().min(reference.len()));
        return Err(format!("sink accepting short writes (schedule {:?}) produced different bytes ({} vs {} bytes, first difference at {at})", c.sink_schedule, got.len(), reference.len()));
    }
    if c.split > 0 {
        let sw = ShortWriter::new(Cursor::new(Vec::new()), c.sink_schedule.clone());
        let split_bytes = run_with_sink(sw, &c.program, c.split, &c.append, c.how)?.inner.into_inner();
        // caller-side splitting: decoded entries (not bytes) must be identical
        let mut model = gen::model(&c.program).0;
        if let Some(ap) = &c.append {
            model.extend(gen::model(ap).0);
        }
        let pws: Vec<Option<Vec<u8>>> = model.iter().map(|m| m.password.as_ref().map(|s| s.as_bytes().to_vec())).collect();
        let a = observe_seekable(Cursor::new(&reference[..]), &pws, &[4096])?;
        let b = observe_seekable(Cursor::new(&split_bytes[..]), &pws, &[4096])?;
        let strip = |v: Result<Vec<EObs>, ()>| v.map(|v| v.into_iter().map(|mut e| { e.csize = 0; e }).collect::<Vec<_>>());
        if strip(a) != strip(b) {
            return Err(format!("splitting the caller's writes into {}-byte pieces (delivered by {}) changes the decoded entries", c.split, ["write_all", "write() loops", "write_vectored"][(c.how % 3) as usize]));
        }
    }
    Ok(())
}

pub fn run(ctx: &mut Ctx) {
    ctx.rule("uniform: every seed archive x uniform underlying chunk size 1..56 and {100,127,128,129,200,255,1000,4095} x {direct, BufReader caps 1,7,64,4096} x caller-buffer schedules; cuts: ONE short read at EVERY byte position of every seed archive (exhaustive); random: generated archives x random schedules; all through the seekable and the streaming reader, compared with an unchunked Cursor read (metadata, bytes, error-ness; zero-length reads return 0; reads after EOF return 0). writer: generated programs (all entry kinds incl. extra data, aligned, ZipCrypto, append) into a sink accepting short writes by schedule: bytes identical to the unchunked run; caller-side write splitting (pieces delivered by write_all, by write() loops honouring the returned counts, or by write_vectored over groups of pieces): decoded entries identical. writer_counts: 65536-entry (thorough 65535..70000) programs, whose ZIP64 end records are only written at that size, into short-writing sinks. Non-trivial = at least one short transfer happened.");
    let seeds = seeds::small_seeds();
    let callers: [&[usize]; 11] = [&[4096], &[1], &[0, 2, 0], &[3, 7], &[64, 0, 1], &[65536], &[7, 4096], &[1, 200], &[15, 129, 3], &[5, 128, 0, 500], &[33, 127, 129]];
    let brs = [0usize, 1, 7, 64, 4096];
    let total = (seeds.len() * 64 * brs.len()) as u64;
    ctx.enumerate::<Sched>(
        "uniform",
        total,
        &|k| {
            let k = k as usize;
            let seed = k % seeds.len();
            let c = (k / seeds.len()) % 64;
            let chunk = if c < 56 { 1 + c } else { [100usize, 127, 128, 129, 200, 255, 1000, 4095][c - 56] };
            let br = brs[(k / (seeds.len() * 64)) % brs.len()];
            Sched { seed, schedule: vec![chunk], cuts: vec![], bufreader: br, caller: callers[(k / 3) % callers.len()].to_vec(), api: 0, intr: 0 }
        },
        &|s: &Sched, info: &mut Info| {
            info.label(if s.bufreader > 0 { "bufreader" } else { "direct" });
            Verdict::from_result(catch(|| check_reader(&seeds[s.seed], s, info)).unwrap_or_else(|p| Err(format!("PANIC: {p}"))))
        },
    );
    // caller-side Read APIs x Interrupted schedules x chunkings, every seed archive
    let a_scheds: [&[usize]; 6] = [&[], &[1], &[7], &[13, 1], &[128, 3], &[4095]];
    let a_intr = [0usize, 1, 2, 3, 7];
    let a_callers: [&[usize]; 6] = [&[1], &[5], &[0, 3], &[16, 1], &[200], &[7, 4096]];
    let a_total = (seeds.len() * 7 * a_scheds.len() * a_intr.len()) as u64;
    ctx.enumerate::<Sched>(
        "apis",
        a_total,
        &|k| {
            let k = k as usize;
            let seed = k % seeds.len();
            let k2 = k / seeds.len();
            let api = (k2 % 7) as u8;
            let sc = a_scheds[(k2 / 7) % a_scheds.len()].to_vec();
            let intr = a_intr[(k2 / (7 * a_scheds.len())) % a_intr.len()];
            Sched { seed, schedule: sc, cuts: vec![], bufreader: if k % 5 == 4 { 7 } else { 0 }, caller: a_callers[(k / 2) % a_callers.len()].to_vec(), api, intr }
        },
        &|s: &Sched, info: &mut Info| {
            info.label(super::common::READ_APIS[s.api as usize % 7]);
            info.label_if(s.intr > 0, "interrupted-reads");
            Verdict::from_result(catch(|| check_reader(&seeds[s.seed], s, info)).unwrap_or_else(|p| Err(format!("PANIC: {p}"))))
        },
    );
    let mut cidx: Vec<(usize, u64)> = Vec::new();
    for (si, s) in seeds.iter().enumerate() {
        for p in 1..s.bytes.len() as u64 {
            cidx.push((si, p));
        }
    }
    ctx.enumerate::<Sched>(
        "cuts",
        cidx.len() as u64,
        &|k| {
            let (seed, p) = cidx[k as usize];
            Sched { seed, schedule: vec![], cuts: vec![p], bufreader: 0, caller: callers[(k as usize) % callers.len()].to_vec(), api: 0, intr: 0 }
        },
        &|s: &Sched, info: &mut Info| Verdict::from_result(catch(|| check_reader(&seeds[s.seed], s, info)).unwrap_or_else(|p| Err(format!("PANIC: {p}")))),
    );
    ctx.exhaustive_all = true;
    let n = ctx.q(3000, 100000);
    let nseeds = seeds.len();
    ctx.explore::<(Program, Sched)>(
        "random",
        n,
        &|| {
            (
                gen::program(5, 20000, true, true),
                any::<u16>(),
                prop_oneof![Just(vec![]), proptest::collection::vec(1usize..40, 1..6), proptest::collection::vec(prop_oneof![Just(1usize), Just(11), Just(12), Just(13), 1usize..5000], 1..8)],
                proptest::collection::vec(any::<u16>(), 0..4),
                prop_oneof![Just(0usize), Just(1), Just(7), Just(64), 1usize..300],
                prop_oneof![Just(vec![4096usize]), proptest::collection::vec(prop_oneof![Just(0usize), Just(1), Just(2), Just(3), Just(7), 1usize..200, Just(4096)], 1..5).prop_filter("not all zero", |v| v.iter().any(|x| *x > 0))],
                prop_oneof![3 => Just(0u8), 2 => 1u8..7],
                prop_oneof![3 => Just(0usize), 1 => 1usize..6],
            )
                .prop_map(|(p, seed, schedule, cuts, bufreader, caller, api, intr)| (p, Sched { seed: seed as usize, schedule, cuts: cuts.into_iter().map(|c| c as u64).collect(), bufreader, caller, api, intr }))
                .boxed()
        },
        &|(p, s): &(Program, Sched), info: &mut Info| {
            // archive: either a generated program's output or one of the seeds
            let r = catch(|| {
                if s.seed % 3 == 0 {
                    let seed = &seeds[(s.seed * nseeds) >> 16];
                    let mut s2 = s.clone();
                    s2.cuts = s.cuts.iter().map(|c| (c * seed.bytes.len() as u64) >> 16).collect();
                    s2.cuts.sort();
                    check_reader(seed, &s2, info)
                } else {
                    let bytes = gen::run_program(p, false).map_err(|e| format!("harness: program refused: {e}"))?;
                    let (model, _) = gen::model(p);
                    let seed = Seed {
                        name: "generated".into(),
                        passwords: model.iter().map(|m| m.password.as_ref().map(|x| x.as_bytes().to_vec())).collect(),
                        ae2: vec![],
                        data: vec![],
                        crc_fields: vec![],
                        local_crc_fields: vec![],
                        built: None,
                        contents: vec![],
                        stored_plain: vec![],
                        streamable: vec![],
                        bytes,
                    };
                    let mut s2 = s.clone();
                    s2.cuts = s.cuts.iter().map(|c| (c * seed.bytes.len() as u64) >> 16).collect();
                    s2.cuts.sort();
                    info.label_if(model.iter().any(|m| m.password.is_some()), "zipcrypto");
                    check_reader(&seed, &s2, info)
                }
            });
            Verdict::from_result(r.unwrap_or_else(|p| Err(format!("PANIC: {p}"))))
        },
    );
    let nw = ctx.q(2000, 50000);
    ctx.explore::<WCase>(
        "writer",
        nw,
        &|| {
            (
                gen::program(6, 30000, true, true),
                prop_oneof![proptest::collection::vec(1usize..20, 1..6), Just(vec![1usize]), proptest::collection::vec(prop_oneof![Just(1usize), Just(2), Just(3), Just(29), Just(30), Just(31), 1usize..100000], 1..8)],
                prop_oneof![Just(0usize), Just(1), 2usize..100, 100usize..40000],
                0u8..3,
                prop_oneof![2 => Just(None), 1 => gen::program(3, 5000, true, false).prop_map(|mut p| { p.ops.retain(|o| !matches!(o, Op::Comment(_))); Some(p) })],
            )
                .prop_map(|(program, sink_schedule, split, how, append)| WCase { program, sink_schedule, split, append, how })
                .boxed()
        },
        &|c: &WCase, info: &mut Info| {
            info.label_if(c.append.is_some(), "append");
            info.label_if(c.split == 1, "byte-by-byte-writes");
            info.label_if(c.split > 0 && c.how % 3 == 2, "write_vectored");
            info.label_if(c.split > 0 && c.how % 3 == 1, "write()-loops");
            info.label_if(c.program.ops.iter().any(|o| matches!(o, Op::ExtraFile { .. } | Op::Aligned { .. })), "extra/aligned");
            Verdict::from_result(catch(|| check_writer(c, info)).unwrap_or_else(|p| Err(format!("PANIC: {p}"))))
        },
    );
    // the ZIP64 end records (only written beyond 65535 entries) through short-writing sinks
    #[derive(Clone, Debug, Serialize, Deserialize, Hash)]
    struct WCount {
        entries: u32,
        sink_schedule: Vec<usize>,
    }
    let scheds: Vec<Vec<usize>> = vec![vec![1], vec![7], vec![43, 1], vec![100000, 3]];
    let counts: Vec<u32> = ctx.q(vec![65536], vec![65535, 65536, 65537, 70000]);
    ctx.enumerate::<WCount>("writer_counts", (scheds.len() * counts.len()) as u64, &|i| WCount { entries: counts[i as usize / scheds.len()], sink_schedule: scheds[i as usize % scheds.len()].clone() }, &|c: &WCount, info: &mut Info| {
        info.label(if c.entries > 65535 { "zip64-end-records" } else { "classic-end-record" });
        let ops: Vec<Op> = (0..c.entries).map(|i| Op::File { name: format!("n{i}"), opts: gen::Opts::plain(gen::Method::Stored), chunks: if i % 9973 == 1 { vec![crate::refzip::Content::Bytes(b"payload".to_vec())] } else { vec![] } }).collect();
        let w = WCase { program: Program { ops }, sink_schedule: c.sink_schedule.clone(), split: 0, append: None, how: 0 };
        Verdict::from_result(catch(|| check_writer(&w, info)).unwrap_or_else(|p| Err(format!("PANIC: {p}"))))
    });
}