//! C10 — the streaming reader agrees with the seekable reader.
use crate::engine::{Ctx, Info, Verdict};
use crate::gen::{self, Program};
use crate::genf;
use crate::refzip::{build, ArchiveSpec, Content, Desc, Enc};
use crate::sio::{ChunkReader, NoSeek};
use crate::util::catch;
use proptest::prelude::*;
use serde::{Deserialize, Serialize};
use std::io::{Cursor, Read};

#[derive(Clone, Debug, Serialize, Deserialize, Hash)]
pub enum Arc {
    Written(Program),
    Foreign(ArchiveSpec),
}

#[derive(Clone, Debug, Serialize, Deserialize, Hash)]
pub struct Case {
    arc: Arc,
    /// per-entry consumption selector (cycled): 0 none, 1 one byte, 2 k bytes, 3 all-1, 4 all, 5.. random fraction
    consume: Vec<u8>,
    k: u16,
    schedule: Vec<usize>,
}

#[derive(Debug, Clone, PartialEq, Eq)]
struct Meta {
    name: String,
    size: u64,
    csize: u64,
    method: u16,
    dos: (u16, u16),
    crc: u32,
}

fn want_bytes(sel: u8, k: u16, size: u64) -> u64 {
    match sel % 7 {
        0 => 0,
        1 => 1.min(size),
        2 => (k as u64).min(size),
        3 => size.saturating_sub(1),
        4 => size,
        5 => size / 2,
        _ => (size * (k as u64 % 97)) / 97,
    }
}

struct Vis<'a> {
    consume: &'a [u8],
    k: u16,
    files: Vec<(Meta, Vec<u8>)>,
    metas: Vec<(String, String, Option<u32>)>,
    meta_before_files_done: bool,
}
impl zip::unstable::stream::ZipStreamVisitor for Vis<'_> {
    fn visit_file(&mut self, f: &mut zip::read::ZipFile<'_>) -> zip::result::ZipResult<()> {
        if !self.metas.is_empty() {
            self.meta_before_files_done = true;
        }
        let lm = f.last_modified();
        let m = Meta { name: f.name().to_string(), size: f.size(), csize: f.compressed_size(), method: super::common::method_id(f.compression()), dos: (lm.datepart(), lm.timepart()), crc: f.crc32() };
        let want = want_bytes(self.consume[self.files.len() % self.consume.len()], self.k, m.size) as usize;
        let mut buf = vec![0u8; want];
        let mut n = 0;
        while n < want {
            let k = f.read(&mut buf[n..])?;
            if k == 0 {
                break;
            }
            n += k;
        }
        buf.truncate(n);
        self.files.push((m, buf));
        Ok(())
    }
    fn visit_additional_metadata(&mut self, m: &zip::unstable::stream::ZipStreamFileMetadata) -> zip::result::ZipResult<()> {
        self.metas.push((m.name().to_string(), m.comment().to_string(), m.unix_mode()));
        Ok(())
    }
}

fn check(c: &Case, info: &mut Info) -> Result<(), String> {
    let (bytes, start) = match &c.arc {
        Arc::Written(p) => (gen::run_program(p, false).map_err(|e| format!("harness: program refused: {e}"))?, 0usize),
        Arc::Foreign(s) => {
            let b = build::build(s).map_err(|e| format!("harness: {e}"))?;
            if genf::zip64_search_ambiguous(s, &b) {
                // format-inherent ambiguity: the prepended data contains a ZIP64 end-record signature
                info.label("skipped-ambiguous");
                return Ok(());
            }
            let st = b.prefix_len as usize;
            (b.bytes, st)
        }
    };
    if let Ok(path) = std::env::var("ZV_DUMP_INPUT") {
        if !std::path::Path::new(&path).exists() {
            let _ = std::fs::write(path, &bytes);
        }
    }
    // seekable reference, physical order == central order by construction
    let mut za = zip::ZipArchive::new(Cursor::new(&bytes[..])).map_err(|e| format!("harness: seekable reader refuses the archive: {e}"))?;
    let n = za.len();
    if n == 0 {
        // the property quantifies over archives with at least one entry
        info.label("skipped-empty-archive");
        return Ok(());
    }
    let mut reference: Vec<(Meta, Vec<u8>, String, Option<u32>)> = Vec::new();
    for i in 0..n {
        let mut f = za.by_index(i).map_err(|e| format!("harness: by_index({i}): {e}"))?;
        let lm = f.last_modified();
        let m = Meta { name: f.name().to_string(), size: f.size(), csize: f.compressed_size(), method: super::common::method_id(f.compression()), dos: (lm.datepart(), lm.timepart()), crc: f.crc32() };
        let mut content = Vec::new();
        f.read_to_end(&mut content).map_err(|e| format!("harness: seekable read({i}): {e}"))?;
        let (comment, mode) = (f.comment().to_string(), f.unix_mode());
        reference.push((m, content, comment, mode));
    }
    info.nontrivial = n >= 2 && c.consume.iter().any(|s| !matches!(s % 7, 4));
    // ---- read_zipfile_from_stream with the consumption pattern
    let mut src = NoSeek(ChunkReader::new(Cursor::new(&bytes[start..]), c.schedule.clone(), vec![]));
    for i in 0..=n {
        match zip::read::read_zipfile_from_stream(&mut src) {
            Ok(Some(mut f)) => {
                if i == n {
                    return Err(format!("stream yields a {}th entry although the archive has {n}", n + 1));
                }
                let lm = f.last_modified();
                let m = Meta { name: f.name().to_string(), size: f.size(), csize: f.compressed_size(), method: super::common::method_id(f.compression()), dos: (lm.datepart(), lm.timepart()), crc: f.crc32() };
                if m != reference[i].0 {
                    return Err(format!("entry {i}: streaming metadata {m:?} != seekable {:?}", reference[i].0));
                }
                let want = want_bytes(c.consume[i % c.consume.len()], c.k, m.size) as usize;
                let mut buf = vec![0u8; want];
                let mut got = 0;
                while got < want {
                    match f.read(&mut buf[got..]) {
                        Ok(0) => break,
                        Ok(k) => got += k,
                        Err(e) => return Err(format!("entry {i}: streaming read failed after {got} bytes: {e}")),
                    }
                }
                if got != want || buf[..got] != reference[i].1[..want] {
                    return Err(format!("entry {i}: first {want} bytes from the stream differ from the seekable reader's content ({got} bytes read)"));
                }
                if want == reference[i].1.len() {
                    // fully consumed: the next read reports end-of-file (and verifies the CRC)
                    let mut one = [0u8; 8];
                    match f.read(&mut one) {
                        Ok(0) => {}
                        Ok(k) => return Err(format!("entry {i}: {k} extra bytes after the declared size")),
                        Err(e) => return Err(format!("entry {i}: error at end of a correct entry: {e}")),
                    }
                }
            }
            Ok(None) => {
                if i != n {
                    return Err(format!("stream signals the end of entries after {i} of {n} entries (consumption pattern {:?}, k={}, schedule {:?})", c.consume, c.k, c.schedule));
                }
            }
            Err(e) => return Err(format!("stream fails at entry {i} of {n}: {e} (consumption pattern {:?}, k={}, schedule {:?})", c.consume, c.k, c.schedule)),
        }
    }
    // ---- visitor API
    let mut v = Vis { consume: &c.consume, k: c.k, files: vec![], metas: vec![], meta_before_files_done: false };
    zip::unstable::stream::ZipStreamReader::new(ChunkReader::new(Cursor::new(&bytes[start..]), c.schedule.clone(), vec![])).visit(&mut v).map_err(|e| format!("ZipStreamReader::visit failed: {e}"))?;
    if v.files.len() != n {
        return Err(format!("visitor: visit_file called {} times for {n} entries", v.files.len()));
    }
    for (i, (m, data)) in v.files.iter().enumerate() {
        if *m != reference[i].0 || data[..] != reference[i].1[..data.len()] {
            return Err(format!("visitor: file {i} differs from the seekable reader"));
        }
    }
    if v.meta_before_files_done {
        return Err("visitor: visit_additional_metadata called before all files were visited".into());
    }
    if v.metas.len() != n {
        let m = format!("visitor: visit_additional_metadata called {} times for {n} entries (expected once per entry, after all files)", v.metas.len());
        return Err(m);
    }
    for (i, (name, comment, mode)) in v.metas.iter().enumerate() {
        if *name != reference[i].0.name || *comment != reference[i].2 || *mode != reference[i].3 {
            return Err(format!("visitor: metadata {i} = ({name:?}, {comment:?}, {mode:?}) != central directory ({:?}, {:?}, {:?})", reference[i].0.name, reference[i].2, reference[i].3));
        }
    }
    Ok(())
}


/// One entry of a crate-written archive gets a byte of its data damaged. Both readers then meet the same
/// damaged bytes: whatever the seekable reader still delivers (every other entry, and the damaged one
/// if its decoder does not notice) the stream must deliver too, in particular every entry BEHIND the
/// damaged one, however the consumer leaves the entry whose read failed.
#[derive(Clone, Debug, Serialize, Deserialize, Hash)]
pub struct Damaged {
    method: u8,
    len: u32,
    compressible: bool,
    /// position of the damaged byte inside the entry's data, as a fraction of 65536
    at: u16,
    xor: u8,
    /// what the consumer does with the damaged entry: 0 reads until EOF/error, 1 reads half, 2 nothing
    consume: u8,
    schedule: Vec<usize>,
    buf: usize,
}

fn check_damaged(c: &Damaged, info: &mut Info) -> Result<(), String> {
    let m = [gen::Method::Stored, gen::Method::Deflated, gen::Method::Bzip2, gen::Method::Zstd][c.method as usize % 4];
    let big = if c.compressible { Content::Text { seed: c.len as u64, len: c.len } } else { Content::Rand { seed: c.len as u64, len: c.len } };
    let ops = vec![
        gen::Op::File { name: "first.txt".into(), opts: gen::Opts::plain(gen::Method::Deflated), chunks: vec![Content::Text { seed: 1, len: 700 }] },
        gen::Op::File { name: "damaged.bin".into(), opts: gen::Opts::plain(m), chunks: vec![big] },
        gen::Op::File { name: "behind/stored".into(), opts: gen::Opts::plain(gen::Method::Stored), chunks: vec![Content::Rand { seed: 3, len: 900 }] },
        gen::Op::File { name: "behind/last.zst".into(), opts: gen::Opts::plain(gen::Method::Zstd), chunks: vec![Content::Text { seed: 4, len: 5000 }] },
    ];
    let mut bytes = gen::run_program(&Program { ops }, false).map_err(|e| format!("harness: program refused: {e}"))?;
    let (ds, cs) = {
        let mut za = zip::ZipArchive::new(Cursor::new(&bytes[..])).map_err(|e| format!("harness: {e}"))?;
        let f = za.by_index(1).map_err(|e| format!("harness: {e}"))?;
        (f.data_start(), f.compressed_size())
    };
    if cs == 0 {
        return Ok(());
    }
    let pos = ds + ((c.at as u64 * cs) >> 16);
    bytes[pos as usize] ^= c.xor.max(1);
    info.label(["damaged-stored", "damaged-deflate", "damaged-bzip2", "damaged-zstd"][c.method as usize % 4]);
    info.label_if(cs > 32 * 1024, "compressed>32KiB");
    info.label_if(cs > 128 * 1024, "compressed>128KiB");
    // seekable reader over the damaged archive
    let mut za = zip::ZipArchive::new(Cursor::new(&bytes[..])).map_err(|e| format!("harness: seekable reader refuses the archive: {e}"))?;
    let n = za.len();
    let mut reference: Vec<(Meta, Result<Vec<u8>, ()>)> = Vec::new();
    for i in 0..n {
        let mut f = za.by_index(i).map_err(|e| format!("harness: by_index({i}): {e}"))?;
        let lm = f.last_modified();
        let m = Meta { name: f.name().to_string(), size: f.size(), csize: f.compressed_size(), method: super::common::method_id(f.compression()), dos: (lm.datepart(), lm.timepart()), crc: f.crc32() };
        let mut content = Vec::new();
        let r = f.read_to_end(&mut content).map(|_| content).map_err(|_| ());
        reference.push((m, r));
    }
    if reference.iter().enumerate().any(|(i, r)| i != 1 && r.1.is_err()) {
        return Err("harness: an undamaged entry does not read back through the seekable reader".into());
    }
    info.nontrivial = true;
    info.label(if reference[1].1.is_err() { "seekable:Err" } else { "seekable:Ok(damage unnoticed or harmless)" });
    let mut src = NoSeek(ChunkReader::new(Cursor::new(&bytes[..]), c.schedule.clone(), vec![]));
    for i in 0..=n {
        match zip::read::read_zipfile_from_stream(&mut src) {
            Ok(Some(mut f)) => {
                if i == n {
                    return Err(format!("stream yields a {}th entry although the archive has {n}", n + 1));
                }
                let lm = f.last_modified();
                let m = Meta { name: f.name().to_string(), size: f.size(), csize: f.compressed_size(), method: super::common::method_id(f.compression()), dos: (lm.datepart(), lm.timepart()), crc: f.crc32() };
                if m != reference[i].0 {
                    return Err(format!("entry {i}: streaming metadata {m:?} != seekable {:?}", reference[i].0));
                }
                let limit = if i == 1 { [u64::MAX, m.size / 2, 0][c.consume as usize % 3] } else { u64::MAX };
                let mut got = Vec::new();
                let mut buf = vec![0u8; c.buf.max(1)];
                let mut failed = false;
                let mut eof = false;
                while (got.len() as u64) < limit {
                    let want = buf.len().min((limit - got.len() as u64).min(1 << 20) as usize);
                    match f.read(&mut buf[..want]) {
                        Ok(0) => {
                            eof = true;
                            break;
                        }
                        Ok(k) => got.extend_from_slice(&buf[..k]),
                        Err(_) => {
                            failed = true;
                            break;
                        }
                    }
                }
                match &reference[i].1 {
                    Ok(content) => {
                        if failed {
                            return Err(format!("entry {i} ({:?}): the seekable reader delivers it, the stream reports a read error after {} bytes", m.name, got.len()));
                        }
                        if got[..] != content[..got.len().min(content.len())] || (eof && got.len() != content.len()) {
                            return Err(format!("entry {i} ({:?}): stream content differs from the seekable reader's", m.name));
                        }
                    }
                    Err(()) => {
                        if eof && !failed {
                            return Err(format!("entry {i} ({:?}): the seekable reader reports a read error, the stream delivered {} bytes and a clean end-of-file", m.name, got.len()));
                        }
                    }
                }
            }
            Ok(None) => {
                if i != n {
                    return Err(format!("stream signals the end of entries after {i} of {n} entries (entry 1 is damaged at data offset {}, the consumer {} it; the seekable reader still lists and delivers the entries behind it)", pos - ds, ["read it until the error", "read half of it", "skipped it"][c.consume as usize % 3]));
                }
            }
            Err(e) => return Err(format!("stream fails at entry {i} of {n}: {e} (entry 1 is damaged at data offset {} of {cs}, the consumer {} it; the seekable reader still lists and delivers the entries behind it)", pos - ds, ["read it until the error", "read half of it", "skipped it"][c.consume as usize % 3])),
        }
    }
    Ok(())
}

/// foreign archives the stream can follow: contiguous, sizes in local headers, no encryption
fn streamable_spec(maxc: u32) -> BoxedStrategy<ArchiveSpec> {
    genf::archive(8, maxc, false)
        .prop_map(|mut s| {
            for e in &mut s.entries {
                e.desc = Desc::None;
                e.enc = Enc::None;
                e.gap_before.clear();
                e.local_name = None;
            }
            s.central_order = None;
            s.gap_before_cd.clear();
            s
        })
        .boxed()
}

#[derive(Clone, Debug, Serialize, Deserialize, Hash)]
pub struct Unsup {
    spec: ArchiveSpec,
    at: u16,
    kind: u8,
}

pub fn run(ctx: &mut Ctx) {
    ctx.rule("agree: archives from the crate's writer (no encryption; incl. large_file, extra data, aligned) and contiguous archives from the independent builder with sizes in the local headers, read front-to-back from a non-seekable short-read stream with a per-entry consumption pattern from {0,1,k,all-1,all,half,random}; the sequence (name,size,method,timestamp,crc,content prefix) must equal the seekable reader's, then end-of-entries; the visitor must deliver visit_file per entry in order and then the central metadata once per entry in order. counts: crate-written archives with 65535/65536 (thorough: ..70000) entries through both streaming APIs. unsupported: an encrypted or data-descriptor entry at a generated position must yield an error, never data. damaged: one byte of one entry's data (Stored/Deflate/Bzip2/Zstd, 1 B .. 300 KB, compressible or not) is altered; the stream must list the same entries as the seekable reader over the same bytes and deliver every entry the seekable reader delivers - in particular those BEHIND the damaged one - whether the consumer reads the damaged entry until its error, reads half of it or skips it. Non-trivial = >=2 entries and at least one entry not fully consumed.");
    let n = ctx.q(15000, 150000);
    let maxc = ctx.q(40000, 400000);
    ctx.explore::<Case>(
        "agree",
        n,
        &|| {
            (
                prop_oneof![2 => gen::program(8, maxc, true, false).prop_map(Arc::Written), 1 => streamable_spec(maxc).prop_map(Arc::Foreign)],
                proptest::collection::vec(0u8..7, 1..5),
                any::<u16>(),
                prop_oneof![Just(vec![]), Just(vec![1usize]), proptest::collection::vec(1usize..100, 1..5), proptest::collection::vec(1usize..100000, 1..4)],
            )
                .prop_map(|(arc, consume, k, schedule)| Case { arc, consume, k, schedule })
                .boxed()
        },
        &|c: &Case, info: &mut Info| {
            info.label(match &c.arc {
                Arc::Written(_) => "crate-written",
                Arc::Foreign(_) => "foreign",
            });
            info.label_if(!c.schedule.is_empty(), "short-read-stream");
            if let Arc::Written(p) = &c.arc {
                info.label_if(p.ops.iter().any(|o| matches!(o, gen::Op::File { opts, .. } if opts.large)), "large_file(local zip64)");
            }
            match catch(|| check(c, info)) {
                Ok(Ok(())) => Verdict::Pass,
                Ok(Err(m)) => Verdict::Fail(m),
                Err(p) => Verdict::Fail(format!("PANIC: {p}")),
            }
        },
    );
    // a damaged entry in the middle: the entries behind it must still arrive
    let n = ctx.q(1500, 20000);
    ctx.explore::<Damaged>(
        "damaged",
        n,
        &|| {
            (
                0u8..4,
                prop_oneof![2 => 1u32..3000, 2 => 9000u32..70000, 1 => 140000u32..300000],
                prop_oneof![3 => Just(false), 1 => Just(true)],
                prop_oneof![1 => Just(0u16), 1 => Just(65535u16), 3 => any::<u16>()],
                1u8..=255,
                0u8..3,
                prop_oneof![Just(vec![]), Just(vec![1usize]), proptest::collection::vec(1usize..5000, 1..4)],
                prop_oneof![Just(1usize), Just(4096usize), 1usize..70000],
            )
                .prop_map(|(method, len, compressible, at, xor, consume, schedule, buf)| Damaged { method, len, compressible, at, xor, consume, schedule: if len > 100000 && schedule == vec![1usize] { vec![4096] } else { schedule }, buf: if len > 100000 { buf.max(64) } else { buf } })
                .boxed()
        },
        &|c: &Damaged, info: &mut Info| match catch(|| check_damaged(c, info)) {
            Ok(Ok(())) => Verdict::Pass,
            Ok(Err(m)) => Verdict::Fail(m),
            Err(p) => Verdict::Fail(format!("PANIC: {p}")),
        },
    );
    // entry counts around the 16-bit limit: from 65536 entries on the writer emits ZIP64 end records
    // behind the central directory; the stream must still list every entry and end cleanly, and the
    // visitor must deliver exactly one metadata record per entry
    let counts: Vec<u32> = ctx.q(vec![65535, 65536], vec![65534, 65535, 65536, 65537, 70000]);
    ctx.enumerate::<u32>("counts", counts.len() as u64, &|i| counts[i as usize], &|&cnt: &u32, info: &mut Info| {
        info.nontrivial = true;
        info.label(if cnt > 65535 { "zip64-count" } else { "classic-count" });
        let ops: Vec<gen::Op> = (0..cnt)
            .map(|i| gen::Op::File { name: format!("e{i}"), opts: gen::Opts::plain(if i % 5000 == 3 { gen::Method::Deflated } else { gen::Method::Stored }), chunks: if i % 5000 == 3 { vec![Content::Text { seed: i as u64, len: 300 }] } else { vec![] } })
            .collect();
        let c = Case { arc: Arc::Written(Program { ops }), consume: vec![4, 0, 1], k: 3, schedule: vec![] };
        match catch(|| check(&c, info)) {
            Ok(Ok(())) => Verdict::Pass,
            Ok(Err(m)) => Verdict::Fail(format!("{cnt} entries: {m}")),
            Err(p) => Verdict::Fail(format!("PANIC: {p}")),
        }
    });
    let n = ctx.q(3000, 30000);
    ctx.explore::<Unsup>(
        "unsupported",
        n,
        &|| (streamable_spec(2000).prop_filter("non-empty", |s| !s.entries.is_empty()), any::<u16>(), 0u8..6).prop_map(|(spec, at, kind)| Unsup { spec, at, kind }).boxed(),
        &|u: &Unsup, info: &mut Info| {
            let mut spec = u.spec.clone();
            let k = (u.at as usize * spec.entries.len()) >> 16;
            match u.kind {
                0 => spec.entries[k].enc = Enc::ZipCrypto { password: b"pw".to_vec(), header: vec![3; 11], time_check: false },
                1 => {
                    spec.entries[k].enc = Enc::Aes { password: b"pw".to_vec(), salt_seed: vec![1], strength: 3, ae2: true };
                }
                2 => spec.entries[k].desc = Desc::Sig32,
                3 => spec.entries[k].desc = Desc::NoSig64,
                4 => {
                    // streaming ZIP64 producer: markers in the 32-bit fields, zeros in the ZIP64 record
                    spec.entries[k].desc = if u.at % 2 == 0 { Desc::Sig64 } else { Desc::NoSig64 };
                    spec.entries[k].local_zip64 = true;
                    spec.entries[k].desc_mode = 1;
                }
                _ => {
                    // bit 3 set, descriptor present, but the header carries the real values: refusing is
                    // fine, serving the entry is fine as long as it is the right data
                    spec.entries[k].desc = [Desc::Sig32, Desc::NoSig32, Desc::Sig64, Desc::NoSig64][(u.at % 4) as usize];
                    spec.entries[k].desc_mode = 2;
                }
            }
            let truth = spec.entries[k].content.expand();
            if spec.entries[k].content.is_empty() {
                spec.entries[k].content = Content::Bytes(b"non-empty".to_vec());
            }
            info.nontrivial = true;
            info.label(["zipcrypto", "aes", "descriptor-sig32", "descriptor-nosig64", "descriptor-zip64-markers", "descriptor-with-sizes-in-header"][u.kind as usize]);
            let b = match build::build(&spec) {
                Ok(b) => b,
                Err(_) => return Verdict::Pass,
            };
            let r = catch(|| {
                let mut src = NoSeek(Cursor::new(&b.bytes[b.prefix_len as usize..]));
                for i in 0..spec.entries.len() {
                    match zip::read::read_zipfile_from_stream(&mut src) {
                        Ok(Some(mut f)) => {
                            if i == k && u.kind == 5 {
                                let (size, mut v) = (f.size(), Vec::new());
                                let r = f.read_to_end(&mut v);
                                if size != truth.len() as u64 || (r.is_ok() && v != truth) {
                                    return Err(format!("data-descriptor entry {i} (sizes also in the local header) was served with wrong data: size() {size}, {} bytes read ({r:?}), entry holds {} bytes", v.len(), truth.len()));
                                }
                                return Ok(());
                            }
                            if i == k {
                                return Err(format!("entry {i} is {} but the stream returned it as readable (size() = {})", ["ZipCrypto-encrypted", "AES-encrypted", "a data-descriptor entry", "a data-descriptor entry", "a data-descriptor entry with ZIP64 markers and no sizes in its local header", ""][u.kind as usize], f.size()));
                            }
                            let mut v = Vec::new();
                            let _ = f.read_to_end(&mut v);
                        }
                        Ok(None) => return Err(format!("stream ended after {i} entries, before the unsupported entry {k}")),
                        Err(_) => {
                            if i == k {
                                return Ok(());
                            }
                            return Err(format!("stream failed at entry {i}, before the unsupported entry {k}"));
                        }
                    }
                }
                Err("harness: unsupported entry not reached".into())
            });
            Verdict::from_result(r.unwrap_or_else(|p| Err(format!("PANIC: {p}"))))
        },
    );
}
