//! C11 — I/O failures surface as errors, never as panics or wrong results. The failure is injected
//! at EVERY I/O call index of each scenario (read / write / flush / seek), one-shot and sticky.
use super::c09::{observe_seekable, observe_stream, EObs};
use crate::engine::{Ctx, Info, Verdict};
use crate::gen::{self, Op, Program};
use crate::refzip::parse;
use crate::seeds;
use crate::sio::{FaultIo, FaultState, NoSeek, K_FLUSH, K_READ, K_SEEK, K_WRITE};
use crate::util::catch;
use proptest::prelude::*;
use serde::{Deserialize, Serialize};
use std::io::Cursor;
use std::sync::atomic::{AtomicU64, Ordering};
use std::sync::Arc;
use zip::ZipWriter;

#[derive(Clone, Debug, Serialize, Deserialize, Hash)]
pub struct WScenario {
    base: Option<Program>,
    program: Program,
    raw: Vec<(u16, Option<String>)>,
    by_drop: bool,
    /// the caller issues every call of an operation whatever the earlier ones returned (write after a failed
    /// start_file, end_extra_data after a failed write, ...) and calls flush() after each operation
    #[serde(default)]
    persistent: bool,
}

/// logical content of an archive: entries as the crate's reader and the independent parser see them
fn logical(bytes: &[u8], pws: &[Option<Vec<u8>>]) -> Result<(Vec<EObs>, Vec<(Vec<u8>, u32, u64)>, Vec<u8>), String> {
    let obs = observe_seekable(Cursor::new(bytes), pws, &[4096])?.map_err(|_| "archive does not open".to_string())?;
    let p = parse::parse(bytes, parse::Opts { lenient: true, allow_leading_gap: true, decode_limit: 1 << 24, allow_trailing: true })?;
    Ok((obs, p.entries.iter().map(|e| (e.name.clone(), e.crc, e.usize_)).collect(), p.comment))
}

struct WRun {
    first_err: Option<String>,
    bytes: Option<Vec<u8>>,
    /// the sink after a SECOND finish() that reported success although the first one had failed
    retried_bytes: Option<Vec<u8>>,
    ops: usize,
    kinds: Vec<u8>,
}

/// Runs the writer scenario on a faulty sink. Panics are reported as Err(message).
fn run_writer(s: &WScenario, fail_at: usize, mode: (bool, u8), record: bool) -> Result<WRun, String> {
    let sticky = format!("{}, kind={}", mode.0, crate::sio::ek_name(mode.1));
    let st: Arc<FaultState> = FaultState::new_kind(usize::MAX, mode.0, record, mode.1);
    // the base archive (if any) is produced fault-free
    let base_bytes = match &s.base {
        Some(b) => gen::run_program(b, false).map_err(|e| format!("harness: base program refused: {e}"))?,
        None => Vec::new(),
    };
    let src_bytes = gen::run_program(&Program { ops: vec![Op::File { name: "src-a".into(), opts: gen::Opts::plain(gen::Method::Deflated), chunks: vec![crate::refzip::Content::Text { seed: 4, len: 900 }] }, Op::File { name: "src-b".into(), opts: gen::Opts::plain(gen::Method::Stored), chunks: vec![crate::refzip::Content::Bytes(b"bee".to_vec())] }] }, false).map_err(|e| format!("harness: {e}"))?;
    let sink = FaultIo::new(crate::sio::BoundedSink::new(base_bytes, 1 << 26), st.clone());
    st.fail_at.store(fail_at, Ordering::Relaxed);
    let mut first_err: Option<String> = None;
    let note = |first_err: &mut Option<String>, e: String| {
        if first_err.is_none() {
            *first_err = Some(e);
        }
    };
    let w = if s.base.is_some() {
        match catch(|| ZipWriter::new_append(sink)).map_err(|p| format!("PANIC in new_append under an injected fault at I/O call {fail_at}: {p}"))? {
            Ok(w) => w,
            Err(e) => {
                return Ok(WRun { first_err: Some(format!("new_append: {e}")), bytes: None, retried_bytes: None, ops: st.count(), kinds: st.kinds.lock().unwrap().clone() });
            }
        }
    } else {
        ZipWriter::new(sink)
    };
    let mut w = std::mem::ManuallyDrop::new(w);
    for (i, op) in s.program.ops.iter().enumerate() {
        let r = if s.persistent {
            catch(|| {
                let mut errs: Vec<String> = Vec::new();
                gen::apply_persistent(&mut w, op, &mut |e| errs.push(e));
                match errs.into_iter().next() {
                    Some(e) => Err(e),
                    None => Ok(()),
                }
            })
        } else {
            catch(|| gen::apply(&mut w, op))
        };
        match r {
            Ok(Ok(())) => {}
            Ok(Err(e)) => note(&mut first_err, e),
            Err(p) => return Err(format!("PANIC in writer call #{i} ({}) with a fault injected at I/O call {fail_at} (sticky={sticky}; earlier error: {first_err:?}): {p}", op_name(op))),
        }
    }
    if !s.raw.is_empty() {
        let mut za = zip::ZipArchive::new(Cursor::new(&src_bytes[..])).map_err(|e| format!("harness: {e}"))?;
        for (pick, rename) in &s.raw {
            let i = (*pick as usize * za.len()) >> 16;
            let r = catch(|| {
                let f = za.by_index_raw(i).map_err(|e| format!("harness: by_index_raw: {e}"))?;
                match rename {
                    Some(n) => w.raw_copy_file_rename(f, n.clone()).map_err(|e| format!("raw_copy_file_rename: {e}")),
                    None => w.raw_copy_file(f).map_err(|e| format!("raw_copy_file: {e}")),
                }
            });
            match r {
                Ok(Ok(())) => {}
                Ok(Err(e)) => note(&mut first_err, e),
                Err(p) => return Err(format!("PANIC in raw copy with a fault injected at I/O call {fail_at} (sticky={sticky}; earlier error: {first_err:?}): {p}")),
            }
        }
    }
    let mut out = None;
    let mut retried: Option<Vec<u8>> = None;
    if s.by_drop {
        // completion by drop: errors are swallowed by design, so a fault here can only show up as
        // a different (or unreadable) archive; treat "drop after fault" as an error outcome
        match catch(move || unsafe { std::mem::ManuallyDrop::drop(&mut w) }) {
            Ok(()) => {}
            Err(p) => return Err(format!("PANIC while dropping the writer with a fault injected at I/O call {fail_at} (sticky={sticky}; earlier error: {first_err:?}): {p}")),
        }
    } else {
        match catch(|| w.finish()) {
            Ok(Ok(sink)) => out = Some(sink.inner.data),
            Ok(Err(e)) => note(&mut first_err, format!("finish: {e}")),
            Err(p) => return Err(format!("PANIC in finish() with a fault injected at I/O call {fail_at} (sticky={sticky}; earlier error: {first_err:?}): {p}")),
        }
        // a second finish and the drop must not panic either
        let first_failed = out.is_none();
        match catch(|| {
            let r = w.finish().ok().map(|sink| sink.inner.data);
            unsafe { std::mem::ManuallyDrop::drop(&mut w) }
            r
        }) {
            Ok(r) => {
                if first_failed {
                    retried = r;
                }
            }
            Err(p) => return Err(format!("PANIC in finish()/drop after a fault at I/O call {fail_at} (sticky={sticky}; earlier error: {first_err:?}): {p}")),
        }
    }
    let kinds = st.kinds.lock().unwrap().clone();
    Ok(WRun { first_err, bytes: out, retried_bytes: retried, ops: st.count(), kinds })
}

fn op_name(op: &Op) -> &'static str {
    match op {
        Op::File { .. } => "start_file+write",
        Op::Dir { .. } => "add_directory",
        Op::Symlink { .. } => "add_symlink",
        Op::ExtraFile { .. } => "start_file_with_extra_data..end_extra_data+write",
        Op::Aligned { .. } => "start_file_aligned+write",
        Op::Comment(_) => "set_comment",
    }
}

/// (sticky, error kind) of the injected failure. A sticky `Interrupted` would make std's retry loops spin
/// forever (that is std's contract, not the crate's), so transient kinds are one-shot only.
const MODES: [(bool, u8); 5] = [(false, crate::sio::EK_OTHER), (true, crate::sio::EK_OTHER), (false, crate::sio::EK_EOF), (false, crate::sio::EK_INTR), (true, crate::sio::EK_EOF)];
const MODES_ONESHOT: [(bool, u8); 3] = [(false, crate::sio::EK_OTHER), (false, crate::sio::EK_EOF), (false, crate::sio::EK_INTR)];
static FAULT_RUNS: AtomicU64 = AtomicU64::new(0);
static RETRIED_OK: AtomicU64 = AtomicU64::new(0);
static BY_KIND: [AtomicU64; 4] = [AtomicU64::new(0), AtomicU64::new(0), AtomicU64::new(0), AtomicU64::new(0)];

fn passwords_of(s: &WScenario) -> Vec<Option<Vec<u8>>> {
    let mut v: Vec<Option<Vec<u8>>> = Vec::new();
    if let Some(b) = &s.base {
        v.extend(gen::model(b).0.iter().map(|m| m.password.as_ref().map(|x| x.as_bytes().to_vec())));
    }
    v.extend(gen::model(&s.program).0.iter().map(|m| m.password.as_ref().map(|x| x.as_bytes().to_vec())));
    v.extend(s.raw.iter().map(|_| None));
    v
}

/// Fault positions of a sweep over a run of `n` I/O calls: every call index while the run is short; for a
/// long run (e.g. `new_append` searching backwards through a 60 KB archive comment: two calls per byte) the
/// first and the last 1200 indices and 600 evenly spaced ones in between - the sweep is quadratic in `n`
/// and must stay a fixed amount of work.
fn fault_indices(n: usize) -> Vec<usize> {
    const EDGE: usize = 1200;
    const MID: usize = 600;
    if n <= 2 * EDGE + MID {
        return (0..n).collect();
    }
    let mut v: Vec<usize> = (0..EDGE).collect();
    let span = n - 2 * EDGE;
    v.extend((0..MID).map(|i| EDGE + i * span / MID));
    v.extend(n - EDGE..n);
    v
}

/// An archive that a LATER finish() reported as finished although an earlier call had failed: which entries it
/// holds is the caller's business (it saw the errors), but what it holds must be sound - the independent parser
/// accepts it (every unencrypted entry decodes to its CRC and size) and every entry reads back through the
/// crate, encrypted ones with one of the scenario's passwords.
fn sound_after_retry(bytes: &[u8], pws: &[Option<Vec<u8>>]) -> Result<(), String> {
    parse::parse(bytes, parse::Opts { lenient: true, allow_leading_gap: true, decode_limit: 1 << 24, allow_trailing: true })?;
    let mut za = zip::ZipArchive::new(Cursor::new(bytes)).map_err(|e| format!("crate reader: {e}"))?;
    let mut cands: Vec<Vec<u8>> = pws.iter().flatten().cloned().collect();
    cands.sort();
    cands.dedup();
    for i in 0..za.len() {
        let plain = match za.by_index(i) {
            Ok(mut f) => {
                let mut v = Vec::new();
                std::io::Read::read_to_end(&mut f, &mut v).map_err(|e| format!("entry {i} ({:?}) does not read back: {e}", f.name()))?;
                true
            }
            Err(_) => false,
        };
        if plain {
            continue;
        }
        let mut ok = false;
        for pw in &cands {
            if let Ok(Ok(mut f)) = za.by_index_decrypt(i, pw) {
                let mut v = Vec::new();
                if std::io::Read::read_to_end(&mut f, &mut v).is_ok() {
                    ok = true;
                    break;
                }
            }
        }
        if !ok {
            return Err(format!("entry {i} cannot be read back, neither without a password nor with any password the scenario used"));
        }
    }
    Ok(())
}

fn sweep_writer(s: &WScenario, info: &mut Info) -> Result<(), String> {
    let r0 = run_writer(s, usize::MAX, (false, 0), true)?;
    if let Some(e) = &r0.first_err {
        return Err(format!("harness: fault-free run reports an error: {e}"));
    }
    let pws = passwords_of(s);
    let l0 = if s.by_drop { None } else { Some(logical(r0.bytes.as_ref().ok_or("harness: no bytes")?, &pws).map_err(|e| format!("harness: fault-free archive unreadable: {e}"))?) };
    info.nontrivial = r0.ops > 0;
    let mut known: Option<String> = None;
    info.label_if(fault_indices(r0.ops).len() < r0.ops, "long run: sampled fault positions");
    for k in fault_indices(r0.ops) {
        for mode in MODES {
            let sticky = format!("{}, kind={}", mode.0, crate::sio::ek_name(mode.1));
            FAULT_RUNS.fetch_add(1, Ordering::Relaxed);
            BY_KIND[r0.kinds[k] as usize].fetch_add(1, Ordering::Relaxed);
            let r = run_writer(s, k, mode, false)?;
            if let Some(b) = &r.retried_bytes {
                RETRIED_OK.fetch_add(1, Ordering::Relaxed);
                if let Err(e) = sound_after_retry(b, &pws) {
                    let m = format!("fault at I/O call {k} ({}; sticky={sticky}): finish() failed, a second finish() reported success, but the archive it finished is not sound: {e}", kind_name(r0.kinds[k]));
                    if r0.kinds[k] == K_SEEK {
                        // listed open finding (exact signature: the failed call is a SEEK): after a failed seek
                        // while an entry's header is back-patched, the retried close recomputes the entry's
                        // sizes from wherever the stream was left
                        known.get_or_insert(m);
                        continue;
                    }
                    return Err(m);
                }
            }
            if r.first_err.is_none() {
                // no call reported the failure: the outcome must be the failure-free result
                if let (Some(l0), Some(b)) = (&l0, &r.bytes) {
                    let l = logical(b, &pws).map_err(|e| format!("fault at I/O call {k} ({}; sticky={sticky}) was reported by no call, yet the finished archive is broken: {e}", kind_name(r0.kinds[k])))?;
                    if l != *l0 {
                        return Err(format!("fault at I/O call {k} ({}; sticky={sticky}) was reported by no call, yet the finished archive holds different entries/content than the failure-free run", kind_name(r0.kinds[k])));
                    }
                }
            }
        }
    }
    if let Some(m) = known {
        return Err(format!("KNOWN:seek-fault-while-closing-then-finish-again: {m}"));
    }
    Ok(())
}


/// A writer whose sink starts beyond 4 GiB (sparse): every header offset needs a ZIP64 record and the
/// ZIP64 end record + locator are written - with two small entries, so that EVERY I/O call of the run,
/// in particular each write of those records, can be made to fail.
fn sweep_writer_far(start: u64, info: &mut Info) -> Result<(), String> {
    use crate::refzip::Content;
    use crate::sio::{Shared, SparseFile};
    let program = Program {
        ops: vec![
            Op::File { name: "far/deflated.txt".into(), opts: gen::Opts::plain(gen::Method::Deflated), chunks: vec![Content::Text { seed: 21, len: 1200 }] },
            Op::File { name: "far/stored.bin".into(), opts: gen::Opts::plain(gen::Method::Stored), chunks: vec![Content::Rand { seed: 22, len: 77 }] },
            Op::Comment(b"archive comment behind the ZIP64 end records".to_vec()),
        ],
    };
    type Logical = (Vec<(Vec<u8>, u32, u64, u64)>, Vec<u8>, Vec<(String, Result<Vec<u8>, ()>)>);
    let logical_far = |file: &Shared<SparseFile>| -> Result<Logical, String> {
        let p = parse::parse(file, parse::Opts { lenient: false, allow_leading_gap: true, decode_limit: 1 << 20, allow_trailing: false })?;
        let mut za = zip::ZipArchive::new(file.clone()).map_err(|e| format!("crate reader: {e}"))?;
        let mut v = Vec::new();
        for i in 0..za.len() {
            let mut f = za.by_index(i).map_err(|e| format!("crate reader: by_index({i}): {e}"))?;
            let mut c = Vec::new();
            let r = std::io::Read::read_to_end(&mut f, &mut c).map(|_| c).map_err(|_| ());
            v.push((f.name().to_string(), r));
        }
        Ok((p.entries.iter().map(|e| (e.name.clone(), e.crc, e.usize_, e.header_start)).collect(), p.comment, v))
    };
    let run = |fail_at: usize, mode: (bool, u8), record: bool| -> Result<(Option<String>, Shared<SparseFile>, usize, Vec<u8>, bool), String> {
        let st: Arc<FaultState> = FaultState::new_kind(fail_at, mode.0, record, mode.1);
        let file = Shared::new(SparseFile::at_position(start));
        let mut w = std::mem::ManuallyDrop::new(ZipWriter::new(FaultIo::new(file.clone(), st.clone())));
        let mut first_err: Option<String> = None;
        for (i, op) in program.ops.iter().enumerate() {
            match catch(|| gen::apply(&mut w, op)) {
                Ok(Ok(())) => {}
                Ok(Err(e)) => {
                    first_err.get_or_insert(e);
                }
                Err(p) => return Err(format!("PANIC in writer call #{i} on a sink beyond 4 GiB with a fault injected at I/O call {fail_at}: {p}")),
            }
        }
        let finished = match catch(|| w.finish().map(|_| ())) {
            Ok(Ok(())) => true,
            Ok(Err(e)) => {
                first_err.get_or_insert(format!("finish: {e}"));
                false
            }
            Err(p) => return Err(format!("PANIC in finish() on a sink beyond 4 GiB with a fault injected at I/O call {fail_at}: {p}")),
        };
        if let Err(p) = catch(|| {
            let _ = w.finish();
            unsafe { std::mem::ManuallyDrop::drop(&mut w) }
        }) {
            return Err(format!("PANIC in finish()/drop after a fault at I/O call {fail_at} (sink beyond 4 GiB): {p}"));
        }
        let kinds = st.kinds.lock().unwrap().clone();
        Ok((first_err, file, st.count(), kinds, finished))
    };
    let (e0, f0, n, kinds, _) = run(usize::MAX, (false, 0), true)?;
    if let Some(e) = e0 {
        return Err(format!("harness: fault-free run reports an error: {e}"));
    }
    let l0 = logical_far(&f0).map_err(|e| format!("harness: fault-free archive beyond 4 GiB unreadable: {e}"))?;
    if l0.0.iter().any(|e| e.3 < 0xFFFF_FFFF) && start >= (1 << 32) {
        return Err("harness: header offsets are not beyond 4 GiB".into());
    }
    info.nontrivial = n > 0;
    info.label_if(fault_indices(n).len() < n, "long run: sampled fault positions");
    for k in fault_indices(n) {
        for mode in MODES {
            FAULT_RUNS.fetch_add(1, Ordering::Relaxed);
            BY_KIND[kinds[k] as usize].fetch_add(1, Ordering::Relaxed);
            let (err, file, _, _, finished) = run(k, mode, false)?;
            if err.is_none() && finished {
                let what = format!("fault at I/O call {k} of {n} ({}; sticky={}, kind={}) on a sink starting at {start:#x} was reported by no call", kind_name(kinds[k]), mode.0, crate::sio::ek_name(mode.1));
                let l = logical_far(&file).map_err(|e| format!("{what}, yet the finished archive is broken: {e}"))?;
                if l != l0 {
                    return Err(format!("{what}, yet the finished archive differs from the failure-free one"));
                }
            }
        }
    }
    Ok(())
}

fn wverdict(r: Result<(), String>) -> Verdict {
    match r {
        Ok(()) => Verdict::Pass,
        Err(m) if m.starts_with("KNOWN:seek-fault-while-closing-then-finish-again") => Verdict::Known("seek-fault-while-closing-then-finish-again", m),
        Err(m) => Verdict::Fail(m),
    }
}

fn kind_name(k: u8) -> &'static str {
    match k {
        K_READ => "read",
        K_WRITE => "write",
        K_FLUSH => "flush",
        K_SEEK => "seek",
        _ => "?",
    }
}

#[derive(Clone, Debug, Serialize, Deserialize, Hash)]
pub struct RScenario {
    /// index into the seed list, or a generated program
    seed: Option<u16>,
    program: Program,
    stream: bool,
}

fn sweep_reader(bytes: &[u8], pws: &[Option<Vec<u8>>], stream: bool, start: usize, info: &mut Info) -> Result<(), String> {
    sweep_reader_x(bytes, pws, stream, start, info, &[4096], false)?;
    if stream {
        sweep_stream_skipping(bytes, start)?;
    }
    if !stream && pws.iter().any(|p| p.is_some()) {
        // encrypted entries once more with a persistent caller: tiny buffers, and read() is called again
        // after an error ("no panic, then or on any later call")
        info.label("persistent-small-buffer-caller");
        sweep_reader_x(bytes, pws, stream, start, info, &[5], true)?;
    }
    Ok(())
}

/// Streaming consumer that reads NOTHING of any entry (every entry is skipped by the drop-time drain), one-shot
/// fault at every I/O call. The drain's reaction to a reader error is a panic by design (accepted), a later call may
/// report an error (accepted); what must not happen is a clean end-of-entries with a different entry list.
fn sweep_stream_skipping(bytes: &[u8], start: usize) -> Result<(), String> {
    use super::c09::observe_stream_partial;
    let st0 = FaultState::new_kind(usize::MAX, false, true, 0);
    let (v0, c0) = observe_stream_partial(NoSeek(FaultIo::new(Cursor::new(&bytes[start..]), st0.clone())), &[4096], &[1])?;
    if !c0 {
        return Ok(()); // the stream cannot be followed to its end even without faults (encrypted / descriptor entries)
    }
    let n = st0.count();
    for k in fault_indices(n) {
        for mode in MODES_ONESHOT {
            FAULT_RUNS.fetch_add(1, Ordering::Relaxed);
            let st = FaultState::new_kind(k, mode.0, false, mode.1);
            let r = catch(|| observe_stream_partial(NoSeek(FaultIo::new(Cursor::new(&bytes[start..]), st.clone())), &[4096], &[1]));
            if let Ok(Ok((v, true))) = r {
                if v != v0 && mode.1 != crate::sio::EK_INTR {
                    let names = |x: &Vec<EObs>| x.iter().map(|e| format!("{:?}", e)).collect::<Vec<_>>().len();
                    return Err(format!("streaming reader, consumer skips every entry, fault at I/O call {k} of {n} (one-shot, kind={}): no call reported an error, the stream ended cleanly, but {} entries were listed instead of {} / with different metadata", crate::sio::ek_name(mode.1), names(&v), names(&v0)));
                }
            }
        }
    }
    Ok(())
}

fn sweep_reader_x(bytes: &[u8], pws: &[Option<Vec<u8>>], stream: bool, start: usize, info: &mut Info, bufs: &[usize], persist: bool) -> Result<(), String> {
    let run = |fail_at: usize, mode: (bool, u8), record: bool| -> Result<(Result<Vec<EObs>, ()>, usize, Vec<u8>), String> {
        let st = FaultState::new_kind(fail_at, mode.0, record, mode.1);
        let r = if stream {
            let (v, complete) = observe_stream(NoSeek(FaultIo::new(Cursor::new(&bytes[start..]), st.clone())), bufs)?;
            if complete {
                Ok(v)
            } else {
                // entries seen before the failure still count as results
                Ok(v.into_iter().chain(std::iter::once(EObs::failed())).collect())
            }
        } else {
            super::c09::observe_seekable_x(FaultIo::new(Cursor::new(bytes), st.clone()), pws, bufs, persist)?
        };
        let kinds = st.kinds.lock().unwrap().clone();
        Ok((r, st.count(), kinds))
    };
    let (r0, n, kinds) = catch(|| run(usize::MAX, (false, 0), true)).map_err(|p| format!("harness: fault-free read panicked: {p}"))??;
    let r0 = r0.map_err(|_| "harness: fault-free open failed".to_string())?;
    info.nontrivial = n > 0 && !r0.is_empty();
    info.label_if(fault_indices(n).len() < n, "long run: sampled fault positions");
    for k in fault_indices(n) {
        // streaming: one-shot only. A sticky failure also hits the drop-time drain of the entry
        // whose read just failed, and that drain panics by design ("Could not consume all of the
        // output of the current ZipFile") - a Drop, not a Result-returning call.
        for mode in if stream { &MODES_ONESHOT[..] } else if persist { &MODES[..2] } else { &MODES[..] } {
            let mode = *mode;
            let sticky = format!("{}, kind={}{}", mode.0, crate::sio::ek_name(mode.1), if persist { "; caller reads 5 bytes at a time and calls read() again after an error" } else { "" });
            FAULT_RUNS.fetch_add(1, Ordering::Relaxed);
            BY_KIND[kinds[k] as usize].fetch_add(1, Ordering::Relaxed);
            let (r, _, _) = catch(|| run(k, mode, false)).map_err(|p| format!("PANIC in the {} reader with a fault injected at I/O call {k} ({}; sticky={sticky}): {p}", if stream { "streaming" } else { "seekable" }, kind_name(kinds[k])))??;
            match r {
                Err(()) => {} // open reported an error
                Ok(v) => {
                    // every entry that was delivered without error must be the failure-free entry
                    for (i, e) in v.iter().enumerate() {
                        if e.is_failed() {
                            continue;
                        }
                        match r0.get(i) {
                            Some(e0) if e0 == e => {}
                            Some(_) if e.content_failed() => {}
                            _ => return Err(format!("fault at I/O call {k} ({}; sticky={sticky}): entry {i} was delivered without any error but differs from the failure-free run", kind_name(kinds[k]))),
                        }
                    }
                    if v.len() != r0.len() && !v.iter().any(|e| e.is_failed() || e.content_failed()) {
                        return Err(format!("fault at I/O call {k} ({}; sticky={sticky}): {} entries delivered without error, failure-free run has {}", kind_name(kinds[k]), v.len(), r0.len()));
                    }
                }
            }
        }
    }
    Ok(())
}

/// Archives with more than 65535 entries (ZIP64 end records that MUST be found): faults at every I/O
/// call index of the opening phase (the first `kmax` calls) of `ZipArchive::new` and of
/// `ZipWriter::new_append` (+ one appended entry + finish). A full sweep over the ~10^6 later calls of
/// such an archive is not feasible; they repeat the per-entry pattern covered by the small scenarios.
fn sweep_big_open(n_entries: u32, kmax: usize, append: bool) -> Result<(), String> {
    use std::io::Write;
    let bytes = {
        let mut c = Cursor::new(Vec::new());
        let mut w = std::mem::ManuallyDrop::new(ZipWriter::new(&mut c));
        let o = zip::write::FileOptions::default().compression_method(zip::CompressionMethod::Stored).last_modified_time(zip::DateTime::default());
        for i in 0..n_entries {
            w.start_file(format!("b{i}"), o).map_err(|e| format!("harness: {e}"))?;
            if i % 8191 == 1 {
                w.write_all(b"x").map_err(|e| format!("harness: {e}"))?;
            }
        }
        w.finish().map_err(|e| format!("harness: {e}"))?;
        c.into_inner()
    };
    for k in 0..kmax {
        for mode in MODES {
            let sticky = format!("{}, kind={}", mode.0, crate::sio::ek_name(mode.1));
            FAULT_RUNS.fetch_add(1, Ordering::Relaxed);
            let st = FaultState::new_kind(k, mode.0, false, mode.1);
            if !append {
                let r = catch(|| zip::ZipArchive::new(FaultIo::new(Cursor::new(&bytes[..]), st.clone()))).map_err(|p| format!("PANIC in ZipArchive::new of a {n_entries}-entry archive with a fault at I/O call {k} (sticky={sticky}): {p}"))?;
                if let Ok(mut za) = r {
                    if za.len() != n_entries as usize {
                        return Err(format!("fault at I/O call {k} of ZipArchive::new (sticky={sticky}) was reported by no call, yet the archive is opened with {} entries instead of {n_entries}", za.len()));
                    }
                    for i in [0u32, n_entries - 1] {
                        if let Ok(f) = za.by_index_raw(i as usize) {
                            if f.name() != format!("b{i}") {
                                return Err(format!("fault at I/O call {k} of ZipArchive::new (sticky={sticky}): entry {i} is {:?} instead of \"b{i}\"", f.name()));
                            }
                        }
                    }
                }
            } else {
                let sink = FaultIo::new(crate::sio::BoundedSink::new(bytes.clone(), 1 << 20), st.clone());
                let r = catch(|| ZipWriter::new_append(sink)).map_err(|p| format!("PANIC in new_append on a {n_entries}-entry archive with a fault at I/O call {k} (sticky={sticky}): {p}"))?;
                let Ok(w) = r else { continue };
                let mut w = std::mem::ManuallyDrop::new(w);
                let o = zip::write::FileOptions::default().compression_method(zip::CompressionMethod::Stored).last_modified_time(zip::DateTime::default());
                let res = catch(|| -> Result<Vec<u8>, String> {
                    w.start_file("appended", o).map_err(|e| e.to_string())?;
                    w.write_all(b"appended").map_err(|e| e.to_string())?;
                    Ok(w.finish().map_err(|e| e.to_string())?.inner.data)
                })
                .map_err(|p| format!("PANIC while appending to a {n_entries}-entry archive after a fault at I/O call {k} of new_append (sticky={sticky}): {p}"))?;
                if let Ok(out) = res {
                    let za = zip::ZipArchive::new(Cursor::new(&out[..])).map_err(|e| format!("fault at I/O call {k} of new_append (sticky={sticky}) was reported by no call, yet the appended archive does not open: {e}"))?;
                    if za.len() != n_entries as usize + 1 {
                        return Err(format!("fault at I/O call {k} of new_append (sticky={sticky}) was reported by no call, yet the appended archive has {} entries instead of {}", za.len(), n_entries + 1));
                    }
                }
            }
        }
    }
    Ok(())
}

pub fn run(ctx: &mut Ctx) {
    ctx.rule("each scenario is first run failure-free under a counting stream (n I/O calls), then re-run with a hard error injected at EVERY call index k<n (runs longer than 3000 I/O calls: the first and last 1200 indices and 600 evenly spaced ones), as a one-shot and as a sticky failure of kind Other, and with the kinds UnexpectedEof (one-shot, sticky) and Interrupted (one-shot: std's own retry loops swallow it, then the result must be the failure-free one); after the first error the scenario keeps issuing its remaining calls, then finish(), a second finish() and drop. readers: open + read every entry (seekable; streaming fully consumed, and once more with a consumer that skips every entry - there a panic of the drop-time drain is accepted, a clean end with a different entry list is not; archives with encrypted entries a second time with a caller that reads 5 bytes at a time and calls read() again after an error) of the seed archives (plain, ZIP64, ZipCrypto, AES) and generated archives. writers: generated programs over all entry kinds, methods, extra data, aligned, ZipCrypto, optional append base and raw copies, completed by finish or drop; half of them with a caller that issues EVERY call of an operation whatever the earlier ones returned (write after a refused start_file, end_extra_data after a failed write) and calls flush() after each operation. writers_methods: every method x every kind of following operation, the same two callers. writers_far: two entries + comment written to a sparse sink that starts beyond 4 GiB, so the ZIP64 end record and locator are written and EVERY I/O call of the run (each field of those records) is failed in turn. big_open: archives with > 65535 entries, a fault at every one of the first K I/O calls (quick 48, thorough 200) of ZipArchive::new and of new_append (+1 entry, finish). Oracle: no panic/abort anywhere; when a second finish() reports success after the first one failed, the archive it finished must be sound (independent parser accepts it, every entry reads back - encrypted ones with a password the scenario used); if no call returned an error the logical result (entries, content, comment as seen by the crate reader and the independent parser) equals the failure-free result. Non-trivial = the failure-free run performs >=1 I/O call. evaluations counts scenarios; coverage.fault_runs counts injected-fault executions.");
    ctx.assume("streaming entries are read to the end, so the failure lands in a Result-returning call (the documented panic in the streaming ZipFile's drop-time drain is outside the property's wording)");
    ctx.assume("completion by drop swallows errors by design; for drop scenarios only the no-panic clause is checked");
    let seeds = seeds::small_seeds();
    let nseeds = seeds.len();
    let nr = ctx.q(50, 1500);
    ctx.max_shrink_iters = 200;
    ctx.explore::<RScenario>(
        "readers",
        nr,
        &|| {
            (prop_oneof![1 => any::<u16>().prop_map(Some), 1 => Just(None)], gen::program(4, 3000, true, true), any::<bool>(), prop_oneof![1 => Just(None), 1 => gen::nested_zip().prop_map(Some)])
                .prop_map(|(seed, mut program, stream, nested)| {
                    // a stored nested archive as the last member puts a second end record into the search window
                    if let Some(n) = nested {
                        // the comment goes in half of the cases; in the others a short one is kept / added: the
                        // read of the comment bytes is one of the I/O calls of the end-record parse
                        let keep = n.len() % 2 == 0;
                        program.ops.retain(|o| !matches!(o, Op::Comment(_)));
                        if keep {
                            program.ops.push(Op::Comment(b"comment behind a nested archive".to_vec()));
                        }
                        program.ops.push(Op::File { name: "nested.zip".into(), opts: gen::Opts::plain(gen::Method::Stored), chunks: vec![n] });
                    }
                    RScenario { seed, program: gen::tame(program), stream }
                })
                .boxed()
        },
        &|s: &RScenario, info: &mut Info| {
            info.label(if s.stream { "streaming" } else { "seekable" });
            let r = match s.seed {
                Some(k) => {
                    let seed = &seeds[(k as usize * nseeds) >> 16];
                    info.label("seed-archive");
                    let start = seed.built.as_ref().map(|b| b.prefix_len as usize).unwrap_or(0);
                    sweep_reader(&seed.bytes, &seed.passwords, s.stream, start, info)
                }
                None => {
                    info.label("generated-archive");
                    match gen::run_program(&s.program, false) {
                        Ok(bytes) => {
                            let pws: Vec<Option<Vec<u8>>> = gen::model(&s.program).0.iter().map(|m| m.password.as_ref().map(|x| x.as_bytes().to_vec())).collect();
                            sweep_reader(&bytes, &pws, s.stream, 0, info)
                        }
                        Err(e) => Err(format!("harness: {e}")),
                    }
                }
            };
            Verdict::from_result(r)
        },
    );
    #[derive(Clone, Debug, Serialize, Deserialize, Hash)]
    struct BigOpen {
        entries: u32,
        append: bool,
    }
    let bigs: Vec<u32> = ctx.q(vec![65537], vec![65535, 65536, 65537, 70000]);
    let kmax = ctx.q(48usize, 200);
    ctx.enumerate::<BigOpen>("big_open", bigs.len() as u64 * 2, &|i| BigOpen { entries: bigs[i as usize / 2], append: i % 2 == 1 }, &|b: &BigOpen, info: &mut Info| {
        info.nontrivial = true;
        info.label(if b.append { "new_append" } else { "ZipArchive::new" });
        Verdict::from_result(sweep_big_open(b.entries, kmax, b.append))
    });
    // every method followed by every kind of operation, issued by a caller that carries on after errors:
    // makes sure each compressor's closing path meets a fault with a write()/flush() right behind it
    {
        use crate::refzip::Content;
        let methods = [gen::Method::Bzip2, gen::Method::Zstd, gen::Method::Stored, gen::Method::Deflated];
        let total = (methods.len() * 4 * 2) as u64;
        ctx.enumerate::<WScenario>(
            "writers_methods",
            total,
            &|i| {
                let i = i as usize;
                let m = methods[i % 4];
                let first = Op::File { name: "first".into(), opts: gen::Opts::plain(m), chunks: vec![Content::Text { seed: 11, len: 2500 }, Content::Rand { seed: 12, len: 300 }] };
                let o2 = gen::Opts::plain(methods[(i / 16 + 2) % 4]);
                let second = match (i / 4) % 4 {
                    0 => Op::File { name: "second".into(), opts: o2, chunks: vec![Content::Text { seed: 13, len: 400 }] },
                    1 => Op::Dir { name: "dir".into(), opts: gen::Opts::plain(gen::Method::Stored) },
                    2 => Op::ExtraFile { name: "second-x".into(), opts: o2, local: vec![crate::refzip::Extra { id: 0xcafe, data: vec![1, 2, 3] }], central: Some(vec![crate::refzip::Extra { id: 0xbeef, data: vec![4] }]), chunks: vec![Content::Text { seed: 14, len: 300 }] },
                    _ => Op::Aligned { name: "second-a".into(), opts: o2, align: 64, chunks: vec![Content::Text { seed: 15, len: 300 }] },
                };
                WScenario { base: None, program: Program { ops: vec![first, second] }, raw: vec![], by_drop: false, persistent: (i / 16) % 2 == 0 }
            },
            &|s: &WScenario, info: &mut Info| {
                if let Some(Op::File { opts, .. }) = s.program.ops.first() {
                    info.label(["first entry Stored", "first entry Deflated", "first entry Bzip2", "first entry Zstd"][match opts.method { gen::Method::Stored => 0, gen::Method::Deflated => 1, gen::Method::Bzip2 => 2, gen::Method::Zstd => 3 }]);
                }
                info.label_if(s.persistent, "caller carries on inside an operation + flush()");
                wverdict(sweep_writer(s, info))
            },
        );
    }
    let fars: Vec<u64> = ctx.q(vec![(1u64 << 32) + 5], vec![(1u64 << 32) - 700, (1u64 << 32) + 5, 1u64 << 33]);
    ctx.enumerate::<u64>("writers_far", fars.len() as u64, &|i| fars[i as usize], &|start: &u64, info: &mut Info| {
        info.label("zip64-end-records-under-fault");
        Verdict::from_result(sweep_writer_far(*start, info))
    });
    let nw = ctx.q(60, 2000);
    ctx.explore::<WScenario>(
        "writers",
        nw,
        &|| {
            (
                prop_oneof![2 => Just(None), 1 => gen::program(3, 2000, true, true).prop_map(Some)],
                gen::program(5, 3000, true, true),
                proptest::collection::vec((any::<u16>(), prop_oneof![Just(None), "[a-z]{1,6}".prop_map(Some)]), 0..3),
                prop_oneof![3 => Just(false), 1 => Just(true)],
                any::<bool>(),
            )
                .prop_map(|(base, program, raw, by_drop, persistent)| WScenario { base: base.map(gen::tame), program: gen::tame(program), raw, by_drop, persistent })
                .boxed()
        },
        &|s: &WScenario, info: &mut Info| {
            info.label_if(s.base.is_some(), "append");
            info.label_if(!s.raw.is_empty(), "raw-copy");
            info.label_if(s.by_drop, "complete-by-drop");
            info.label_if(s.persistent, "caller carries on inside an operation + flush()");
            info.label_if(s.program.ops.iter().any(|o| matches!(o, Op::ExtraFile { .. } | Op::Aligned { .. })), "extra/aligned");
            info.label_if(gen::model(&s.program).0.iter().any(|m| m.password.is_some()), "zipcrypto");
            wverdict(sweep_writer(s, info))
        },
    );
    ctx.max_shrink_iters = 2048;
    ctx.extra.insert("fault_runs".into(), serde_json::json!(FAULT_RUNS.load(Ordering::Relaxed)));
    ctx.add_class("writers: a second finish() succeeded after a failed one (archive checked for soundness)", RETRIED_OK.load(Ordering::Relaxed));
    ctx.add_class("fault-at:read", BY_KIND[0].load(Ordering::Relaxed));
    ctx.add_class("fault-at:write", BY_KIND[1].load(Ordering::Relaxed));
    ctx.add_class("fault-at:flush", BY_KIND[2].load(Ordering::Relaxed));
    ctx.add_class("fault-at:seek", BY_KIND[3].load(Ordering::Relaxed));
}
