//! C12 — any order of writer calls is safe; documented misuse is reported, not absorbed.
use super::c02::zipcrypto_plain;
use crate::engine::{Ctx, Info, Verdict};
use crate::gen::is_reserved_id;
use crate::refzip::parse;
use crate::util::catch;
use proptest::prelude::*;
use serde::{Deserialize, Serialize};
use std::io::{Cursor, Read, Write};
use zip::unstable::write::FileOptionsExt;
use zip::write::FileOptions;
use zip::{CompressionMethod, ZipWriter};

#[derive(Clone, Copy, Debug, Serialize, Deserialize, Hash, PartialEq, Eq)]
pub enum M {
    Stored,
    Deflated,
    Bzip2,
    Zstd,
    Aes,
    Unsupported14,
}
#[derive(Clone, Copy, Debug, Serialize, Deserialize, Hash, PartialEq, Eq)]
pub enum L {
    None,
    InRange,
    Below,
    Above,
}
#[derive(Clone, Copy, Debug, Serialize, Deserialize, Hash, PartialEq, Eq)]
pub struct O {
    m: M,
    l: L,
    large: bool,
    /// the options also carry the ZipCrypto password (with_deprecated_encryption)
    #[serde(default)]
    pw: bool,
}
impl O {
    fn level(&self) -> Option<i32> {
        match (self.l, self.m) {
            (L::None, _) => None,
            (L::InRange, M::Zstd) => Some(-3),
            (L::InRange, _) => Some(4),
            (L::Below, M::Zstd) => Some(-200000),
            (L::Below, _) => Some(-1),
            (L::Above, M::Zstd) => Some(23),
            (L::Above, _) => Some(10),
        }
    }
    #[allow(deprecated)]
    fn zip(&self) -> FileOptions {
        let m = match self.m {
            M::Stored => CompressionMethod::Stored,
            M::Deflated => CompressionMethod::Deflated,
            M::Bzip2 => CompressionMethod::Bzip2,
            M::Zstd => CompressionMethod::Zstd,
            M::Aes => CompressionMethod::Aes,
            M::Unsupported14 => CompressionMethod::Unsupported(14),
        };
        let o = FileOptions::default().compression_method(m).compression_level(self.level()).large_file(self.large).last_modified_time(zip::DateTime::default());
        if self.pw {
            o.with_deprecated_encryption(b"c12pw")
        } else {
            o
        }
    }
    fn password(&self) -> Option<Vec<u8>> {
        if self.pw {
            Some(b"c12pw".to_vec())
        } else {
            None
        }
    }
    /// documented to be refused: unsupported method, or a level outside a compressing method's range
    fn must_fail(&self) -> bool {
        match self.m {
            M::Aes | M::Unsupported14 => true,
            M::Stored => false,
            _ => matches!(self.l, L::Below | L::Above),
        }
    }
    /// behaviour not pinned down by the docs (Stored with an explicit level; Zstd far below -7)
    fn unspecified(&self) -> bool {
        (self.m == M::Stored && self.l != L::None) || (self.m == M::Zstd && self.l == L::Below)
    }
    fn method_id(&self) -> u16 {
        match self.m {
            M::Stored => 0,
            M::Deflated => 8,
            M::Bzip2 => 12,
            M::Zstd => 93,
            M::Aes => 99,
            M::Unsupported14 => 14,
        }
    }
}

#[derive(Clone, Copy, Debug, Serialize, Deserialize, Hash, PartialEq, Eq)]
pub enum D {
    Plain,
    Empty,
    Big,
    ExtraValid,
    ExtraValid2,
    ExtraReserved,
    ExtraZip64,
    ExtraTruncated,
    ExtraOversize,
    /// one 3-byte record with this header ID (reserved or not: the model decides)
    ExtraId(u16),
    /// a valid record followed by a record with this header ID
    ExtraIdSecond(u16),
}
impl D {
    fn bytes(&self) -> Vec<u8> {
        let rec = |id: u16, n: usize| {
            let mut v = id.to_le_bytes().to_vec();
            v.extend_from_slice(&(n as u16).to_le_bytes());
            v.extend(std::iter::repeat(0x42).take(n));
            v
        };
        match self {
            D::Plain => b"hello, zip".to_vec(),
            D::Empty => vec![],
            D::Big => crate::refzip::Content::Text { seed: 12, len: 40000 }.expand(),
            D::ExtraValid => rec(0xbeef, 5),
            D::ExtraValid2 => rec(0xfade, 0),
            D::ExtraReserved => rec(0x000a, 4),
            D::ExtraZip64 => rec(0x0001, 8),
            D::ExtraTruncated => vec![0xef, 0xbe, 9, 0, 1, 2],
            D::ExtraOversize => rec(0xbeef, 65535),
            D::ExtraId(id) => rec(*id, 3),
            D::ExtraIdSecond(id) => {
                let mut v = rec(0xbeef, 2);
                v.extend(rec(*id, 1));
                v
            }
        }
    }
}

#[derive(Clone, Debug, Serialize, Deserialize, Hash, PartialEq, Eq)]
pub enum Call {
    StartFile(u8, O),
    StartEncrypted(u8),
    StartExtra(u8, O),
    StartAligned(u8, O, u16),
    Write(D),
    EndExtra,
    EndLocalStartCentral,
    AddDir(u8, O),
    AddSymlink(u8, O),
    SetComment(u8),
    RawCopy(u8, bool),
    Flush,
    Finish,
    /// start_file (0) / add_directory (1) / add_symlink (2) with a name of 65536 + k bytes: cannot be represented
    StartLong(u8, u8),
}

fn long_name(k: u8) -> String {
    "L".repeat(65536 + (k as usize % 3) * 7)
}

fn name(i: u8) -> String {
    ["a.txt", "dir/b", "c", "é.bin", "", "dup", "dup", "x/y/z"][(i % 8) as usize].to_string()
}
fn comment(i: u8) -> Vec<u8> {
    match i % 4 {
        0 => vec![],
        1 => b"short".to_vec(),
        2 => vec![b'c'; 65535],
        _ => vec![b'x'; 65536],
    }
}

// ---------------------------------------------------------------- reference model
#[derive(Clone, Debug, PartialEq)]
enum St {
    Idle,
    File,
    ExtraLocal { buf: Vec<u8>, bad_opt: bool, large: bool },
    ExtraCentral { buf: Vec<u8>, large: bool },
    AfterRaw,
    /// after a refused over-long name: the previous entry is complete (whether the writer closed it or
    /// left it open is not documented, so a following write() may go either way)
    JustClosed,
    Finished,
    Unspecified,
}
#[derive(Clone, Debug)]
struct MEntry {
    name: String,
    content: Vec<u8>,
    method: u16,
    password: Option<Vec<u8>>,
    raw: bool,
}
#[derive(Clone, Copy, Debug, PartialEq)]
enum Expect {
    Ok,
    Err,
    Either,
}
struct Model {
    st: St,
    entries: Vec<MEntry>,
    comment: Vec<u8>,
    /// once the history became unspecified: how many leading entries had been completed before that
    /// point (they must still be in the archive, unchanged, whenever finish() succeeds)
    frozen_prefix: Option<usize>,
}

fn extra_valid(buf: &[u8], large: bool) -> bool {
    if buf.len() + if large { 20 } else { 0 } > 65535 {
        return false;
    }
    let mut p = 0;
    while p < buf.len() {
        if buf.len() - p < 4 {
            return false;
        }
        let id = u16::from_le_bytes([buf[p], buf[p + 1]]);
        let len = u16::from_le_bytes([buf[p + 2], buf[p + 3]]) as usize;
        if id == 1 || is_reserved_id(id) || p + 4 + len > buf.len() {
            return false;
        }
        p += 4 + len;
    }
    true
}

static BIG64K: [u8; 65536] = {
    let mut a = [0u8; 65536];
    let mut i = 0;
    while i < 65536 {
        a[i] = (i as u32).wrapping_mul(2654435761).to_le_bytes()[3];
        i += 1;
    }
    a
};
/// raw-copy sources: a deflated text, a small stored blob, an empty entry, and a stored entry of exactly
/// 65536 bytes (a whole number of typical copy-buffer sizes)
const SRC: [(&str, &[u8]); 4] = [("src/deflated.txt", b"raw copy source, deflated deflated deflated deflated"), ("src/stored.bin", b"\x00\x01\x02stored"), ("src/empty", b""), ("src/exactly-64k.bin", &BIG64K)];

impl Model {
    /// implicit end of the current entry when a new entry/finish is requested
    /// Extra data was refused (reserved / ZIP64 / malformed / oversize). The call must return Err; what
    /// the writer does afterwards (stay wedged in extra-data mode, or discard the data and carry on) is
    /// not documented, so everything later is unspecified - except that the entries completed before
    /// must survive and any archive a later finish() reports as a success must be valid.
    fn refused_extra(&mut self) -> Expect {
        self.go_unspecified();
        Expect::Err
    }
    fn go_unspecified(&mut self) {
        if self.frozen_prefix.is_none() {
            let open = !matches!(self.st, St::Idle | St::Finished); // JustClosed: the last entry may still be open
            self.frozen_prefix = Some(self.entries.len().saturating_sub(if open { 1 } else { 0 }));
        }
        self.st = St::Unspecified;
    }

    fn close_current(&mut self) -> Expect {
        match self.st.clone() {
            St::ExtraLocal { buf, bad_opt, large } => {
                if !extra_valid(&buf, large) {
                    return self.refused_extra();
                }
                if bad_opt {
                    self.go_unspecified();
                    return Expect::Err;
                }
                self.st = St::Idle;
                Expect::Ok
            }
            St::ExtraCentral { buf, large } => {
                if !extra_valid(&buf, large) {
                    return self.refused_extra();
                }
                self.st = St::Idle;
                Expect::Ok
            }
            St::Finished => Expect::Err,
            St::Unspecified => Expect::Either,
            _ => {
                self.st = St::Idle;
                Expect::Ok
            }
        }
    }

    /// A call that must be refused because of its argument (unrepresentable name / comment). Whether the
    /// refusal leaves the writer untouched or has already closed the previous entry is not documented:
    /// both are modelled, so the end claim survives such a refusal.
    fn refused_call(&mut self) -> Expect {
        match self.st.clone() {
            St::Finished => Expect::Err,
            St::ExtraLocal { buf, large, .. } | St::ExtraCentral { buf, large } => {
                if extra_valid(&buf, large) {
                    // pending extra data either still open or already ended
                    self.go_unspecified();
                }
                Expect::Err
            }
            _ => {
                self.st = St::JustClosed;
                Expect::Err
            }
        }
    }

    fn step(&mut self, c: &Call) -> Expect {
        if self.st == St::Unspecified {
            return Expect::Either;
        }
        match c {
            Call::SetComment(i) => {
                self.comment = comment(*i);
                Expect::Ok
            }
            Call::Flush => Expect::Either,
            Call::Write(d) => match &mut self.st {
                St::Idle | St::Finished => Expect::Err,
                St::File => {
                    self.entries.last_mut().unwrap().content.extend_from_slice(&d.bytes());
                    Expect::Ok
                }
                St::ExtraLocal { buf, .. } | St::ExtraCentral { buf, .. } => {
                    buf.extend_from_slice(&d.bytes());
                    Expect::Ok
                }
                St::AfterRaw | St::JustClosed => {
                    self.go_unspecified();
                    Expect::Either
                }
                St::Unspecified => Expect::Either,
            },
            Call::EndExtra => match self.st.clone() {
                St::ExtraLocal { buf, bad_opt, large } => {
                    if !extra_valid(&buf, large) {
                        return self.refused_extra();
                    }
                    if bad_opt {
                        self.go_unspecified();
                        return Expect::Err;
                    }
                    self.st = St::File;
                    Expect::Ok
                }
                St::ExtraCentral { buf, large } => {
                    if !extra_valid(&buf, large) {
                        return self.refused_extra();
                    }
                    self.st = St::File;
                    Expect::Ok
                }
                _ => Expect::Err,
            },
            Call::EndLocalStartCentral => match self.st.clone() {
                St::ExtraLocal { buf, bad_opt, large } => {
                    if !extra_valid(&buf, large) {
                        return self.refused_extra();
                    }
                    if bad_opt {
                        self.go_unspecified();
                        return Expect::Err;
                    }
                    self.st = St::ExtraCentral { buf: vec![], large };
                    Expect::Ok
                }
                St::ExtraCentral { .. } => {
                    self.go_unspecified();
                    Expect::Either
                }
                _ => Expect::Err,
            },
            Call::StartFile(n, o) => {
                let e = self.close_current();
                if e != Expect::Ok {
                    return e;
                }
                if o.unspecified() {
                    self.go_unspecified();
                    return Expect::Either;
                }
                if o.must_fail() {
                    self.go_unspecified();
                    return Expect::Err;
                }
                self.entries.push(MEntry { name: name(*n), content: vec![], method: o.method_id(), password: o.password(), raw: false });
                self.st = St::File;
                Expect::Ok
            }
            Call::StartEncrypted(n) => {
                let e = self.close_current();
                if e != Expect::Ok {
                    return e;
                }
                self.entries.push(MEntry { name: name(*n), content: vec![], method: 8, password: Some(b"c12pw".to_vec()), raw: false });
                self.st = St::File;
                Expect::Ok
            }
            Call::StartExtra(n, o) => {
                let e = self.close_current();
                if e != Expect::Ok {
                    return e;
                }
                if o.unspecified() {
                    self.go_unspecified();
                    return Expect::Either;
                }
                // the option error may surface here or only when the extra data is ended
                self.entries.push(MEntry { name: name(*n), content: vec![], method: o.method_id(), password: o.password(), raw: false });
                self.st = St::ExtraLocal { buf: vec![], bad_opt: o.must_fail(), large: o.large };
                if o.must_fail() {
                    Expect::Either
                } else {
                    Expect::Ok
                }
            }
            Call::StartAligned(n, o, align) => {
                let e = self.close_current();
                if e != Expect::Ok {
                    return e;
                }
                if o.unspecified() {
                    self.go_unspecified();
                    return Expect::Either;
                }
                if o.must_fail() {
                    self.go_unspecified();
                    return Expect::Err;
                }
                if *align > 32768 {
                    // may be refused (padding record cannot always be represented)
                    self.go_unspecified();
                    return Expect::Either;
                }
                self.entries.push(MEntry { name: name(*n), content: vec![], method: o.method_id(), password: o.password(), raw: false });
                self.st = St::File;
                Expect::Ok
            }
            Call::AddDir(n, o) => {
                let e = self.close_current();
                if e != Expect::Ok {
                    return e;
                }
                let mut nm = name(*n);
                if !nm.ends_with('/') && !nm.ends_with('\\') {
                    nm.push('/');
                }
                self.entries.push(MEntry { name: nm, content: vec![], method: 0, password: o.password(), raw: false });
                self.st = St::Idle;
                Expect::Ok
            }
            Call::AddSymlink(n, o) => {
                let e = self.close_current();
                if e != Expect::Ok {
                    return e;
                }
                self.entries.push(MEntry { name: name(*n), content: b"link/target".to_vec(), method: 0, password: o.password(), raw: false });
                self.st = St::Idle;
                Expect::Ok
            }
            Call::RawCopy(i, rename) => {
                let e = self.close_current();
                if e != Expect::Ok {
                    return e;
                }
                let k = (*i as usize) % SRC.len();
                self.entries.push(MEntry { name: if *rename { format!("renamed{k}") } else { SRC[k].0.to_string() }, content: SRC[k].1.to_vec(), method: if k == 0 { 8 } else { 0 }, password: None, raw: true });
                self.st = St::AfterRaw;
                Expect::Ok
            }
            Call::StartLong(..) => self.refused_call(),
            Call::Finish => {
                if self.comment.len() > 65535 {
                    // must be refused; a caller may then set a shorter comment and finish again
                    return self.refused_call();
                }
                let e = self.close_current();
                if e != Expect::Ok {
                    return e;
                }
                self.st = St::Finished;
                Expect::Ok
            }
        }
    }
}

fn source_archive() -> Vec<u8> {
    let mut c = Cursor::new(Vec::new());
    {
        let mut w = ZipWriter::new(&mut c);
        for (k, (n, d)) in SRC.iter().enumerate() {
            let o = FileOptions::default().compression_method(if k == 0 { CompressionMethod::Deflated } else { CompressionMethod::Stored }).last_modified_time(zip::DateTime::default());
            w.start_file(*n, o).unwrap();
            w.write_all(d).unwrap();
        }
        w.finish().unwrap();
    }
    c.into_inner()
}

/// Runs the sequence against the real writer and the model. The sequence is always followed by
/// finish() (if not finished) and drop.
pub fn check_sequence(seq: &[Call], info: &mut Info) -> Result<(), String> {
    let src = source_archive();
    let mut za = zip::ZipArchive::new(Cursor::new(&src[..])).map_err(|e| format!("harness: {e}"))?;
    let mut model = Model { st: St::Idle, entries: vec![], comment: vec![], frozen_prefix: None };
    let mut w = std::mem::ManuallyDrop::new(ZipWriter::new(Cursor::new(Vec::new())));
    let mut out: Option<Vec<u8>> = None;
    let mut end_claim = true; // false once the model passed through Unspecified
    let mut saw_expected_err = false;
    let mut full: Vec<Call> = seq.to_vec();
    full.push(Call::Finish);
    for (i, c) in full.iter().enumerate() {
        let was_finished = model.st == St::Finished;
        let exp = model.step(c);
        if model.st == St::Unspecified {
            end_claim = false;
        }
        let res: Result<Result<(), String>, String> = catch(|| match c {
            Call::StartFile(n, o) => w.start_file(name(*n), o.zip()).map_err(|e| e.to_string()),
            Call::StartEncrypted(n) => w.start_file(name(*n), FileOptions::default().compression_method(CompressionMethod::Deflated).last_modified_time(zip::DateTime::default()).with_deprecated_encryption(b"c12pw")).map_err(|e| e.to_string()),
            Call::StartExtra(n, o) => w.start_file_with_extra_data(name(*n), o.zip()).map(|_| ()).map_err(|e| e.to_string()),
            Call::StartAligned(n, o, a) => w.start_file_aligned(name(*n), o.zip(), *a).map(|_| ()).map_err(|e| e.to_string()),
            Call::Write(d) => w.write_all(&d.bytes()).map_err(|e| e.to_string()),
            Call::EndExtra => w.end_extra_data().map(|_| ()).map_err(|e| e.to_string()),
            Call::EndLocalStartCentral => w.end_local_start_central_extra_data().map(|_| ()).map_err(|e| e.to_string()),
            Call::AddDir(n, o) => w.add_directory(name(*n), o.zip()).map_err(|e| e.to_string()),
            Call::AddSymlink(n, o) => w.add_symlink(name(*n), "link/target", o.zip()).map_err(|e| e.to_string()),
            Call::SetComment(k) => {
                w.set_raw_comment(comment(*k));
                Ok(())
            }
            Call::RawCopy(k, rename) => {
                let k = (*k as usize) % SRC.len();
                let f = za.by_index_raw(k).map_err(|e| format!("harness: {e}"))?;
                if *rename {
                    w.raw_copy_file_rename(f, format!("renamed{k}")).map_err(|e| e.to_string())
                } else {
                    w.raw_copy_file(f).map_err(|e| e.to_string())
                }
            }
            Call::Flush => w.flush().map_err(|e| e.to_string()),
            Call::StartLong(kind, k) => match kind % 3 {
                0 => w.start_file(long_name(*k), FileOptions::default().last_modified_time(zip::DateTime::default())).map_err(|e| e.to_string()),
                1 => w.add_directory(long_name(*k), FileOptions::default().last_modified_time(zip::DateTime::default())).map_err(|e| e.to_string()),
                _ => w.add_symlink(long_name(*k), "t", FileOptions::default().last_modified_time(zip::DateTime::default())).map_err(|e| e.to_string()),
            },
            Call::Finish => match w.finish() {
                Ok(c) => {
                    out = Some(c.into_inner());
                    Ok(())
                }
                Err(e) => Err(e.to_string()),
            },
        });
        let res = res.map_err(|p| format!("call #{i} {c:?} PANICKED: {p}  (sequence so far: {:?})", &full[..=i]))?;
        match (exp, &res) {
            (Expect::Ok, Err(e)) => {
                // Write(Empty) via write_all never calls write(): nothing to refuse
                return Err(format!("call #{i} {c:?} is valid in its state but failed: {e}  (sequence: {:?})", &full[..=i]));
            }
            (Expect::Err, Ok(())) => {
                if matches!(c, Call::Write(D::Empty)) {
                    // write_all(&[]) performs no write call at all
                } else {
                    return Err(format!("call #{i} {c:?} is documented misuse in this state but returned Ok  (sequence: {:?})", &full[..=i]));
                }
            }
            (Expect::Err, Err(_)) => saw_expected_err = true,
            _ => {}
        }
        if matches!(c, Call::Finish) && res.is_ok() && was_finished {
            return Err(format!("second finish() returned Ok  (sequence: {:?})", &full[..=i]));
        }
        // a finish() that succeeds at any point fixes the end claim
        if matches!(c, Call::Finish) && res.is_ok() && end_claim {
            let bytes = out.as_ref().unwrap();
            check_end_claim(bytes, &model).map_err(|e| format!("finish() succeeded but {e}  (sequence: {:?})", &full[..=i]))?;
        } else if matches!(c, Call::Finish) && res.is_ok() {
            // unspecified history: success was reported, so the archive must be structurally valid and
            // self-consistent, and the entries completed before the unspecified step must be intact
            let bytes = out.as_ref().unwrap();
            check_structure(bytes, &model).map_err(|e| format!("finish() succeeded (after a step whose effect is not documented) but {e}  (sequence: {:?})", &full[..=i]))?;
        }
    }
    info.nontrivial = saw_expected_err && !model.entries.is_empty();
    // drop must not panic either
    catch(move || unsafe { std::mem::ManuallyDrop::drop(&mut w) }).map_err(|p| format!("drop PANICKED after sequence {:?}: {p}", full))?;
    Ok(())
}

/// What holds for ANY archive finish() reports as a success: it parses (gaps between records tolerated),
/// every unencrypted entry decodes to its declared size and CRC, the crate's own reader opens it, and the
/// entries completed before the history became unspecified are there, in order, with their content.
fn check_structure(bytes: &[u8], m: &Model) -> Result<(), String> {
    let p = parse::parse(bytes, parse::Opts::lenient()).map_err(|e| format!("the archive is not valid: {e}"))?;
    let k = m.frozen_prefix.unwrap_or(0).min(m.entries.len());
    if p.entries.len() < k {
        return Err(format!("the archive has {} entries, but {k} had been completed successfully before", p.entries.len()));
    }
    for (i, (e, me)) in p.entries.iter().zip(m.entries.iter()).take(k).enumerate() {
        if e.name != me.name.as_bytes() {
            return Err(format!("entry {i} is named {:?}, expected {:?}", String::from_utf8_lossy(&e.name), me.name));
        }
        if me.password.is_none() && e.content.as_deref() != Some(&me.content[..]) {
            return Err(format!("entry {i} ({:?}), completed before, no longer holds the {} bytes written to it", me.name, me.content.len()));
        }
    }
    let mut za = zip::ZipArchive::new(Cursor::new(bytes)).map_err(|e| format!("the crate cannot reopen it: {e}"))?;
    for i in 0..za.len() {
        let enc = p.entries.get(i).map(|e| e.flags & 1 != 0).unwrap_or(false);
        if enc {
            continue;
        }
        let mut v = Vec::new();
        za.by_index(i).map_err(|e| e.to_string()).and_then(|mut f| f.read_to_end(&mut v).map_err(|e| e.to_string())).map_err(|e| format!("entry {i} of the finished archive cannot be read back: {e}"))?;
    }
    Ok(())
}

fn check_end_claim(bytes: &[u8], m: &Model) -> Result<(), String> {
    let p = parse::parse(bytes, parse::Opts::strict()).map_err(|e| format!("the archive is not valid: {e}"))?;
    if p.entries.len() != m.entries.len() {
        return Err(format!("the archive has {} entries, {} were created successfully", p.entries.len(), m.entries.len()));
    }
    if p.comment != m.comment {
        return Err("the archive comment differs from the last one set".into());
    }
    for (i, (e, me)) in p.entries.iter().zip(m.entries.iter()).enumerate() {
        if e.name != me.name.as_bytes() {
            return Err(format!("entry {i} is named {:?}, expected {:?}", String::from_utf8_lossy(&e.name), me.name));
        }
        if e.method != me.method {
            return Err(format!("entry {i}: method {} != {}", e.method, me.method));
        }
        let content = match &me.password {
            None => e.content.clone().ok_or_else(|| format!("entry {i}: content not decodable"))?,
            Some(pw) => zipcrypto_plain(&bytes[e.data_start as usize..(e.data_start + e.csize) as usize], pw, e.method, e.crc, 1 << 22).map_err(|x| format!("entry {i}: {x}"))?,
        };
        if content != me.content {
            return Err(format!("entry {i} ({:?}) holds {} bytes but {} bytes were successfully written to it{}", me.name, content.len(), me.content.len(), if me.raw { " (raw copy: source content)" } else { "" }));
        }
    }
    // and the crate's own reader agrees
    let mut za = zip::ZipArchive::new(Cursor::new(bytes)).map_err(|e| format!("the crate cannot reopen it: {e}"))?;
    for (i, me) in m.entries.iter().enumerate() {
        let mut v = Vec::new();
        let r = match &me.password {
            None => za.by_index(i).map_err(|e| e.to_string()).and_then(|mut f| f.read_to_end(&mut v).map_err(|e| e.to_string())),
            Some(pw) => match za.by_index_decrypt(i, pw) {
                Ok(Ok(mut f)) => f.read_to_end(&mut v).map_err(|e| e.to_string()),
                Ok(Err(_)) => Err("password rejected".into()),
                Err(e) => Err(e.to_string()),
            },
        };
        r.map_err(|e| format!("entry {i}: reading back fails: {e}"))?;
        if v != me.content {
            return Err(format!("entry {i}: the crate reads back different content"));
        }
    }
    Ok(())
}

/// reduced alphabet for exhaustive enumeration
fn alphabet() -> Vec<Call> {
    let good = O { m: M::Deflated, l: L::None, large: false, pw: false };
    let stored = O { m: M::Stored, l: L::None, large: false, pw: false };
    vec![
        Call::StartFile(0, good),
        Call::StartFile(1, O { m: M::Deflated, l: L::Above, large: false, pw: false }),
        Call::StartFile(2, O { m: M::Unsupported14, l: L::None, large: false, pw: false }),
        Call::StartExtra(3, stored),
        Call::StartExtra(5, O { m: M::Bzip2, l: L::Below, large: true, pw: false }),
        Call::StartAligned(6, O { m: M::Stored, l: L::None, large: true, pw: false }, 64),
        Call::StartExtra(8, O { m: M::Deflated, l: L::None, large: false, pw: true }),
        Call::Write(D::Plain),
        Call::Write(D::ExtraValid),
        Call::Write(D::ExtraReserved),
        Call::EndExtra,
        Call::EndLocalStartCentral,
        Call::AddDir(1, stored),
        Call::AddSymlink(2, good),
        Call::RawCopy(0, false),
        Call::Finish,
        Call::SetComment(1),
        Call::StartEncrypted(7),
        Call::StartLong(0, 0),
        Call::SetComment(3),
    ]
}

fn any_o() -> BoxedStrategy<O> {
    (
        prop_oneof![3 => Just(M::Stored), 3 => Just(M::Deflated), 2 => Just(M::Bzip2), 2 => Just(M::Zstd), 1 => Just(M::Aes), 1 => Just(M::Unsupported14)],
        prop_oneof![5 => Just(L::None), 2 => Just(L::InRange), 1 => Just(L::Below), 1 => Just(L::Above)],
        prop_oneof![4 => Just(false), 1 => Just(true)],
        prop_oneof![5 => Just(false), 1 => Just(true)],
    )
        .prop_map(|(m, l, large, pw)| O { m, l, large, pw })
        .boxed()
}

fn any_call() -> BoxedStrategy<Call> {
    let d = prop_oneof![4 => Just(D::Plain), 1 => Just(D::Empty), 1 => Just(D::Big), 3 => Just(D::ExtraValid), 2 => Just(D::ExtraValid2), 1 => Just(D::ExtraReserved), 1 => Just(D::ExtraZip64), 1 => Just(D::ExtraTruncated), 1 => Just(D::ExtraOversize),
        1 => reserved_id().prop_map(D::ExtraId), 1 => reserved_id().prop_map(D::ExtraIdSecond), 1 => any::<u16>().prop_map(D::ExtraId)];
    prop_oneof![
        5 => (any::<u8>(), any_o()).prop_map(|(n, o)| Call::StartFile(n, o)),
        1 => any::<u8>().prop_map(Call::StartEncrypted),
        3 => (any::<u8>(), any_o()).prop_map(|(n, o)| Call::StartExtra(n, o)),
        2 => (any::<u8>(), any_o(), prop_oneof![Just(0u16), Just(1), Just(4), Just(64), Just(4096), Just(32768), Just(65535), any::<u16>()]).prop_map(|(n, o, a)| Call::StartAligned(n, o, a)),
        8 => d.prop_map(Call::Write),
        3 => Just(Call::EndExtra),
        2 => Just(Call::EndLocalStartCentral),
        2 => (any::<u8>(), any_o()).prop_map(|(n, o)| Call::AddDir(n, o)),
        2 => (any::<u8>(), any_o()).prop_map(|(n, o)| Call::AddSymlink(n, o)),
        1 => (0u8..3).prop_map(Call::SetComment),
        1 => Just(Call::SetComment(3)),
        2 => (any::<u8>(), any::<bool>()).prop_map(|(k, r)| Call::RawCopy(k, r)),
        1 => Just(Call::Flush),
        1 => Just(Call::Finish),
        1 => (0u8..3, 0u8..3).prop_map(|(a, b)| Call::StartLong(a, b)),
    ]
    .boxed()
}

/// every header ID the documentation reserves: 0..=31 and the APPNOTE-registered ones
fn reserved_id() -> BoxedStrategy<u16> {
    (0usize..(32 + crate::gen::REGISTERED_IDS.len())).prop_map(|i| if i < 32 { i as u16 } else { crate::gen::REGISTERED_IDS[i - 32] }).boxed()
}

#[derive(Clone, Debug, Serialize, Deserialize, Hash)]
pub struct Seq(pub Vec<Call>);

pub fn run(ctx: &mut Ctx) {
    ctx.rule("exhaustive: EVERY sequence of up to D calls (quick 4, thorough 6) over a 19-letter alphabet covering the whole writer API (start_file good / bad level / unsupported method / encrypted, start_file_with_extra_data good / bad, start_file_aligned, write of plain data / valid extra record / reserved-id record, end_extra_data, end_local_start_central_extra_data, add_directory, add_symlink, raw copy, set_comment, finish, start_file with an unrepresentable 65536-byte name, set_comment with an unrepresentable 65536-byte comment), each followed by finish() and drop; random: sequences of up to 200 calls over the full parameter domains (6 methods x 4 level classes x large_file, 9 data shapes incl. ZIP64-id/truncated/oversize extra records, alignments, comments up to 65536 bytes, names of 65536+ bytes for start_file/add_directory/add_symlink, records with every reserved header ID). extra_ids: every 16-bit header ID x {only record, second record} x {local, central-only} (exhaustive). Oracle: executable model of the documented state machine - no call panics; documented misuse returns Err; calls valid in their state return Ok; whenever finish() succeeds on a history without unspecified steps the archive parses strictly and holds exactly the successfully created entries with exactly the accepted bytes; whenever finish() succeeds at all the archive parses, every entry decodes to its declared CRC/size, the crate reopens it, and the entries completed before the first unspecified step are intact. Non-trivial = the sequence contains at least one expected-Err call and at least one created entry; enumerated sequences are distinct by construction.");
    ctx.assume("undocumented-but-accepted inputs (Stored with an explicit level, Zstd levels far below -7, a second end_local_start_central_extra_data, write after a raw copy, alignment > 32768, flush) are 'either outcome, no panic' and end the end-claim for that history");
    if let Some(c) = ctx.replay_case("fuzz_raw") {
        let bytes = crate::util::unhex(c["bytes"].as_str().unwrap_or("")).unwrap_or_default();
        let mut u = arbitrary::Unstructured::new(&bytes);
        let mut seq = Vec::new();
        while !u.is_empty() && seq.len() < 64 {
            match decode_call(&mut u) {
                Some(c) => seq.push(c),
                None => break,
            }
        }
        let mut info = Info::default();
        ctx.replay_verdict = Some(Verdict::from_result(check_sequence(&seq, &mut info)));
        return;
    }
    let alpha = alphabet();
    let a = alpha.len() as u64;
    let depth = ctx.q(4u32, 6);
    let total: u64 = (0..=depth).map(|d| a.pow(d)).sum();
    ctx.enumerate::<Seq>(
        "exhaustive",
        total,
        &|mut k| {
            let mut len = 0u32;
            let mut block = 1u64;
            while k >= block {
                k -= block;
                len += 1;
                block *= a;
            }
            let mut v = Vec::with_capacity(len as usize);
            for _ in 0..len {
                v.push(alpha[(k % a) as usize].clone());
                k /= a;
            }
            v.reverse();
            Seq(v)
        },
        &|s: &Seq, info: &mut Info| Verdict::from_result(check_sequence(&s.0, info)),
    );
    // EVERY 16-bit header ID, as the only record / behind a valid record, in the local and in the
    // central-only extra data: reserved IDs (0..=31, the APPNOTE-registered ones, ZIP64) must be refused,
    // every other ID must be accepted and the finished archive must hold the entry
    let good = O { m: M::Stored, l: L::None, large: false, pw: false };
    ctx.enumerate::<Seq>(
        "extra_ids",
        65536 * 4,
        &|k| {
            let id = (k / 4) as u16;
            let d = if k % 2 == 0 { D::ExtraId(id) } else { D::ExtraIdSecond(id) };
            if (k / 2) % 2 == 0 {
                Seq(vec![Call::StartExtra(0, good), Call::Write(d), Call::EndExtra, Call::Write(D::Plain), Call::AddDir(1, good)])
            } else {
                Seq(vec![Call::StartExtra(0, good), Call::EndLocalStartCentral, Call::Write(d), Call::EndExtra, Call::Write(D::Plain), Call::AddDir(1, good)])
            }
        },
        &|s: &Seq, info: &mut Info| Verdict::from_result(check_sequence(&s.0, info)),
    );
    ctx.exhaustive_all = true;
    let n = ctx.q(150000, 1500000);
    ctx.explore::<Seq>(
        "random",
        n,
        &|| prop_oneof![3 => proptest::collection::vec(any_call(), 0..12), 2 => proptest::collection::vec(any_call(), 12..60), 1 => proptest::collection::vec(any_call(), 60..200)].prop_map(Seq).boxed(),
        &|s: &Seq, info: &mut Info| {
            info.label(if s.0.len() < 12 { "len<12" } else if s.0.len() < 60 { "len<60" } else { "len>=60" });
            Verdict::from_result(check_sequence(&s.0, info))
        },
    );
}

/// Decode one call from fuzzer bytes (hand-written arbitrary layer).
pub fn decode_call(u: &mut arbitrary::Unstructured) -> Option<Call> {
    let o = |u: &mut arbitrary::Unstructured| -> Option<O> {
        let m = [M::Stored, M::Deflated, M::Bzip2, M::Zstd, M::Aes, M::Unsupported14][u.int_in_range(0..=5usize).ok()?];
        let l = [L::None, L::None, L::InRange, L::Below, L::Above][u.int_in_range(0..=4usize).ok()?];
        Some(O { m, l, large: u.ratio(1u8, 5u8).ok()?, pw: u.ratio(1u8, 6u8).ok()? })
    };
    let d = |u: &mut arbitrary::Unstructured| -> Option<D> { Some([D::Plain, D::Plain, D::Empty, D::Big, D::ExtraValid, D::ExtraValid2, D::ExtraReserved, D::ExtraZip64, D::ExtraTruncated, D::ExtraOversize][u.int_in_range(0..=9usize).ok()?]) };
    let n = u.arbitrary::<u8>().ok()?;
    Some(match u.int_in_range(0..=13u8).ok()? {
        0 | 1 => Call::StartFile(n, o(u)?),
        2 => Call::StartEncrypted(n),
        3 => Call::StartExtra(n, o(u)?),
        4 => Call::StartAligned(n, o(u)?, [0u16, 1, 4, 64, 4096, 32768, 65535, 513][u.int_in_range(0..=7usize).ok()?]),
        5 | 6 => Call::Write(d(u)?),
        7 => Call::EndExtra,
        8 => Call::EndLocalStartCentral,
        9 => Call::AddDir(n, o(u)?),
        10 => Call::AddSymlink(n, o(u)?),
        11 => Call::SetComment(n % 4),
        12 => Call::RawCopy(n, u.arbitrary().ok()?),
        _ => {
            if n % 2 == 0 {
                Call::Finish
            } else {
                Call::Flush
            }
        }
    })
}
