//! C13 — appending keeps every existing entry and adds the new ones.
use super::c03::model_mode;
use crate::engine::{Ctx, Info, Verdict};
use crate::gen::{self, Op, Program};
use crate::genf;
use crate::refzip::{self, build, parse, ArchiveSpec, Enc};
use crate::util::catch;
use proptest::prelude::*;
use serde::{Deserialize, Serialize};
use std::io::{Cursor, Read};
use zip::ZipWriter;

#[derive(Clone, Debug, Serialize, Deserialize, Hash)]
pub enum Base {
    Written(Program),
    Foreign(ArchiveSpec),
    /// archive written by CPython's zipfile (seekable or unseekable sink, force_zip64, prefix)
    CPython(super::c03::PySpec),
}
#[derive(Clone, Debug, Serialize, Deserialize, Hash)]
pub struct Round {
    program: Program,
    by_drop: bool,
    /// raw copies from a fixed two-entry source archive: (pick, rename)
    #[serde(default)]
    raw: Vec<(u16, Option<String>)>,
    /// raw copies come before (true) or after (false) the program's own entries
    #[serde(default)]
    raw_first: bool,
    /// call flush() on the writer after the raw copies
    #[serde(default)]
    flush_after_raw: bool,
}

const RAW_SRC: [(&str, &[u8], u16); 2] = [("src/deflated.txt", b"raw copy source: deflated deflated deflated deflated deflated", 8), ("src/stored.bin", b"\x00\x01\x02 stored raw copy source", 0)];

fn raw_source() -> Vec<u8> {
    let ops = RAW_SRC.iter().map(|(n, d, m)| Op::File { name: n.to_string(), opts: gen::Opts::plain(if *m == 8 { gen::Method::Deflated } else { gen::Method::Stored }), chunks: vec![crate::refzip::Content::Bytes(d.to_vec())] }).collect();
    gen::run_program(&Program { ops }, false).expect("raw source")
}
#[derive(Clone, Debug, Serialize, Deserialize, Hash)]
pub struct History {
    base: Base,
    rounds: Vec<Round>,
}

#[derive(Clone, Debug, PartialEq, Eq)]
struct MEntry {
    name: String,
    content: Option<Vec<u8>>, // None = not decodable by the crate (unsupported method / encrypted)
    method: u16,
    dos: (u16, u16),
    mode: Option<u32>,
    password: Option<Vec<u8>>,
}

fn model_of_program(p: &Program) -> (Vec<MEntry>, Option<Vec<u8>>) {
    let (m, c) = gen::model(p);
    let has_comment = p.ops.iter().any(|o| matches!(o, Op::Comment(_)));
    (
        m.into_iter().map(|e| MEntry { name: e.name, content: Some(e.content), method: e.method.id(), dos: e.dos, mode: Some(e.mode), password: e.password.map(|s| s.into_bytes()) }).collect(),
        if has_comment { Some(c) } else { None },
    )
}

fn observe(bytes: &[u8], model: &[MEntry]) -> Result<(Vec<MEntry>, Vec<u8>), String> {
    let mut za = zip::ZipArchive::new(Cursor::new(bytes)).map_err(|e| format!("cannot be opened: {e}"))?;
    let mut v = Vec::new();
    for i in 0..za.len() {
        let me = model.get(i);
        let pw = me.and_then(|m| m.password.clone());
        let decodable = me.map(|m| m.content.is_some()).unwrap_or(true);
        let mut f = if !decodable {
            za.by_index_raw(i).map_err(|e| format!("entry {i}: by_index_raw: {e}"))?
        } else {
            match &pw {
                Some(p) => za.by_index_decrypt(i, p).map_err(|e| format!("entry {i}: {e}"))?.map_err(|_| format!("entry {i}: password rejected"))?,
                None => za.by_index(i).map_err(|e| format!("entry {i}: by_index: {e}"))?,
            }
        };
        let lm = f.last_modified();
        let mut e = MEntry { name: f.name().to_string(), content: None, method: super::common::method_id(f.compression()), dos: (lm.datepart(), lm.timepart()), mode: f.unix_mode(), password: pw };
        if decodable {
            let mut c = Vec::new();
            f.read_to_end(&mut c).map_err(|x| format!("entry {i} ({:?}): read: {x}", e.name))?;
            e.content = Some(c);
        }
        v.push(e);
    }
    Ok((v, za.comment().to_vec()))
}

fn check(h: &History, info: &mut Info) -> Result<(), String> {
    // ---- base
    let (mut bytes, mut model, mut comment): (Vec<u8>, Vec<MEntry>, Vec<u8>) = match &h.base {
        Base::Written(p) => {
            let b = gen::run_program(p, false).map_err(|e| format!("harness: base program refused: {e}"))?;
            let (m, c) = model_of_program(p);
            (b, m, c.unwrap_or_default())
        }
        Base::Foreign(s) => {
            let b = build::build(s).map_err(|e| format!("harness: {e}"))?;
            if genf::zip64_search_ambiguous(s, &b) {
                info.label("skipped-ambiguous");
                return Ok(());
            }
            let m = s
                .order()
                .iter()
                .map(|&i| {
                    let e = &s.entries[i];
                    let decodable = matches!(e.method, 0 | 8 | 12 | 93) && matches!(e.enc, Enc::None);
                    MEntry { name: refzip::decode_text(&e.name, e.utf8), content: if decodable { Some(e.content.expand()) } else { None }, method: e.method, dos: (e.dos_date, e.dos_time), mode: model_mode(e.made_by, e.external_attr), password: None }
                })
                .collect();
            (b.bytes, m, s.comment.clone())
        }
        Base::CPython(s) => {
            let b = super::c03::py_produce(s)?;
            let m = s
                .entries
                .iter()
                .map(|e| MEntry { name: e.name.clone(), content: Some(e.content.expand()), method: e.method, dos: super::c03::py_dos(e.date_time), mode: model_mode((e.create_system as u16) << 8, e.external_attr), password: None })
                .collect();
            (b, m, s.comment.clone())
        }
    };
    // sanity: the base itself reads as modelled (otherwise it is C01/C03's business)
    let (o, c) = observe(&bytes, &model).map_err(|e| format!("harness: base archive {e}"))?;
    if o != model || c != comment {
        return Err("harness: base archive does not read as modelled".into());
    }
    info.nontrivial = matches!(h.base, Base::Foreign(_) | Base::CPython(_)) || (h.rounds.len() >= 2 && h.rounds.iter().any(|r| gen::entry_count(&r.program) > 0));
    // ---- rounds
    for (ri, r) in h.rounds.iter().enumerate() {
        let before = bytes.clone();
        let mut cur = Cursor::new(bytes);
        {
            let w = ZipWriter::new_append(&mut cur).map_err(|e| format!("round {ri}: new_append refused a valid archive: {e}"))?;
            let mut w = std::mem::ManuallyDrop::new(w);
            let src = raw_source();
            let mut sza = zip::ZipArchive::new(Cursor::new(&src[..])).map_err(|e| format!("harness: {e}"))?;
            let mut raw_model: Vec<MEntry> = Vec::new();
            let mut do_raw = |w: &mut ZipWriter<&mut Cursor<Vec<u8>>>, raw_model: &mut Vec<MEntry>| -> Result<(), String> {
                for (pick, rename) in &r.raw {
                    let k = (*pick as usize * RAW_SRC.len()) >> 16;
                    let f = sza.by_index_raw(k).map_err(|e| format!("harness: {e}"))?;
                    let name = rename.clone().unwrap_or_else(|| RAW_SRC[k].0.to_string());
                    match rename {
                        Some(n) => w.raw_copy_file_rename(f, n.clone()).map_err(|e| format!("round {ri}: raw_copy_file_rename: {e}"))?,
                        None => w.raw_copy_file(f).map_err(|e| format!("round {ri}: raw_copy_file: {e}"))?,
                    }
                    raw_model.push(MEntry { name, content: Some(RAW_SRC[k].1.to_vec()), method: RAW_SRC[k].2, dos: gen::Opts::plain(gen::Method::Stored).dos(), mode: Some(0o100644), password: None });
                }
                if r.flush_after_raw && !r.raw.is_empty() {
                    use std::io::Write;
                    w.flush().map_err(|e| format!("round {ri}: flush: {e}"))?;
                }
                Ok(())
            };
            if r.raw_first {
                do_raw(&mut w, &mut raw_model)?;
                model.extend(raw_model.drain(..));
            }
            for op in &r.program.ops {
                gen::apply(&mut w, op).map_err(|e| format!("round {ri}: {e}"))?;
            }
            let (m2, _) = model_of_program(&r.program);
            model.extend(m2);
            if !r.raw_first {
                do_raw(&mut w, &mut raw_model)?;
                model.extend(raw_model.drain(..));
            }
            if r.by_drop {
                unsafe { std::mem::ManuallyDrop::drop(&mut w) };
            } else {
                w.finish().map_err(|e| format!("round {ri}: finish: {e}"))?;
            }
        }
        let end_pos = cur.position() as usize;
        bytes = cur.into_inner();
        let (_, c2) = model_of_program(&r.program);
        if let Some(c2) = c2 {
            comment = c2;
        }
        let what = format!("after append round {ri} ({} new entries, {} raw copies {}, by_drop={})", gen::entry_count(&r.program), r.raw.len(), if r.raw_first { "first" } else { "last" }, r.by_drop);
        // The writer cannot truncate its sink: when the rewritten archive is shorter than the old
        // one (dropped file comments / ZIP64 end records, shorter archive comment) the old end
        // record stays behind it. The archive proper is bytes[..end_pos]; it must be right in any
        // case. What a reader makes of the stale tail is judged separately (known finding).
        let stale_tail = end_pos < before.len() && end_pos <= bytes.len();
        let proper = if stale_tail { &bytes[..end_pos] } else { &bytes[..] };
        let new_count = m_len(&r.program) + r.raw.len();
        verify_view(proper, &model, &comment, new_count, &what)?;
        if stale_tail {
            if let Err(e) = verify_view(&bytes, &model, &comment, new_count, &what) {
                return Err(format!("KNOWN:append-leaves-stale-tail: the rewritten archive is {} bytes shorter than the old one and the old end record behind it misleads readers: {e}", before.len() - end_pos));
            }
            // keep working on the archive proper so later rounds are judged on their own
            bytes.truncate(end_pos);
        }
        let _ = before;
    }
    Ok(())
}

fn verify_view(bytes: &[u8], model: &[MEntry], comment: &[u8], new_count: usize, what: &str) -> Result<(), String> {
    let (o, c) = observe(bytes, model).map_err(|e| format!("{what}: the archive {e}"))?;
    if o.len() != model.len() {
        return Err(format!("{what}: {} entries, expected {} (previous + appended)", o.len(), model.len()));
    }
    for (i, (a, b)) in o.iter().zip(model.iter()).enumerate() {
        if b.password.is_some() && i < o.len() - new_count {
            continue; // previously existing encrypted entries are outside the claim
        }
        if a != b {
            let which = if a.name != b.name { "name" } else if a.content != b.content { "content" } else if a.method != b.method { "method" } else if a.dos != b.dos { "timestamp" } else { "unix mode" };
            return Err(format!("{what}: entry {i} ({:?}): {which} changed (got {:?}/{:?}, expected {:?}/{:?})", b.name, a.name, a.mode, b.name, b.mode));
        }
    }
    if c != comment {
        return Err(format!("{what}: archive comment is {} bytes, expected {} bytes (kept unless replaced)", c.len(), comment.len()));
    }
    // independent view (lenient: dead bytes and stale ZIP64 records are tolerated, nothing else)
    let p = parse::parse(bytes, parse::Opts::lenient()).map_err(|e| format!("{what}: independent parser rejects the archive: {e}"))?;
    if p.entries.len() != model.len() {
        return Err(format!("{what}: independent parser sees {} entries, expected {}", p.entries.len(), model.len()));
    }
    for (i, (e, m)) in p.entries.iter().zip(model.iter()).enumerate() {
        if let (Some(pc), Some(mc)) = (&e.content, &m.content) {
            if m.password.is_none() && pc != mc {
                return Err(format!("{what}: entry {i}: independently decoded content differs"));
            }
        }
    }
    Ok(())
}


/// Bases whose names / file comments grow when the crate re-encodes them: CP437 bytes >= 0x80 become 2-3 byte
/// UTF-8 sequences, invalid UTF-8 under the language flag becomes U+FFFD (3 bytes each). An append round may
/// refuse such a base (new_append or finish returning an error); if it reports success the result must be a
/// valid archive that still holds every old entry under its decoded name.
#[derive(Clone, Debug, Serialize, Deserialize, Hash)]
pub struct LongText {
    /// 0 = the entry's name, 1 = its file comment, 2 = both
    field: u8,
    /// 0 = CP437 bytes >= 0x80 (flag clear), 1 = bytes that are invalid UTF-8 (flag set), 2 = valid 2-byte UTF-8 (flag set)
    enc: u8,
    len: u32,
    by_drop: bool,
}

fn check_long_text(c: &LongText, info: &mut Info) -> Result<(), String> {
    use crate::refzip::{Content, EntrySpec};
    let n = c.len as usize;
    let text: Vec<u8> = match c.enc % 3 {
        0 => (0..n).map(|i| 0x80 + ((i * 7) % 0x7f) as u8).collect(),
        1 => (0..n).map(|i| if i % 2 == 0 { 0xff } else { 0xc0 }).collect(),
        _ => "\u{e9}".as_bytes().iter().copied().cycle().take(n & !1).collect(),
    };
    let utf8 = c.enc % 3 != 0;
    let mut e = EntrySpec::simple(b"grows.txt", 8, Content::Text { seed: 2, len: 500 });
    if c.field % 3 != 1 {
        e.name = text.clone();
        e.utf8 = utf8;
    }
    if c.field % 3 != 0 {
        e.comment = text.clone();
        e.utf8 = utf8;
    }
    let spec = ArchiveSpec::plain(vec![EntrySpec::simple(b"keep.txt", 0, Content::Text { seed: 1, len: 90 }), e, EntrySpec::simple(b"tail.bin", 0, Content::Rand { seed: 3, len: 40 })]);
    let b = build::build(&spec).map_err(|e| format!("harness: {e}"))?;
    let mut model: Vec<MEntry> = spec.entries.iter().map(|e| MEntry { name: refzip::decode_text(&e.name, e.utf8), content: Some(e.content.expand()), method: e.method, dos: (e.dos_date, e.dos_time), mode: model_mode(e.made_by, e.external_attr), password: None }).collect();
    let (o, _) = observe(&b.bytes, &model).map_err(|e| format!("harness: base archive {e}"))?;
    if o != model {
        return Err("harness: base archive does not read as modelled".into());
    }
    info.nontrivial = true;
    let grown = model[1].name.len() > 65535 || refzip::decode_text(&spec.entries[1].comment, utf8).len() > 65535;
    info.label(if grown { "re-encoded text exceeds 65535 bytes" } else { "re-encoded text fits" });
    let mut cur = Cursor::new(b.bytes.clone());
    let ok = {
        let w = match ZipWriter::new_append(&mut cur) {
            Ok(w) => w,
            Err(_) if grown => {
                info.label("refused by new_append");
                return Ok(());
            }
            Err(e) => return Err(format!("new_append refused a valid archive whose names and comments fit after re-encoding: {e}")),
        };
        let mut w = std::mem::ManuallyDrop::new(w);
        // a large new entry: the result is longer than the base whatever the writer drops (no stale tail)
        let add = Op::File { name: "added.bin".into(), opts: gen::Opts::plain(gen::Method::Stored), chunks: vec![Content::Rand { seed: 9, len: 150_000 }] };
        match gen::apply(&mut w, &add) {
            Ok(()) => {}
            Err(_) if grown => {
                info.label("refused by start_file");
                return Ok(());
            }
            Err(e) => return Err(format!("appending to a valid archive failed: {e}")),
        }
        if c.by_drop {
            unsafe { std::mem::ManuallyDrop::drop(&mut w) };
            false
        } else {
            match w.finish() {
                Ok(_) => true,
                Err(_) if grown => {
                    info.label("refused by finish");
                    return Ok(());
                }
                Err(e) => return Err(format!("finish() after an append onto a valid archive failed: {e}")),
            }
        }
    };
    if !ok {
        // completed by drop: errors are swallowed by design; nothing to claim when the text had to be refused
        if grown {
            return Ok(());
        }
    }
    model.extend(model_of_program(&Program { ops: vec![Op::File { name: "added.bin".into(), opts: gen::Opts::plain(gen::Method::Stored), chunks: vec![Content::Rand { seed: 9, len: 150_000 }] }] }).0);
    let end = cur.position() as usize;
    let bytes = cur.into_inner();
    info.label("append reported success");
    verify_view(&bytes[..end.min(bytes.len()).max(1)], &model, &[], 1, &format!("after appending to a base whose entry has a {}-byte {} ({})", text.len(), ["name", "file comment", "name and file comment"][(c.field % 3) as usize], ["CP437 bytes >= 0x80", "invalid UTF-8 under the language flag", "valid UTF-8"][(c.enc % 3) as usize]))
}

fn m_len(p: &Program) -> usize {
    gen::entry_count(p)
}

/// Bases with entry counts around the 16-bit limit (optionally behind prepended data whose length the
/// recorded offsets do not include), then append rounds that cross 65535 / 65536 entries.
#[derive(Clone, Debug, Serialize, Deserialize, Hash)]
pub struct Big {
    base_entries: u32,
    prefix_len: u32,
    rounds: Vec<u8>,
    by_drop: bool,
}

fn big_entry(i: u32) -> (String, Vec<u8>) {
    (format!("e{i}"), if i % 4099 == 5 { format!("content of entry {i} ").repeat(20).into_bytes() } else { vec![] })
}

fn check_big(c: &Big) -> Result<(), String> {
    let opt = |i: u32| zip::write::FileOptions::default().compression_method(if i % 2 == 0 { zip::CompressionMethod::Stored } else { zip::CompressionMethod::Deflated }).last_modified_time(zip::DateTime::default());
    let mentry = |i: u32| {
        let (name, content) = big_entry(i);
        MEntry { name, content: Some(content), method: if i % 2 == 0 { 0 } else { 8 }, dos: (0x21, 0), mode: Some(0o100644), password: None }
    };
    use std::io::Write;
    let mut cur = Cursor::new(Vec::new());
    {
        let mut w = std::mem::ManuallyDrop::new(ZipWriter::new(&mut cur));
        for i in 0..c.base_entries {
            let (n, d) = big_entry(i);
            w.start_file(n, opt(i)).map_err(|e| format!("harness: base: {e}"))?;
            w.write_all(&d).map_err(|e| format!("harness: base: {e}"))?;
        }
        w.set_comment("big base");
        w.finish().map_err(|e| format!("harness: base: {e}"))?;
    }
    let mut bytes = crate::refzip::Content::Rand { seed: 4242, len: c.prefix_len }.expand();
    bytes = genf::no_sig(bytes);
    bytes.extend_from_slice(&cur.into_inner());
    let mut model: Vec<MEntry> = (0..c.base_entries).map(mentry).collect();
    let comment = b"big base".to_vec();
    let (o, cm) = observe(&bytes, &model).map_err(|e| format!("harness: base archive {e}"))?;
    if o != model || cm != comment {
        return Err("harness: base archive does not read as modelled".into());
    }
    let mut next = c.base_entries;
    for (ri, &k) in c.rounds.iter().enumerate() {
        let before_len = bytes.len();
        let mut cur = Cursor::new(bytes);
        {
            let w = ZipWriter::new_append(&mut cur).map_err(|e| format!("round {ri}: new_append refused a valid archive of {} entries behind {} bytes of prepended data: {e}", model.len(), c.prefix_len))?;
            let mut w = std::mem::ManuallyDrop::new(w);
            for _ in 0..k {
                let (n, d) = big_entry(next);
                w.start_file(n, opt(next)).map_err(|e| format!("round {ri}: start_file: {e}"))?;
                w.write_all(&d).map_err(|e| format!("round {ri}: write: {e}"))?;
                model.push(mentry(next));
                next += 1;
            }
            if c.by_drop {
                unsafe { std::mem::ManuallyDrop::drop(&mut w) };
            } else {
                w.finish().map_err(|e| format!("round {ri}: finish: {e}"))?;
            }
        }
        let end_pos = cur.position() as usize;
        bytes = cur.into_inner();
        let what = format!("base of {} entries behind {} prepended bytes, after append round {ri} (+{k} entries, {} in total)", c.base_entries, c.prefix_len, model.len());
        if end_pos < before_len {
            // shorter rewrite: the stale tail is the listed known finding; judge the archive proper
            bytes.truncate(end_pos);
        }
        verify_view(&bytes, &model, &comment, k as usize, &what)?;
    }
    Ok(())
}

pub fn run(ctx: &mut Ctx) {
    ctx.rule("history = base x 0..R rounds of {new_append; 0..3 new entries of any kind/method incl. extra data, aligned, ZipCrypto; optional raw copies from another archive before or after them; optional comment change; finish or drop}. Bases: archives from this writer (C01 programs) and from the independent builder (data descriptors, forced ZIP64 fields and end records, junk prefix, CP437 names, DOS attributes, file comments, unsupported methods, shuffled central order, gaps) and from CPython zipfile (driver cpython_bases: seekable/unseekable sinks i.e. data descriptors, force_zip64, prepended data, cp437/UTF-8 names, DOS/Unix systems). After every round the crate reader and the independent (lenient) parser must see model = previous entries (name, content, method, timestamp, unix mode) followed by the new ones, and the archive comment unless replaced. big_bases: crate-written bases of 65534/65535 (thorough: 65533..70000) entries, bare or behind 777 prepended bytes (offsets relative to the archive start), x append rounds {[0],[1],[2,0],[1,1,1]} crossing the 16-bit entry-count limit. large_bases: hand-laid-out sparse foreign bases whose entries / header offsets lie beyond 4 GiB, bare and behind prepended data (archive-relative offsets), one append round, sizes / offsets / CRC of every old entry recovered by the independent parser and the reader. long_text_bases: reference-built bases with an entry whose name and/or file comment is 300..65535 bytes of CP437 high bytes, of invalid UTF-8 under the language flag, or of valid UTF-8 - text that grows when the crate re-encodes it; one append round (finish or drop): a refusal is accepted when the re-encoded text no longer fits 16 bits, a reported success must be a valid archive with every old entry under its decoded name. Non-trivial = foreign base, or >=2 rounds with at least one non-empty round.");
    ctx.assume("file comments and extra fields of existing entries are not part of the claim (the property lists order, names, contents, methods, timestamps, modes, archive comment)");
    // hand-laid-out foreign bases with entries / header offsets beyond 4 GiB (sparse), bare and behind
    // prepended data with archive-relative offsets: one append round, every old value must survive
    #[derive(Clone, Debug, Serialize, Deserialize, Hash)]
    struct LargeBase {
        sizes: Vec<(u64, u64)>,
        prefix: u64,
    }
    const G: u64 = 1 << 32;
    let lb: Vec<LargeBase> = ctx.q(
        vec![LargeBase { sizes: vec![(G + 5, G + 5), (9, 9), (300, 300)], prefix: 555 }],
        vec![LargeBase { sizes: vec![(G + 5, G + 5), (9, 9), (300, 300)], prefix: 555 }, LargeBase { sizes: vec![(G + 5, G + 5), (9, 9)], prefix: 0 }, LargeBase { sizes: vec![(G - 600, G - 600), (1, 1), (2, 2)], prefix: 600 }, LargeBase { sizes: vec![(3, 3), (6 << 30, 5 << 30), (4, 4)], prefix: 65536 }],
    );
    ctx.enumerate::<LargeBase>("large_bases", lb.len() as u64, &|i| lb[i as usize].clone(), &|b: &LargeBase, info: &mut Info| {
        info.nontrivial = true;
        info.label_if(b.prefix > 0, "base:prefixed");
        match catch(|| super::c08::check_append_large_p(&b.sizes, b.prefix)) {
            Ok(r) => Verdict::from_result(r),
            Err(p) => Verdict::Fail(format!("PANIC: {p}")),
        }
    });
    // entry counts around 65535/65536, with and without prepended data
    let bases: Vec<u32> = ctx.q(vec![65534, 65535], vec![65533, 65534, 65535, 65536, 70000]);
    let round_sets: Vec<Vec<u8>> = vec![vec![0], vec![1], vec![2, 0], vec![1, 1, 1]];
    let prefixes = [0u32, 777];
    let total = (bases.len() * round_sets.len() * prefixes.len()) as u64;
    ctx.enumerate::<Big>(
        "big_bases",
        total,
        &|i| {
            let i = i as usize;
            Big { base_entries: bases[i % bases.len()], rounds: round_sets[(i / bases.len()) % round_sets.len()].clone(), prefix_len: prefixes[i / (bases.len() * round_sets.len())], by_drop: i % 5 == 4 }
        },
        &|c: &Big, info: &mut Info| {
            info.nontrivial = true;
            info.label_if(c.prefix_len > 0, "base:prefixed");
            info.label_if(c.base_entries as usize + c.rounds.iter().map(|&k| k as usize).sum::<usize>() > 65535, "crosses-65535-entries");
            match catch(|| check_big(c)) {
                Ok(Ok(())) => Verdict::Pass,
                Ok(Err(m)) => Verdict::Fail(m),
                Err(p) => Verdict::Fail(format!("PANIC: {p}")),
            }
        },
    );
    // names / file comments that grow when re-encoded as UTF-8 (16-bit length fields of the rewritten directory)
    let lens: Vec<u32> = ctx.q(vec![300, 21845, 21846, 32768, 65535], vec![1, 300, 16383, 21845, 21846, 21847, 32767, 32768, 32769, 40000, 65534, 65535]);
    let lt_total = (lens.len() * 3 * 3 * 2) as u64;
    ctx.enumerate::<LongText>(
        "long_text_bases",
        lt_total,
        &|i| {
            let i = i as usize;
            LongText { len: lens[i % lens.len()], field: ((i / lens.len()) % 3) as u8, enc: ((i / (lens.len() * 3)) % 3) as u8, by_drop: (i / (lens.len() * 9)) % 2 == 1 }
        },
        &|c: &LongText, info: &mut Info| match catch(|| check_long_text(c, info)) {
            Ok(Ok(())) => Verdict::Pass,
            Ok(Err(m)) => Verdict::Fail(m),
            Err(p) => Verdict::Fail(format!("PANIC: {p}")),
        },
    );
    let npy = ctx.q(200, 3000);
    ctx.explore::<History>(
        "cpython_bases",
        npy,
        &|| {
            let round = (gen::program(3, 5000, true, false), prop_oneof![3 => Just(false), 1 => Just(true)]).prop_map(|(program, by_drop)| Round { program: gen::tame(program), by_drop, raw: vec![], raw_first: false, flush_after_raw: false });
            (super::c03::py_spec(), proptest::collection::vec(round, 1..=3)).prop_map(|(s, rounds)| History { base: Base::CPython(s), rounds }).boxed()
        },
        &|h: &History, info: &mut Info| {
            info.label("base:cpython");
            if let Base::CPython(s) = &h.base {
                info.label_if(s.streaming, "base:data-descriptors");
                info.label_if(s.prefix_len > 0, "base:prefixed");
                info.label_if(s.entries.iter().any(|e| e.force_zip64), "base:force_zip64");
            }
            match catch(|| check(h, info)) {
                Ok(Ok(())) => Verdict::Pass,
                Ok(Err(m)) if m.starts_with("KNOWN:append-leaves-stale-tail") => Verdict::Known("append-leaves-stale-tail", m),
                Ok(Err(m)) => Verdict::Fail(m),
                Err(p) => Verdict::Fail(format!("PANIC: {p}")),
            }
        },
    );
    let n = ctx.q(6000, 60000);
    let rmax = ctx.q(4usize, 8);
    ctx.explore::<History>(
        "histories",
        n,
        &|| {
            let round = (gen::program(3, 20000, true, true), prop_oneof![3 => Just(false), 1 => Just(true)]).prop_map(|(program, by_drop)| Round { program: gen::tame(program), by_drop, raw: vec![], raw_first: false, flush_after_raw: false });
            let round = (round, prop_oneof![3 => Just(vec![]), 1 => proptest::collection::vec((any::<u16>(), prop_oneof![2 => Just(None), 1 => gen::name().prop_map(Some)]), 1..3)], any::<bool>()).prop_map(|(mut r, raw, raw_first)| {
                r.flush_after_raw = raw_first ^ (raw.len() == 1);
                r.raw = raw;
                r.raw_first = raw_first;
                r
            });
            (prop_oneof![1 => gen::program(6, 20000, true, true).prop_map(|p| Base::Written(gen::tame(p))), 1 => genf::archive(6, 5000, true).prop_map(Base::Foreign)], proptest::collection::vec(round, 0..=rmax)).prop_map(|(base, rounds)| History { base, rounds }).boxed()
        },
        &|h: &History, info: &mut Info| {
            info.label(match &h.base {
                Base::Written(_) => "base:crate-written",
                Base::Foreign(_) => "base:foreign",
                Base::CPython(_) => "base:cpython",
            });
            if let Base::Foreign(s) = &h.base {
                info.label_if(s.prefix.len() > 0, "base:prefixed");
                info.label_if(s.zip64_end.is_some(), "base:zip64-end");
                info.label_if(s.entries.iter().any(|e| !e.utf8 && !e.name.is_ascii()), "base:cp437-names");
                info.label_if(s.entries.iter().any(|e| !e.comment.is_empty()), "base:file-comments");
            }
            info.label_if(h.rounds.iter().any(|r| gen::entry_count(&r.program) == 0), "empty-round");
            info.label_if(h.rounds.iter().any(|r| r.program.ops.iter().any(|o| matches!(o, Op::Comment(_)))), "comment-change");
            info.label_if(h.rounds.len() >= 3, ">=3 rounds");
            info.label_if(h.rounds.iter().any(|r| !r.raw.is_empty()), "raw-copies-in-round");
            match catch(|| check(h, info)) {
                Ok(Ok(())) => Verdict::Pass,
                Ok(Err(m)) if m.starts_with("KNOWN:append-leaves-stale-tail") => Verdict::Known("append-leaves-stale-tail", m),
                Ok(Err(m)) => Verdict::Fail(m),
                Err(p) => Verdict::Fail(format!("PANIC: {p}")),
            }
        },
    );
}
