//! C14 — raw copy transfers an entry bit-exactly without recompression.
use crate::engine::{Ctx, Info, Verdict};
use crate::gen::{self, Op, Program};
use crate::genf;
use crate::refzip::{build, parse, ArchiveSpec, Enc};
use crate::sio::ChunkReader;
use crate::util::catch;
use proptest::prelude::*;
use serde::{Deserialize, Serialize};
use std::io::{Cursor, Read};
use zip::ZipWriter;

#[derive(Clone, Debug, Serialize, Deserialize, Hash)]
pub enum Src {
    Written(Program),
    Foreign(ArchiveSpec),
}
#[derive(Clone, Debug, Serialize, Deserialize, Hash)]
pub enum Step {
    Normal(Op),
    Copy { pick: u16, rename: Option<String> },
    /// `Write::flush` on the writer (must leave everything written so far as it is)
    Flush,
}
#[derive(Clone, Debug, Serialize, Deserialize, Hash)]
pub struct Case {
    src: Src,
    /// chunking of the source archive's underlying reader (empty = none)
    src_schedule: Vec<usize>,
    steps: Vec<Step>,
}

struct SrcEntry {
    name: String,
    raw: Vec<u8>,
    method: u16,
    crc: u32,
    size: u64,
    csize: u64,
    dos: (u16, u16),
    mode: Option<u32>,
    content: Option<Vec<u8>>,
    encrypted: bool,
}

fn check(c: &Case, info: &mut Info) -> Result<(), String> {
    let (src_bytes, decodable): (Vec<u8>, Vec<Option<Vec<u8>>>) = match &c.src {
        Src::Written(p) => {
            let b = gen::run_program(p, false).map_err(|e| format!("harness: source program refused: {e}"))?;
            let m = gen::model(p).0;
            (b, m.into_iter().map(|e| if e.password.is_none() { Some(e.content) } else { None }).collect())
        }
        Src::Foreign(s) => {
            let b = build::build(s).map_err(|e| format!("harness: {e}"))?;
            if genf::zip64_search_ambiguous(s, &b) {
                info.label("skipped-ambiguous");
                return Ok(());
            }
            let d = s.order().iter().map(|&i| if matches!(s.entries[i].method, 0 | 8 | 12 | 93) && matches!(s.entries[i].enc, Enc::None) { Some(s.entries[i].content.expand()) } else { None }).collect();
            (b.bytes, d)
        }
    };
    // reference view of the source (plain cursor)
    let mut ref_za = zip::ZipArchive::new(Cursor::new(&src_bytes[..])).map_err(|e| format!("harness: source unreadable: {e}"))?;
    let mut src: Vec<SrcEntry> = Vec::new();
    for i in 0..ref_za.len() {
        let mut f = ref_za.by_index_raw(i).map_err(|e| format!("harness: by_index_raw: {e}"))?;
        let mut raw = Vec::new();
        f.read_to_end(&mut raw).map_err(|e| format!("harness: raw read: {e}"))?;
        let lm = f.last_modified();
        src.push(SrcEntry {
            name: f.name().to_string(),
            raw,
            method: super::common::method_id(f.compression()),
            crc: f.crc32(),
            size: f.size(),
            csize: f.compressed_size(),
            dos: (lm.datepart(), lm.timepart()),
            mode: f.unix_mode(),
            content: decodable.get(i).cloned().flatten(),
            encrypted: matches!(&c.src, Src::Written(p) if gen::model(p).0.get(i).map(|m| m.password.is_some()).unwrap_or(false)),
        });
    }
    if src.iter().all(|s| s.encrypted) {
        info.label("skipped-no-copyable-entry");
        return Ok(());
    }
    // the source archive as the copy sees it: possibly through a short-read reader
    let mut za = zip::ZipArchive::new(ChunkReader::new(Cursor::new(&src_bytes[..]), c.src_schedule.clone(), vec![])).map_err(|e| format!("harness: source unreadable through chunked reader: {e}"))?;
    // ---- run the destination program
    enum Want {
        Normal(gen::ModelEntry),
        Copy(usize, String),
    }
    let mut want: Vec<Want> = Vec::new();
    let mut comment = Vec::new();
    let mut sink = Cursor::new(Vec::new());
    {
        let mut w = std::mem::ManuallyDrop::new(ZipWriter::new(&mut sink));
        for st in &c.steps {
            match st {
                Step::Normal(op) => {
                    gen::apply(&mut w, op).map_err(|e| format!("harness: normal op refused: {e}"))?;
                    let (m, cm) = gen::model(&Program { ops: vec![op.clone()] });
                    if let Op::Comment(_) = op {
                        comment = cm;
                    }
                    want.extend(m.into_iter().map(Want::Normal));
                }
                Step::Flush => {
                    use std::io::Write;
                    w.flush().map_err(|e| format!("flush() failed: {e}"))?;
                }
                Step::Copy { pick, rename } => {
                    let cands: Vec<usize> = (0..src.len()).filter(|i| !src[*i].encrypted).collect();
                    let i = cands[(*pick as usize * cands.len()) >> 16];
                    let f = za.by_index_raw(i).map_err(|e| format!("harness: by_index_raw({i}): {e}"))?;
                    match rename {
                        Some(n) => {
                            w.raw_copy_file_rename(f, n.clone()).map_err(|e| format!("raw_copy_file_rename refused: {e}"))?;
                            want.push(Want::Copy(i, n.clone()));
                        }
                        None => {
                            w.raw_copy_file(f).map_err(|e| format!("raw_copy_file refused: {e}"))?;
                            want.push(Want::Copy(i, src[i].name.clone()));
                        }
                    }
                }
            }
        }
        w.finish().map_err(|e| format!("finish: {e}"))?;
    }
    let out = sink.into_inner();
    // ---- judge the destination
    let p = parse::parse(&out[..], parse::Opts::strict()).map_err(|e| format!("destination archive is not valid: {e}"))?;
    if p.comment != comment {
        return Err("destination comment differs".into());
    }
    let mut dz = zip::ZipArchive::new(Cursor::new(&out[..])).map_err(|e| format!("destination cannot be opened: {e}"))?;
    if dz.len() != want.len() || p.entries.len() != want.len() {
        return Err(format!("destination has {} entries, expected {}", dz.len(), want.len()));
    }
    let mut nontrivial = false;
    for (k, wv) in want.iter().enumerate() {
        match wv {
            Want::Normal(m) => {
                let pw = m.password.as_ref().map(|s| s.as_bytes().to_vec());
                let mut f = match &pw {
                    Some(pw) => dz.by_index_decrypt(k, pw).map_err(|e| format!("entry {k}: {e}"))?.map_err(|_| format!("entry {k}: password rejected"))?,
                    None => dz.by_index(k).map_err(|e| format!("neighbour entry {k}: by_index: {e}"))?,
                };
                let mut v = Vec::new();
                f.read_to_end(&mut v).map_err(|e| format!("neighbour entry {k} ({:?}) of a raw copy no longer reads: {e}", m.name))?;
                if v != m.content || f.name() != m.name || f.crc32() != m.crc {
                    return Err(format!("neighbour entry {k} ({:?}) written normally next to a raw copy is damaged", m.name));
                }
            }
            Want::Copy(i, name) => {
                let s = &src[*i];
                let has_neighbour = (k > 0 && matches!(want[k - 1], Want::Normal(_))) || (k + 1 < want.len() && matches!(want[k + 1], Want::Normal(_)));
                nontrivial |= has_neighbour && !s.raw.is_empty();
                let (raw, meta) = {
                    let mut f = dz.by_index_raw(k).map_err(|e| format!("copy {k}: by_index_raw: {e}"))?;
                    let mut v = Vec::new();
                    f.read_to_end(&mut v).map_err(|e| format!("copy {k}: raw read: {e}"))?;
                    let lm = f.last_modified();
                    (v, (f.name().to_string(), super::common::method_id(f.compression()), f.crc32(), f.size(), f.compressed_size(), (lm.datepart(), lm.timepart()), f.unix_mode()))
                };
                let ctx = format!("copy {k} of source entry {i} ({:?})", s.name);
                if raw != s.raw {
                    let at = raw.iter().zip(s.raw.iter()).position(|(a, b)| a != b).unwrap_or(raw.len().min(s.raw.len()));
                    return Err(format!("{ctx}: compressed bytes differ from the source's ({} vs {} bytes, first difference at {at}; source reader schedule {:?})", raw.len(), s.raw.len(), c.src_schedule));
                }
                if meta.0 != *name {
                    return Err(format!("{ctx}: name {:?}, expected {:?}", meta.0, name));
                }
                if meta.1 != s.method {
                    return Err(format!("{ctx}: method {} != source {}", meta.1, s.method));
                }
                if meta.2 != s.crc {
                    return Err(format!("{ctx}: CRC {:#x} != source {:#x}", meta.2, s.crc));
                }
                if meta.3 != s.size || meta.4 != s.csize {
                    return Err(format!("{ctx}: sizes {}/{} != source {}/{}", meta.3, meta.4, s.size, s.csize));
                }
                if meta.5 != s.dos {
                    return Err(format!("{ctx}: timestamp words {:04x?} != source {:04x?}", meta.5, s.dos));
                }
                // a Unix-made entry whose upper attribute half is all zero reads as Some(0): no file
                // type, no permissions - nothing a copy could represent differently from 'no mode'
                if let Some(sm) = s.mode.filter(|m| *m != 0) {
                    match meta.6 {
                        Some(dm) if dm & 0o777 == sm & 0o777 => {}
                        other => return Err(format!("{ctx}: permission bits {:?} != source {:#o}", other.map(|x| format!("{:#o}", x & 0o777)), sm & 0o777)),
                    }
                }
                if let Some(content) = &s.content {
                    let mut f = dz.by_index(k).map_err(|e| format!("{ctx}: by_index: {e}"))?;
                    let mut v = Vec::new();
                    f.read_to_end(&mut v).map_err(|e| format!("{ctx}: decoding the copy fails: {e}"))?;
                    if v != *content {
                        return Err(format!("{ctx}: decoded content differs from the source's"));
                    }
                }
                // independent parser's view of the copied payload
                let pe = &p.entries[k];
                if out[pe.data_start as usize..(pe.data_start + pe.csize) as usize] != s.raw[..] {
                    return Err(format!("{ctx}: payload in the destination file differs from the source payload"));
                }
            }
        }
    }
    info.nontrivial = nontrivial;
    Ok(())
}

/// Raw copies of ZIP64-sized source entries (hand-laid-out sparse source: declared uncompressed /
/// compressed sizes on either side of 4 GiB, payload a zero run that is never decoded) into a writer on
/// a sparse sink, between two normally written neighbours.
pub fn check_straddle(sizes: &[(u64, u64)], dst_start: u64) -> Result<(), String> {
    use crate::sio::{Shared, SparseFile};
    use std::io::{Seek, SeekFrom, Write};
    let (src, expect) = super::c08::foreign_large2(sizes);
    let mut rd = src.clone();
    rd.seek(SeekFrom::Start(0)).map_err(|e| e.to_string())?;
    let mut za = zip::ZipArchive::new(rd).map_err(|e| format!("harness: source unreadable: {e}"))?;
    let dst = Shared::new(SparseFile::at_position(dst_start));
    let o = zip::write::FileOptions::default().compression_method(zip::CompressionMethod::Deflated).last_modified_time(zip::DateTime::default());
    {
        let mut w = std::mem::ManuallyDrop::new(ZipWriter::new(dst.clone()));
        w.start_file("before.txt", o).map_err(|e| format!("start_file: {e}"))?;
        w.write_all(b"neighbour before the copies").map_err(|e| format!("write: {e}"))?;
        for i in 0..expect.len() {
            let f = za.by_index_raw(i).map_err(|e| format!("harness: by_index_raw({i}): {e}"))?;
            w.raw_copy_file(f).map_err(|e| format!("raw_copy_file of a source entry with sizes {:?} refused: {e}", sizes[i]))?;
        }
        w.start_file("after.txt", o).map_err(|e| format!("start_file: {e}"))?;
        w.write_all(b"neighbour after the copies").map_err(|e| format!("write: {e}"))?;
        w.finish().map_err(|e| format!("finish: {e}"))?;
    }
    // independent strict view: local header == central record (sizes incl. the local ZIP64 record)
    let p = parse::parse(&dst, parse::Opts { lenient: false, allow_leading_gap: dst_start > 0, decode_limit: 0, allow_trailing: false }).map_err(|e| format!("destination archive is not valid: {e}"))?;
    if p.entries.len() != expect.len() + 2 {
        return Err(format!("destination has {} entries, expected {}", p.entries.len(), expect.len() + 2));
    }
    let mut rd = dst.clone();
    rd.seek(SeekFrom::Start(0)).map_err(|e| e.to_string())?;
    let mut dz = zip::ZipArchive::new(rd).map_err(|e| format!("destination cannot be opened: {e}"))?;
    for (i, (name, us, cs, crc, _off)) in expect.iter().enumerate() {
        let e = &p.entries[i + 1];
        if e.usize_ != *us || e.csize != *cs || e.crc != *crc || e.name != name.as_bytes() {
            return Err(format!("copy of {name}: independent parser recovers usize {} csize {} crc {:#x}, source has {us} / {cs} / {crc:#x}", e.usize_, e.csize, e.crc));
        }
        let f = dz.by_index_raw(i + 1).map_err(|e| format!("copy of {name}: by_index_raw: {e}"))?;
        if f.size() != *us || f.compressed_size() != *cs || f.crc32() != *crc {
            return Err(format!("copy of {name}: reader reports usize {} csize {}, source has {us} / {cs}", f.size(), f.compressed_size()));
        }
        drop(f);
        // the streaming reader sees the local header only
        let mut rd = dst.clone();
        rd.seek(SeekFrom::Start(e.header_start)).map_err(|e| e.to_string())?;
        match zip::read::read_zipfile_from_stream(&mut crate::sio::NoSeek(rd)) {
            Ok(Some(f)) => {
                if f.size() != *us || f.compressed_size() != *cs {
                    let m = format!("copy of {name}: the local header states usize {} csize {}, source has {us} / {cs}", f.size(), f.compressed_size());
                    std::mem::forget(f); // do not drain gigabytes
                    return Err(m);
                }
                std::mem::forget(f);
            }
            Ok(None) => return Err(format!("copy of {name}: no local header where the central directory points")),
            Err(x) => return Err(format!("copy of {name}: local header unreadable: {x}")),
        }
    }
    for (k, want) in [(0usize, &b"neighbour before the copies"[..]), (expect.len() + 1, &b"neighbour after the copies"[..])] {
        let mut f = dz.by_index(k).map_err(|e| format!("neighbour {k}: {e}"))?;
        let mut v = Vec::new();
        f.read_to_end(&mut v).map_err(|e| format!("neighbour {k} no longer reads: {e}"))?;
        if v != want {
            return Err(format!("neighbour {k} of the raw copies is damaged"));
        }
    }
    Ok(())
}

pub fn run(ctx: &mut Ctx) {
    ctx.rule("case = source archive (crate-written program or independent-builder spec: all methods incl. ids the crate cannot decode, data descriptors, forced ZIP64, any DOS time bits, DOS/Unix/other attributes, CP437 names) opened through a reader with a generated short-read schedule x destination program interleaving raw copies (with/without rename) with ordinary entries of every kind and flush() calls. Oracle: destination raw bytes == source raw bytes; method, CRC, sizes, timestamp words equal; permission bits equal when the source states a mode; decoded content equal where decodable; neighbours intact; strict parse of the destination. straddle: hand-laid-out sparse sources whose declared uncompressed/compressed sizes lie on either side of 4 GiB (e.g. 5 GiB+123 -> 1500 bytes), copied between two ordinary entries; local header, central record and both readers must state the source sizes. Non-trivial = a copy of non-empty data with a normally written neighbour.");
    ctx.assume("a source without a Unix mode (unix_mode()==None) states no permission bits, so nothing is compared for it; file-type bits are not part of the claim");
    let n = ctx.q(8000, 80000);
    let maxc = ctx.q(200_000u32, 4 << 20);
    ctx.explore::<Case>(
        "copies",
        n,
        &|| {
            let step = prop_oneof![
                2 => (any::<u16>(), prop_oneof![2 => Just(None), 1 => gen::name().prop_map(Some)]).prop_map(|(pick, rename)| Step::Copy { pick, rename }),
                2 => gen::basic_op(20000, true).prop_map(Step::Normal),
                1 => gen::extra_op(5000, false).prop_map(Step::Normal),
                1 => Just(Step::Flush),
            ];
            (
                prop_oneof![1 => gen::program(5, maxc, true, false).prop_filter("non-empty", |p| gen::entry_count(p) > 0).prop_map(|p| Src::Written(gen::tame(p))), 1 => genf::archive(5, maxc.min(100000), true).prop_filter("non-empty", |s| !s.entries.is_empty()).prop_map(Src::Foreign)],
                prop_oneof![2 => Just(vec![]), 1 => Just(vec![1usize]), 1 => proptest::collection::vec(1usize..5000, 1..4), 1 => Just(vec![700usize])],
                proptest::collection::vec(step, 1..7),
            )
                .prop_map(|(src, src_schedule, steps)| Case { src, src_schedule, steps })
                .boxed()
        },
        &|c: &Case, info: &mut Info| {
            info.label(match &c.src {
                Src::Written(_) => "src:crate-written",
                Src::Foreign(_) => "src:foreign",
            });
            info.label_if(!c.src_schedule.is_empty(), "src:short-reads");
            info.label_if(c.steps.iter().any(|s| matches!(s, Step::Copy { rename: Some(_), .. })), "rename");
            info.label_if(c.steps.iter().all(|s| matches!(s, Step::Copy { .. })), "only-copies");
            info.label_if(c.steps.windows(2).any(|w| matches!(w[0], Step::Copy { .. }) && matches!(w[1], Step::Flush)), "flush-after-copy");
            if let Src::Foreign(s) = &c.src {
                info.label_if(s.entries.iter().any(|e| !matches!(e.method, 0 | 8 | 12 | 93)), "src:unsupported-method");
                info.label_if(s.entries.iter().any(|e| e.desc != crate::refzip::Desc::None), "src:data-descriptor");
            }
            match catch(|| check(c, info)) {
                Ok(Ok(())) => Verdict::Pass,
                Ok(Err(m)) => Verdict::Fail(m),
                Err(p) => Verdict::Fail(format!("PANIC: {p}")),
            }
        },
    );
    // ZIP64-sized sources whose two sizes lie on different sides of 4 GiB
    #[derive(Clone, Debug, Serialize, Deserialize, Hash)]
    struct Straddle(Vec<(u64, u64)>, #[serde(default)] u64);
    const G: u64 = 1 << 32;
    let sets: Vec<Vec<(u64, u64)>> = ctx.q(
        vec![vec![((5 << 30) + 123, 1500)], vec![(G - 1, 77), (G, 78), (G + 1, 79), (G - 2, 80)], vec![(0xFFFF_FFFF, 0), (1, 1)]],
        vec![vec![((5 << 30) + 123, 1500)], vec![(G - 1, 77), (G, 78), (G + 1, 79), (G - 2, 80)], vec![(0xFFFF_FFFF, 0), (1, 1)], vec![(100, G + 10)], vec![(G + 1, G + 1), (3, 3)], vec![(G - 1, G - 1)]],
    );
    ctx.max_shrink_iters = 0;
    // each set is copied into a destination starting at 0 and into one starting beyond 4 GiB (header
    // offsets then need ZIP64 as well)
    ctx.enumerate::<Straddle>("straddle", sets.len() as u64 * 2, &|i| Straddle(sets[i as usize / 2].clone(), if i % 2 == 0 { 0 } else { (1u64 << 32) + 4242 }), &|s: &Straddle, info: &mut Info| {
        info.nontrivial = true;
        info.label_if(s.0.iter().any(|(u, c)| (*u >= G - 1) != (*c >= G - 1)), "sizes-straddle-4GiB");
        info.label_if(s.1 > 0, "destination-beyond-4GiB");
        match catch(|| check_straddle(&s.0, s.1)) {
            Ok(r) => Verdict::from_result(r),
            Err(p) => Verdict::Fail(format!("PANIC: {p}")),
        }
    });
    ctx.max_shrink_iters = 2048;
}