//! C15 — ZipCrypto: right password decrypts, none/wrong is refused; interoperable both ways.
use super::c02::zipcrypto_plain;
use crate::engine::{Ctx, Info, Verdict};
use crate::gen::{self, Method, Op, Opts, Program};
use crate::refzip::content::{self, Content};
use crate::refzip::{build, crypto, parse, ArchiveSpec, Desc, Enc, EntrySpec};
use crate::util::catch;
use proptest::prelude::*;
use serde::{Deserialize, Serialize};
use std::io::{Cursor, Read};
use std::sync::Mutex;
use zip::result::ZipError;

#[derive(Clone, Debug, Serialize, Deserialize, Hash)]
pub struct WCase {
    password: String,
    wrong: String,
    method: Method,
    level: Option<i32>,
    content: Content,
    before: u8,
    after: u8,
    large: bool,
    #[serde(default)]
    name: String,
}

fn program_of(c: &WCase) -> (Program, usize) {
    let mut ops = Vec::new();
    for i in 0..c.before % 3 {
        ops.push(Op::File { name: format!("pre{i}"), opts: Opts::plain(Method::Deflated), chunks: vec![Content::Text { seed: i as u64, len: 100 }] });
    }
    let k = ops.len();
    let mut o = Opts::plain(c.method);
    o.level = c.level;
    o.password = Some(c.password.clone());
    o.large = c.large;
    // how the encrypted entry is started: start_file, start_file_aligned, or start_file_with_extra_data
    // (shared or split extra data) - the password option goes with each of them
    match (c.before / 3) % 4 {
        1 => ops.push(Op::Aligned { name: entry_name(c), opts: o, align: [4u16, 64, 4096][(c.after as usize / 3) % 3], chunks: vec![c.content.clone()] }),
        2 => ops.push(Op::ExtraFile { name: entry_name(c), opts: o, local: vec![crate::refzip::Extra { id: 0xcafe, data: vec![1, 2, 3] }], central: None, chunks: vec![c.content.clone()] }),
        3 => ops.push(Op::ExtraFile { name: entry_name(c), opts: o, local: vec![crate::refzip::Extra { id: 0xcafe, data: vec![9; 40] }], central: Some(vec![crate::refzip::Extra { id: 0xbeef, data: vec![7] }]), chunks: vec![c.content.clone()] }),
        _ => ops.push(Op::File { name: entry_name(c), opts: o, chunks: vec![c.content.clone()] }),
    }
    for i in 0..c.after % 3 {
        ops.push(Op::File { name: format!("post{i}"), opts: Opts::plain(Method::Stored), chunks: vec![Content::Bytes(b"plain neighbour".to_vec())] });
    }
    (Program { ops }, k)
}

fn entry_name(c: &WCase) -> String {
    if c.name.is_empty() || c.name.starts_with("pre") || c.name.starts_with("post") {
        "secret.bin".to_string()
    } else {
        c.name.clone()
    }
}

fn read_all<R: Read>(r: &mut R) -> Result<Vec<u8>, String> {
    let mut v = Vec::new();
    r.read_to_end(&mut v).map_err(|e| e.to_string())?;
    Ok(v)
}

/// reader-side contract for one encrypted entry `k` with plaintext `plain`
fn reader_contract(bytes: &[u8], k: usize, name: &str, pw: &[u8], wrong: &[u8], plain: &[u8]) -> Result<(), String> {
    let mut za = zip::ZipArchive::new(Cursor::new(bytes)).map_err(|e| format!("archive does not open: {e}"))?;
    // right password
    match za.by_index_decrypt(k, pw) {
        Ok(Ok(mut f)) => {
            let got = read_all(&mut f).map_err(|e| format!("reading with the correct password fails: {e}"))?;
            if got != plain {
                return Err(format!("correct password returns {} bytes that differ from the original {} bytes", got.len(), plain.len()));
            }
        }
        Ok(Err(_)) => return Err("correct password rejected (InvalidPassword)".into()),
        Err(e) => return Err(format!("correct password: {e}")),
    }
    match za.by_name_decrypt(name, pw) {
        Ok(Ok(mut f)) => {
            if read_all(&mut f).map_err(|e| format!("by_name_decrypt read: {e}"))? != plain {
                return Err("by_name_decrypt returns different bytes".into());
            }
        }
        _ => return Err("by_name_decrypt with the correct password fails".into()),
    }
    // no password
    match za.by_index(k) {
        Err(ZipError::UnsupportedArchive(m)) if m == ZipError::PASSWORD_REQUIRED => {}
        Err(e) => return Err(format!("opening without a password gives {e:?}, expected the password-required error")),
        Ok(_) => return Err("encrypted entry opened without a password".into()),
    }
    match za.by_name(name) {
        Err(ZipError::UnsupportedArchive(m)) if m == ZipError::PASSWORD_REQUIRED => {}
        _ => return Err("by_name without a password does not give the password-required error".into()),
    }
    // wrong password: rejected up front or fails on read; never a completed read of other bytes
    if wrong != pw {
        match za.by_index_decrypt(k, wrong) {
            Ok(Err(_)) | Err(_) => {}
            Ok(Ok(mut f)) => match read_all(&mut f) {
                Err(_) => {}
                Ok(got) if got == plain => {} // an equivalent key (cannot happen in practice)
                Ok(got) => return Err(format!("a different password completed a read of {} other bytes", got.len())),
            },
        }
    }
    Ok(())
}

fn check_written(c: &WCase, ext: &Mutex<Vec<(Vec<u8>, Option<String>, serde_json::Value)>>, budget: usize) -> Result<(), String> {
    let (p, k) = program_of(c);
    let bytes = gen::run_program(&p, false).map_err(|e| format!("writer refused: {e}"))?;
    let plain = c.content.expand();
    let pp = parse::parse(&bytes[..], parse::Opts::strict()).map_err(|e| format!("strict parser: {e}"))?;
    let e = &pp.entries[k];
    if e.flags & 1 == 0 {
        return Err("entry written with a password does not have the encryption flag".into());
    }
    let raw = &bytes[e.data_start as usize..(e.data_start + e.csize) as usize];
    // standard PKWARE cipher: an independent implementation decrypts it with that password
    let dec = zipcrypto_plain(raw, c.password.as_bytes(), e.method, e.crc, plain.len() + 1)?;
    if dec != plain {
        return Err("independent decryption yields different plaintext".into());
    }
    if e.crc != crypto::crc32(&plain) || e.usize_ != plain.len() as u64 {
        return Err("stored CRC/size do not describe the plaintext".into());
    }
    // the plaintext does not appear in the file
    if plain.len() >= 8 && c.method == Method::Stored {
        // looked for where it would sit if it had not been enciphered: the entry's data region (trivial
        // plaintexts such as a run of zeros occur in every archive's headers)
        if raw.windows(plain.len().min(16)).any(|w| w == &plain[..plain.len().min(16)]) {
            return Err("plaintext bytes appear in the entry's data region".into());
        }
    }
    reader_contract(&bytes, k, &entry_name(c), c.password.as_bytes(), c.wrong.as_bytes(), &plain)?;
    // a password given for an unencrypted entry is ignored
    let mut za = zip::ZipArchive::new(Cursor::new(&bytes[..])).map_err(|e| e.to_string())?;
    for i in 0..za.len() {
        if i == k {
            continue;
        }
        match za.by_index_decrypt(i, b"irrelevant") {
            Ok(Ok(mut f)) => {
                read_all(&mut f).map_err(|e| format!("unencrypted neighbour {i} fails when a password is supplied: {e}"))?;
            }
            _ => return Err(format!("unencrypted neighbour {i} cannot be opened when a password is supplied")),
        }
    }
    let pw_ok = !c.password.is_empty() && c.password.is_ascii() && !c.password.starts_with('-') && !c.password.contains('\0');
    if pw_ok && c.method != Method::Zstd && bytes.len() < (1 << 20) {
        let mut g = ext.lock().unwrap();
        if g.len() < budget {
            g.push((bytes, Some(c.password.clone()), serde_json::to_value(c).unwrap()));
        }
    }
    Ok(())
}

#[derive(Clone, Debug, Serialize, Deserialize, Hash)]
pub struct FCase {
    #[serde(with = "crate::util::hexbytes")]
    password: Vec<u8>,
    #[serde(with = "crate::util::hexbytes")]
    wrong: Vec<u8>,
    #[serde(with = "crate::util::hexbytes")]
    header: Vec<u8>,
    time_check: bool,
    desc: Desc,
    method: u16,
    content: Content,
    dos_time: u16,
    pos: u8,
    /// producer identification (host system << 8 | version), any value: it must not influence decryption
    #[serde(default)]
    made_by: Option<u16>,
    #[serde(default)]
    dos_date: Option<u16>,
    /// well-formed third-party extra records next to the entry (see genf::well_known_extras), e.g. an
    /// extended-timestamp record whose time differs from the DOS time the Info-ZIP check byte is taken from
    #[serde(default)]
    wk: u8,
    #[serde(default)]
    version_needed: Option<u16>,
}

fn check_foreign(c: &FCase) -> Result<(), String> {
    let mut e = EntrySpec::simple(b"enc.dat", c.method, c.content.clone());
    e.enc = Enc::ZipCrypto { password: c.password.clone(), header: c.header.clone(), time_check: c.time_check };
    e.desc = if c.time_check && c.desc == Desc::None { Desc::Sig32 } else if !c.time_check { Desc::None } else { c.desc };
    e.dos_time = c.dos_time;
    if let Some(m) = c.made_by {
        e.made_by = m;
    }
    if let Some(d) = c.dos_date {
        e.dos_date = d;
    }
    if let Some(v) = c.version_needed {
        e.version_needed = v;
    }
    for (k, r) in crate::genf::well_known_extras(b"enc.dat", b"", c.wk).into_iter().enumerate() {
        if (k + c.wk as usize) % 2 == 0 {
            e.central_extra_before.push(r.clone());
        } else {
            e.central_extra_after.push(r.clone());
        }
        e.local_extra.push(r);
    }
    let mut entries = vec![];
    for i in 0..c.pos % 3 {
        entries.push(EntrySpec::simple(format!("p{i}").as_bytes(), 8, Content::Text { seed: 3, len: 64 }));
    }
    let k = entries.len();
    entries.push(e);
    entries.push(EntrySpec::simple(b"tail", 0, Content::Bytes(b"t".to_vec())));
    let b = build::build(&ArchiveSpec::plain(entries)).map_err(|e| format!("harness: {e}"))?;
    reader_contract(&b.bytes, k, "enc.dat", &c.password, &c.wrong, &c.content.expand())
}

#[derive(Clone, Debug, Serialize, Deserialize, Hash)]
pub struct CheckByte {
    time_variant: bool,
    target: u8,
    /// producer id of the entry (e.g. MS-DOS host, PKZIP 1.x version numbers)
    #[serde(default)]
    made_by: Option<u16>,
}

fn check_byte_family(c: &CheckByte) -> Result<(), String> {
    // content (or time word) chosen so the validated byte equals `target`
    let (content, dos_time) = if c.time_variant {
        (Content::Bytes(b"time-validated entry".to_vec()), (c.target as u16) << 8 | 0x15)
    } else {
        let mut n = 0u32;
        loop {
            let cand = format!("crc-target-{n}").into_bytes();
            if (crypto::crc32(&cand) >> 24) as u8 == c.target {
                break (Content::Bytes(cand), 0x54CFu16);
            }
            n += 1;
        }
    };
    let pw = b"right-password".to_vec();
    let wrong = b"wrong-password".to_vec();
    let header = vec![0xA1, 0x5C, 0x33, 0x07, 0xEE, 0x90, 0x12, 0x48, 0xBD, 0x6F, 0x21];
    let mut e = EntrySpec::simple(b"family", 0, content.clone());
    e.enc = Enc::ZipCrypto { password: pw.clone(), header, time_check: c.time_variant };
    if c.time_variant {
        e.desc = Desc::Sig32;
    }
    e.dos_time = dos_time;
    if let Some(m) = c.made_by {
        e.made_by = m;
        e.version_needed = 10;
    }
    let b = build::build(&ArchiveSpec::plain(vec![e])).map_err(|e| format!("harness: {e}"))?;
    let plain = content.expand();
    // what the wrong password makes of the check byte (independent computation)
    let be = &b.entries[0];
    let mut hdr = b.bytes[be.data_start as usize..be.data_start as usize + 12].to_vec();
    crypto::PkKeys::new(&wrong).decrypt(&mut hdr);
    let passes_validation = hdr[11] == c.target;
    let mut za = zip::ZipArchive::new(Cursor::new(&b.bytes[..])).map_err(|e| format!("archive does not open: {e}"))?;
    match za.by_index_decrypt(0, &pw) {
        Ok(Ok(mut f)) => {
            if read_all(&mut f).map_err(|e| format!("correct password, check byte {:#04x}: read fails: {e}", c.target))? != plain {
                return Err(format!("correct password, check byte {:#04x}: wrong bytes", c.target));
            }
        }
        _ => return Err(format!("correct password rejected for check byte {:#04x} ({} variant)", c.target, if c.time_variant { "Info-ZIP time" } else { "CRC" })),
    }
    match za.by_index_decrypt(0, &wrong) {
        Ok(Err(_)) => {
            if passes_validation {
                return Err(format!("wrong password decrypts the check byte to the expected {:#04x} but was rejected up front", c.target));
            }
        }
        Ok(Ok(mut f)) => {
            if !passes_validation {
                return Err(format!("wrong password accepted up front although its check byte {:#04x} != {:#04x} ({} variant)", hdr[11], c.target, if c.time_variant { "Info-ZIP time" } else { "CRC" }));
            }
            if let Ok(got) = read_all(&mut f) {
                if got != plain {
                    return Err("wrong password with matching check byte completed a read of other bytes".into());
                }
            }
        }
        Err(e) => return Err(format!("wrong password: unexpected error {e}")),
    }
    Ok(())
}

pub fn run(ctx: &mut Ctx) {
    ctx.rule("written: entries written with with_deprecated_encryption over passwords {empty, 1 byte, printable, arbitrary Unicode, NUL/0x7f/0x80/0xff code points, 200-300 bytes} x every method/level x contents x position in the archive: independent PKWARE implementation decrypts the raw data (check byte = CRC high byte, payload decodes to the plaintext), plaintext absent from the file, same password reads back, none -> password-required, different password -> rejected or read error, password ignored for plain neighbours; a sample also decrypted by CPython zipfile and unzip. foreign: entries encrypted by the independent builder (random 11-byte header; CRC-byte and Info-ZIP time-byte validation with data descriptors). checkbyte: the 256 possible validation bytes x both variants (exhaustive) against a fixed wrong password. Non-trivial = non-empty content and non-empty password.");
    let n = ctx.q(20000, 150000);
    let maxc = ctx.q(40000u32, 1 << 20);
    let ext: Mutex<Vec<(Vec<u8>, Option<String>, serde_json::Value)>> = Mutex::new(Vec::new());
    let budget = ctx.q(150usize, 3000);
    ctx.explore::<WCase>(
        "written",
        n,
        &|| {
            (gen::password(), gen::password(), gen::method_level(), content::content(maxc), any::<u8>(), any::<u8>(), prop_oneof![4 => Just(false), 1 => Just(true)], prop_oneof![2 => Just(String::new()), 2 => "[a-zé漢😀]{1,10}", 1 => gen::name()])
                .prop_map(|(password, wrong, (method, level), content, before, after, large, name)| WCase { password, wrong, method, level: level.map(|l| l.min(12)), content, before, after, large, name })
                .boxed()
        },
        &|c: &WCase, info: &mut Info| {
            info.nontrivial = !c.content.is_empty() && !c.password.is_empty();
            info.label_if(c.password.is_empty(), "empty-password");
            info.label_if(!c.password.is_ascii(), "non-ascii-password");
            info.label_if(c.password.len() > 100, "long-password");
            info.label_if(c.content.is_empty(), "empty-content");
            info.label_if(!entry_name(c).is_ascii(), "non-ascii-name");
            info.label(match c.method {
                Method::Stored => "stored",
                Method::Deflated => "deflate",
                Method::Bzip2 => "bzip2",
                Method::Zstd => "zstd",
            });
            match catch(|| check_written(c, &ext, budget)) {
                Ok(r) => Verdict::from_result(r),
                Err(p) => Verdict::Fail(format!("PANIC: {p}")),
            }
        },
    );
    if ctx.is_run() {
        let g = ext.into_inner().unwrap();
        let arcs: Vec<(Vec<u8>, Option<String>)> = g.iter().map(|x| (x.0.clone(), x.1.clone())).collect();
        let t0 = std::time::Instant::now();
        match super::common::external_judges(&arcs, "c15") {
            Ok(res) => {
                let mut bad = None;
                for (i, (py, uz)) in res.iter().enumerate() {
                    if !py.is_empty() {
                        bad = Some((i, format!("CPython zipfile cannot decrypt the crate-written entry with the same password: {py}")));
                        break;
                    }
                    if !uz.is_empty() && !uz.starts_with("exit Some(1)") {
                        bad = Some((i, format!("unzip cannot decrypt/test the crate-written entry with the same password: {uz}")));
                        break;
                    }
                }
                ctx.count_bulk("external_decrypt", g.len() as u64, 0, vec![], t0.elapsed().as_secs_f64());
                ctx.add_class("external:archives-decrypted-by-cpython-and-unzip", g.len() as u64);
                if let Some((i, m)) = bad {
                    ctx.violation("written", g[i].2.clone(), m);
                }
            }
            Err(e) => ctx.assume(&format!("external decryptors could not run: {e}")),
        }
    }
    let nf = ctx.q(30000, 300000);
    ctx.explore::<FCase>(
        "foreign",
        nf,
        &|| {
            let pw = || prop_oneof![1 => Just(vec![]), 3 => proptest::collection::vec(any::<u8>(), 1..16), 1 => proptest::collection::vec(any::<u8>(), 200..400)];
            (pw(), pw(), proptest::collection::vec(any::<u8>(), 11), any::<bool>(), prop_oneof![Just(Desc::Sig32), Just(Desc::NoSig32), Just(Desc::Sig64)], prop_oneof![Just(0u16), Just(8), Just(12), Just(93)], content::content(20000), any::<u16>(), any::<u8>(),
                (prop_oneof![1 => Just(None), 2 => crate::genf::made_by().prop_map(Some), 1 => prop_oneof![Just(10u16), Just(11), Just(19), Just(20), Just(0x0314), Just(0x000a)].prop_map(Some)], prop_oneof![1 => Just(None), 1 => any::<u16>().prop_map(Some)], prop_oneof![2 => Just(0u8), 1 => Just(4u8), 1 => any::<u8>()], prop_oneof![2 => Just(None), 1 => prop_oneof![Just(10u16), Just(20), Just(45), Just(63)].prop_map(Some)]))
                .prop_map(|(password, wrong, header, time_check, desc, method, content, dos_time, pos, (made_by, dos_date, wk, version_needed))| FCase { password, wrong, header, time_check, desc, method, content, dos_time, pos, made_by, dos_date, wk, version_needed })
                .boxed()
        },
        &|c: &FCase, info: &mut Info| {
            info.nontrivial = !c.content.is_empty() && !c.password.is_empty();
            info.label(if c.time_check { "infozip-time-check" } else { "crc-check" });
            info.label_if(c.made_by.map(|m| m >> 8 == 0).unwrap_or(false), "made-by-dos");
            info.label_if(c.wk & 4 != 0, "extended-timestamp-extra");
            match catch(|| check_foreign(c)) {
                Ok(r) => Verdict::from_result(r),
                Err(p) => Verdict::Fail(format!("PANIC: {p}")),
            }
        },
    );
    // entries encrypted by Info-ZIP `zip -e` (real producer of the time-byte variant)
    let niz = ctx.q(120, 2500);
    ctx.explore::<(String, Vec<(String, Content)>, bool, u8)>(
        "infozip",
        niz,
        &|| ("[a-zA-Z0-9!#%+,.:=@^_~]{1,16}", proptest::collection::vec(("[a-z0-9_]{1,8}", content::content(8000)), 1..4), any::<bool>(), 0u8..=9).boxed(),
        &|(pw, files, fd, level): &(String, Vec<(String, Content)>, bool, u8), info: &mut Info| {
            let mut seen = std::collections::HashSet::new();
            let files: Vec<(String, Vec<u8>)> = files.iter().filter(|(n, _)| seen.insert(n.clone())).map(|(n, c)| (n.clone(), c.expand())).collect();
            info.nontrivial = files.iter().any(|f| !f.1.is_empty());
            info.label_if(*fd, "-fd");
            let mut flags = vec![format!("-{level}"), "-e".to_string(), "-P".to_string(), pw.clone()];
            if *fd {
                flags.push("-fd".into());
            }
            let r = catch(|| -> Result<(), String> {
                let bytes = super::common::infozip_archive(&files, &flags)?;
                for (k, (n, c)) in files.iter().enumerate() {
                    reader_contract(&bytes, k, n, pw.as_bytes(), b"definitely-wrong", c).map_err(|e| format!("Info-ZIP `zip -e` entry {n}: {e}"))?;
                }
                Ok(())
            });
            match r {
                Ok(r) => Verdict::from_result(r),
                Err(p) => Verdict::Fail(format!("PANIC: {p}")),
            }
        },
    );
    ctx.enumerate::<CheckByte>("checkbyte", 512 * 4, &|i| CheckByte { time_variant: i % 512 >= 256, target: (i % 256) as u8, made_by: [None, Some(10u16), Some(0x0014), Some(0x0b17)][(i / 512) as usize] }, &|c: &CheckByte, info: &mut Info| {
        info.nontrivial = true;
        match catch(|| check_byte_family(c)) {
            Ok(r) => Verdict::from_result(r),
            Err(p) => Verdict::Fail(format!("PANIC: {p}")),
        }
    });
}
