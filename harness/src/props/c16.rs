//! C16 — WinZip-AES entries decrypt correctly and tampering is detected.
use crate::engine::{Ctx, Info, Verdict};
use crate::gen;
use crate::refzip::content::{self, Content};
use crate::refzip::{build, ArchiveSpec, Built, Enc, EntrySpec};
use crate::util::catch;
use proptest::prelude::*;
use serde::{Deserialize, Serialize};
use std::io::{Cursor, Read};
use zip::result::ZipError;

#[derive(Clone, Debug, Serialize, Deserialize, Hash)]
pub struct Combo {
    ae2: bool,
    strength: u8,
    method: u16,
    content: Content,
    #[serde(with = "crate::util::hexbytes")]
    password: Vec<u8>,
    #[serde(with = "crate::util::hexbytes")]
    wrong: Vec<u8>,
    pos: u8,
    bufsel: u8,
}

fn spec_of(c: &Combo) -> (ArchiveSpec, usize) {
    let mut e = EntrySpec::simple(b"aes.bin", c.method, c.content.clone());
    e.enc = Enc::Aes { password: c.password.clone(), salt_seed: vec![c.strength, c.ae2 as u8, c.pos], strength: c.strength, ae2: c.ae2 };
    let mut entries = vec![];
    for i in 0..c.pos % 3 {
        entries.push(EntrySpec::simple(format!("p{i}").as_bytes(), 8, Content::Text { seed: 3, len: 64 }));
    }
    let k = entries.len();
    entries.push(e);
    entries.push(EntrySpec::simple(b"tail", 0, Content::Bytes(b"t".to_vec())));
    (ArchiveSpec::plain(entries), k)
}

const BUFS: &[&[usize]] = &[&[65536], &[1], &[0, 5], &[16], &[4, 2, 64], &[17], &[7, 4096], &[3, 200, 1], &[15, 129], &[1, 31, 4096], &[5, 128, 500]];

fn read_bufs<R: Read>(r: &mut R, bufs: &[usize]) -> Result<Vec<u8>, String> {
    super::common::read_with_bufs(r, bufs, 1 << 26)
}

/// outcome of opening+reading entry k with a password
enum Out {
    Data(Vec<u8>),
    Refused(String),
}
fn open_read(bytes: &[u8], k: usize, pw: &[u8], bufs: &[usize]) -> Result<Out, String> {
    let mut za = match zip::ZipArchive::new(Cursor::new(bytes)) {
        Ok(z) => z,
        Err(e) => return Ok(Out::Refused(format!("open: {e}"))),
    };
    let r = match za.by_index_decrypt(k, pw) {
        Ok(Ok(mut f)) => match read_bufs(&mut f, bufs) {
            Ok(d) => Out::Data(d),
            Err(e) if e.starts_with("read error") => Out::Refused(e),
            Err(e) => return Err(e),
        },
        Ok(Err(_)) => Out::Refused("InvalidPassword".into()),
        Err(e) => Out::Refused(format!("by_index_decrypt: {e}")),
    };
    Ok(r)
}

fn check_combo(c: &Combo) -> Result<(), String> {
    let (spec, k) = spec_of(c);
    let b = build::build(&spec).map_err(|e| format!("harness: {e}"))?;
    let plain = c.content.expand();
    let bufs = BUFS[c.bufsel as usize % BUFS.len()];
    match open_read(&b.bytes, k, &c.password, bufs)? {
        Out::Data(d) if d == plain => {}
        Out::Data(d) => return Err(format!("correct password returns {} bytes that differ from the original {} bytes (caller buffers {bufs:?})", d.len(), plain.len())),
        Out::Refused(e) => return Err(format!("correct password refused: {e} (caller buffers {bufs:?})")),
    }
    let mut za = zip::ZipArchive::new(Cursor::new(&b.bytes[..])).map_err(|e| format!("open: {e}"))?;
    match za.by_index(k) {
        Err(ZipError::UnsupportedArchive(m)) if m == ZipError::PASSWORD_REQUIRED => {}
        Err(e) => return Err(format!("without a password: {e:?}, expected the password-required error")),
        Ok(_) => return Err("AES entry opened without a password".into()),
    }
    match za.by_name("aes.bin") {
        Err(ZipError::UnsupportedArchive(m)) if m == ZipError::PASSWORD_REQUIRED => {}
        _ => return Err("by_name without a password does not give the password-required error".into()),
    }
    // HMAC zero-pads keys up to its block size, so passwords that differ only in trailing NUL bytes
    // derive the same keys: they are the same password as far as WinZip AES is concerned
    let strip = |p: &[u8]| -> Vec<u8> {
        if p.len() > 64 {
            return p.to_vec();
        }
        let mut v = p.to_vec();
        while v.last() == Some(&0) {
            v.pop();
        }
        v
    };
    if strip(&c.wrong) != strip(&c.password) {
        match open_read(&b.bytes, k, &c.wrong, bufs)? {
            Out::Refused(_) => {}
            Out::Data(d) if d == plain && plain.is_empty() => {} // nothing to protect
            Out::Data(d) => return Err(format!("a wrong password completed a read of {} bytes", d.len())),
        }
    }
    // metadata: the inner method and sizes are reported
    let f = za.by_index_raw(k).map_err(|e| e.to_string())?;
    if super::common::method_id(f.compression()) != c.method {
        return Err(format!("compression() reports {} for inner method {}", super::common::method_id(f.compression()), c.method));
    }
    if f.size() != plain.len() as u64 {
        return Err("size() differs".into());
    }
    // CRC field: enforced under AE-1, ignored under AE-2
    let true_crc = crate::refzip::crypto::crc32(&plain);
    // one wrong value per case: a flipped byte, or a special value (0, all ones, 1, complement, a signature)
    let wrong_vals = [true_crc ^ 0x5a, 0, 0xFFFF_FFFF, 1, !true_crc, 0x0403_4b50, true_crc ^ 0x8000_0000];
    let wrong = wrong_vals[(c.pos as usize + c.bufsel as usize) % wrong_vals.len()];
    let mut bad = b.bytes.clone();
    for fld in b.fields.iter().filter(|f| f.name == "c_crc" && f.entry == Some(k)) {
        bad[fld.off..fld.off + 4].copy_from_slice(&wrong.to_le_bytes());
    }
    if wrong != true_crc || c.ae2 {
        match open_read(&bad, k, &c.password, bufs)? {
            Out::Data(d) => {
                if !c.ae2 {
                    return Err(format!("AE-1 entry whose CRC field holds {wrong:#010x} instead of {true_crc:#010x} was read to the end without error"));
                }
                if d != plain {
                    return Err("AE-2 entry with a modified CRC field returned different data".into());
                }
            }
            Out::Refused(e) => {
                if c.ae2 {
                    return Err(format!("AE-2 entry: the CRC field must be ignored, but a modified CRC made the read fail: {e}"));
                }
            }
        }
    }
    Ok(())
}

#[derive(Clone, Debug, Serialize, Deserialize, Hash)]
pub struct Tamper {
    ae2: bool,
    strength: u8,
    method: u16,
    len: u32,
    /// bit index inside the entry's data region (salt | verifier | ciphertext | mac)
    bit: u32,
    bufsel: u8,
}

fn small_entry(ae2: bool, strength: u8, method: u16, len: u32) -> (Built, Vec<u8>) {
    let content = Content::Text { seed: 1000 + len as u64, len };
    let mut e = EntrySpec::simple(b"t.bin", method, content.clone());
    e.enc = Enc::Aes { password: b"tamper-pw".to_vec(), salt_seed: vec![strength, 7], strength, ae2 };
    let b = build::build(&ArchiveSpec::plain(vec![e, EntrySpec::simple(b"tail", 0, Content::Bytes(b"t".to_vec()))])).expect("tamper seed");
    (b, content.expand())
}

fn region_name(strength: u8, csize: u64, byte: u64) -> &'static str {
    let salt = match strength {
        1 => 8,
        2 => 12,
        _ => 16,
    };
    if byte < salt {
        "salt"
    } else if byte < salt + 2 {
        "verifier"
    } else if byte < csize - 10 {
        "ciphertext"
    } else {
        "mac"
    }
}

fn check_tamper(t: &Tamper, b: &Built, plain: &[u8], info: &mut Info) -> Verdict {
    let be = &b.entries[0];
    let byte = (t.bit / 8) as u64;
    if byte >= be.csize {
        return Verdict::Pass;
    }
    let region = region_name(t.strength, be.csize, byte);
    info.label(match region {
        "salt" => "flip:salt",
        "verifier" => "flip:verifier",
        "ciphertext" => "flip:ciphertext",
        _ => "flip:mac",
    });
    let mut bytes = b.bytes.clone();
    bytes[(be.data_start + byte) as usize] ^= 1 << (t.bit % 8);
    let bufs = BUFS[t.bufsel as usize % BUFS.len()];
    match catch(|| open_read(&bytes, 0, b"tamper-pw", bufs)) {
        Err(p) => Verdict::Fail(format!("PANIC: {p}")),
        Ok(Err(e)) => Verdict::Fail(e),
        Ok(Ok(Out::Refused(_))) => Verdict::Pass,
        Ok(Ok(Out::Data(d))) => {
            let what = format!("flip of bit {} in the {region} of an {} / AES-{} / method {} entry with {} bytes of ciphertext was not detected: the read completed with {} bytes{}", t.bit, if t.ae2 { "AE-2" } else { "AE-1" }, [128, 192, 256][(t.strength - 1) as usize], t.method, be.csize - 10 - 2 - [8, 12, 16][(t.strength - 1) as usize], d.len(), if d == plain { " (identical to the original)" } else { " of ALTERED data" });
            if t.ae2 && t.method != 0 && be.csize > 32 * 1024 && region == "ciphertext" && d != plain {
                Verdict::Known("ae2-compressed-early-stream-end", what)
            } else {
                Verdict::Fail(what)
            }
        }
    }
}

pub fn run(ctx: &mut Ctx) {
    ctx.rule("combos: (AE-1|AE-2) x (128|192|256) x inner method {stored,deflate,bzip2,zstd} x content lengths incl. 0,1,15,16,17,31,32,33, multi-block, ~100 KiB x passwords (empty, binary, long) built by an independent encryptor (own AES/SHA-1/HMAC/PBKDF2): right password -> exact bytes under varied caller buffers; none -> password-required; wrong -> rejected or read error; CRC field enforced for AE-1, ignored for AE-2. tamper_small: EVERY single-bit flip of salt, verifier, ciphertext and authentication code of entries with <=64 bytes of ciphertext (exhaustive over version x strength x method x 6 lengths): opening or reading must fail. tamper_large: random single-bit flips in 40-170 KiB entries. tamper_tail: entries whose compressed length ends 1..12 bytes behind a multiple of 8 KiB / 32 KiB / 128 KiB (found by search over content lengths), every bit of the authentication code and of the last two ciphertext bytes flipped, read with one big buffer and with small ones. Non-trivial = non-empty content.");
    ctx.assume("known finding ae2-compressed-early-stream-end is excluded by signature: AE-2 + compressing inner method + more than 32 KiB of ciphertext + flip inside the ciphertext + read completes with altered data");
    let n = ctx.q(12000, 100000);
    ctx.explore::<Combo>(
        "combos",
        n,
        &|| {
            let len = prop_oneof![Just(0u32), Just(1), Just(15), Just(16), Just(17), Just(31), Just(32), Just(33), 34u32..300, Just(100 * 1024), 1000u32..70000];
            let pw = || prop_oneof![1 => Just(vec![]), 3 => proptest::collection::vec(any::<u8>(), 1..20), 1 => proptest::collection::vec(any::<u8>(), 64..130)];
            (any::<bool>(), 1u8..=3, prop_oneof![Just(0u16), Just(8), Just(12), Just(93)], (len, any::<u64>(), any::<bool>()), pw(), pw(), any::<u8>(), any::<u8>())
                .prop_map(|(ae2, strength, method, (len, seed, rnd), password, wrong, pos, bufsel)| Combo { ae2, strength, method, content: if rnd { Content::Rand { seed, len } } else { Content::Text { seed, len } }, password, wrong, pos, bufsel })
                .boxed()
        },
        &|c: &Combo, info: &mut Info| {
            info.nontrivial = !c.content.is_empty();
            info.label(if c.ae2 { "AE-2" } else { "AE-1" });
            info.label(["aes128", "aes192", "aes256"][(c.strength - 1) as usize]);
            info.label(match c.method {
                0 => "stored",
                8 => "deflate",
                12 => "bzip2",
                _ => "zstd",
            });
            info.label_if(c.content.len() == 0, "len:0");
            info.label_if(c.content.len() > 0 && c.content.len() <= 33, "len:1..33");
            info.label_if(c.content.len() > 32768, "len:>32K");
            match catch(|| check_combo(c)) {
                Ok(r) => Verdict::from_result(r),
                Err(p) => Verdict::Fail(format!("PANIC: {p}")),
            }
        },
    );
    // exhaustive tampering of small entries
    let lens = [1u32, 15, 16, 17, 33, 60];
    let mut seeds: Vec<(bool, u8, u16, u32, Built, Vec<u8>)> = Vec::new();
    for ae2 in [false, true] {
        for strength in 1..=3u8 {
            for method in [0u16, 8, 12, 93] {
                for &len in &lens {
                    let (b, p) = small_entry(ae2, strength, method, len);
                    if b.entries[0].csize <= 64 + 10 + 2 + 16 + 40 {
                        seeds.push((ae2, strength, method, len, b, p));
                    }
                }
            }
        }
    }
    let mut idx: Vec<(usize, u32)> = Vec::new();
    for (si, s) in seeds.iter().enumerate() {
        for bit in 0..(s.4.entries[0].csize * 8) as u32 {
            idx.push((si, bit));
        }
    }
    ctx.enumerate::<Tamper>(
        "tamper_small",
        idx.len() as u64,
        &|k| {
            let (si, bit) = idx[k as usize];
            let s = &seeds[si];
            Tamper { ae2: s.0, strength: s.1, method: s.2, len: s.3, bit, bufsel: (k % 11) as u8 }
        },
        &|t: &Tamper, info: &mut Info| {
            info.nontrivial = true;
            match seeds.iter().find(|s| s.0 == t.ae2 && s.1 == t.strength && s.2 == t.method && s.3 == t.len) {
                Some(s) => check_tamper(t, &s.4, &s.5, info),
                None => {
                    let (b, p) = small_entry(t.ae2, t.strength, t.method, t.len);
                    check_tamper(t, &b, &p, info)
                }
            }
        },
    );
    ctx.exhaustive_all = true;
    // entries whose COMPRESSED length ends just behind a multiple of the decoders' input-buffer sizes (8 KiB,
    // 32 KiB, 128 KiB): the last few compressed bytes and the authentication code then arrive in a buffer fill
    // of their own - every bit of the code and of the last two ciphertext bytes is flipped
    let tails: Vec<(bool, u8, u16, u32, Built, Vec<u8>)> = {
        let mut v = Vec::new();
        for (method, bsz) in [(8u16, 32768usize), (12, 8192), (8, 8192), (93, 131072), (12, 32768)] {
            let mut found = 0;
            // incompressible content: the compressed length follows the content length closely
            for n in (bsz - 700..bsz + 40).rev() {
                let plain = Content::Rand { seed: 4242 + n as u64, len: n as u32 }.expand();
                let Ok(c) = crate::refzip::codec::compress(method, None, &plain) else { continue };
                let r = c.len() % bsz;
                if (1..=12).contains(&r) && c.len() > bsz {
                    for ae2 in [false, true] {
                        let content = Content::Rand { seed: 4242 + n as u64, len: n as u32 };
                        let mut e = EntrySpec::simple(b"t.bin", method, content.clone());
                        e.enc = Enc::Aes { password: b"tamper-pw".to_vec(), salt_seed: vec![2, 9], strength: 2, ae2 };
                        if let Ok(b) = build::build(&ArchiveSpec::plain(vec![e, EntrySpec::simple(b"tail", 0, Content::Bytes(b"t".to_vec()))])) {
                            v.push((ae2, 2u8, method, n as u32, b, content.expand()));
                        }
                    }
                    found += 1;
                    if found >= 3 {
                        break;
                    }
                }
            }
        }
        v
    };
    let per = 96u64; // 80 bits of authentication code + 16 bits in front of it
    ctx.enumerate::<(u32, u32)>(
        "tamper_tail",
        tails.len() as u64 * per * 2,
        &|k| ((k / (per * 2)) as u32, (k % (per * 2)) as u32),
        &|&(si, j): &(u32, u32), info: &mut Info| {
            let s = &tails[si as usize];
            let csize = s.4.entries[0].csize;
            let bit = (csize * 8 - per + (j as u64 % per)) as u32;
            info.nontrivial = true;
            info.label(match s.2 {
                8 => "tail:deflate",
                12 => "tail:bzip2",
                _ => "tail:zstd",
            });
            // one big read and small reads
            let t = Tamper { ae2: s.0, strength: s.1, method: s.2, len: s.3, bit, bufsel: if j as u64 >= per { 0 } else { 6 } };
            check_tamper(&t, &s.4, &s.5, info)
        },
    );
    ctx.add_class("tamper_tail:entries", tails.len() as u64);
    // random flips in large entries
    let large: Vec<(bool, u8, u16, u32, Built, Vec<u8>)> = {
        let mut v = Vec::new();
        for ae2 in [false, true] {
            for (method, len) in [(0u16, 40_000u32), (8, 600_000), (12, 700_000), (93, 500_000), (8, 170_000)] {
                let (b, p) = small_entry(ae2, 3, method, len);
                v.push((ae2, 3u8, method, len, b, p));
            }
        }
        v
    };
    let nl = ctx.q(6000, 300000);
    let nlarge = large.len();
    ctx.explore::<(u16, u32, u8)>(
        "tamper_large",
        nl,
        &|| (any::<u16>(), any::<u32>(), any::<u8>()).boxed(),
        &|(sel, pos, bufsel): &(u16, u32, u8), info: &mut Info| {
            let s = &large[(*sel as usize * nlarge) >> 16];
            let bits = (s.4.entries[0].csize * 8) as u64;
            let bit = ((*pos as u64 * bits) >> 32) as u32;
            info.nontrivial = true;
            info.label(if s.0 { "AE-2" } else { "AE-1" });
            let t = Tamper { ae2: s.0, strength: s.1, method: s.2, len: s.3, bit, bufsel: *bufsel };
            check_tamper(&t, &s.4, &s.5, info)
        },
    );
    let _ = gen::password;
    let _ = content::content;
}
