//! C17 — aligned entries are aligned; extra data lands where requested.
use crate::engine::{Ctx, Info, Verdict};
use crate::gen::{self, is_reserved_id, Method, Opts};
use crate::refzip::content::Content;
use crate::refzip::parse;
use crate::util::catch;
use proptest::prelude::*;
use serde::{Deserialize, Serialize};
use std::io::{Cursor, Read, Write};
use zip::ZipWriter;

#[derive(Clone, Debug, Serialize, Deserialize, Hash)]
pub struct ACase {
    align: u16,
    /// bytes written before (one stored entry with this much content) to vary the offset
    pre_len: u32,
    name_len: u16,
    /// if Some(r): choose the name length so that (data_start + 4) % align == r
    target_residue: Option<u16>,
    large: bool,
    method: Method,
    content: Content,
    /// position of the (sparse) sink when the writer starts: offsets beyond 2^32 need 64-bit padding maths
    #[serde(default)]
    base: u64,
}

fn check_aligned(c: &ACase, info: &mut Info) -> Result<(), String> {
    use crate::sio::{Shared, SparseFile};
    use std::io::{Seek, SeekFrom};
    let sink = Shared::new(SparseFile::at_position(c.base));
    let mut w = std::mem::ManuallyDrop::new(ZipWriter::new(sink.clone()));
    let pre = Content::Rep { byte: 7, len: c.pre_len };
    w.start_file("pre", Opts::plain(Method::Stored).to_zip()).map_err(|e| format!("harness: {e}"))?;
    w.write_all(&pre.expand()).map_err(|e| format!("harness: {e}"))?;
    // header_start of the aligned entry = 30 + 3 + pre_len
    let header_start = c.base + 33 + c.pre_len as u64;
    let fixed = header_start + 30 + if c.large { 20 } else { 0 };
    let mut name_len = c.name_len as u64 % 3000;
    if let (Some(r), true) = (c.target_residue, c.align > 1) {
        let a = c.align as u64;
        let r = r as u64 % a;
        // (fixed + name_len + 4) % a == r
        let cur = (fixed + 4) % a;
        name_len = (r + a - cur) % a;
        if name_len > 65535 {
            name_len %= 60000;
        }
    }
    let name = "n".repeat(name_len as usize);
    let mut o = Opts::plain(c.method);
    o.large = c.large;
    let unaligned_start = fixed + name_len;
    let need_pad = c.align > 1 && unaligned_start % c.align as u64 != 0;
    let pad = if need_pad { (c.align as u64 - (unaligned_start + 4) % c.align as u64) % c.align as u64 } else { 0 };
    let record = if need_pad { 4 + pad } else { 0 };
    info.nontrivial = need_pad;
    info.label(if !need_pad { "no-padding-needed" } else if pad == 0 { "pad-record-header-only" } else if record > 65000 { "pad>65000" } else { "padded" });
    let r = catch(|| w.start_file_aligned(name.clone(), o.to_zip(), c.align)).map_err(|p| format!("start_file_aligned(align={}, data offset {unaligned_start}, large_file={}) PANICKED: {p}", c.align, c.large))?;
    let fits = record + if c.large { 20 } else { 0 } <= 65535;
    match r {
        Err(e) => {
            if c.align <= 32768 {
                return Err(format!("start_file_aligned(align={}) at data offset {unaligned_start} (large_file={}) failed although the alignment can be honoured: {e}", c.align, c.large));
            }
            if fits && record + 48 <= 65535 {
                return Err(format!("start_file_aligned(align={}) at data offset {unaligned_start} needs a {record}-byte padding record which fits, but was refused: {e}", c.align));
            }
            info.label("refused");
            return Ok(());
        }
        Ok(ret) => {
            if !fits {
                return Err(format!("start_file_aligned(align={}) at data offset {unaligned_start} (large_file={}) returned Ok although the {record}-byte padding record cannot be represented", c.align, c.large));
            }
            if ret != record {
                return Err(format!("start_file_aligned(align={}) at data offset {unaligned_start} returned {ret}, but {record} bytes of padding record are needed/written", c.align));
            }
        }
    }
    let data = c.content.expand();
    w.write_all(&data).map_err(|e| format!("write: {e}"))?;
    w.start_file("after", Opts::plain(Method::Deflated).to_zip()).map_err(|e| format!("start_file after: {e}"))?;
    w.write_all(b"following entry").map_err(|e| format!("write: {e}"))?;
    w.finish().map_err(|e| format!("finish: {e}"))?;
    let p = parse::parse(&sink, parse::Opts { lenient: false, allow_leading_gap: c.base > 0, decode_limit: 64 << 20, allow_trailing: false }).map_err(|e| format!("archive with an aligned entry (align={}, large_file={}, writer started at {:#x}) is not valid: {e}", c.align, c.large, c.base))?;
    let e = &p.entries[1];
    if c.align > 1 && e.data_start % c.align as u64 != 0 {
        return Err(format!("entry started with align={} has its data at offset {} (remainder {})", c.align, e.data_start, e.data_start % c.align as u64));
    }
    if e.data_start != unaligned_start + record {
        return Err(format!("data offset {} != expected {} (+{record} bytes of padding)", e.data_start, unaligned_start + record));
    }
    if e.content.as_deref() != Some(&data[..]) {
        return Err("content of the aligned entry does not round-trip (independent parser)".into());
    }
    let mut rd = sink.clone();
    rd.seek(SeekFrom::Start(0)).map_err(|e| format!("harness: {e}"))?;
    let mut za = zip::ZipArchive::new(rd).map_err(|e| format!("reopen: {e}"))?;
    let mut f = za.by_index(1).map_err(|e| format!("by_index(1): {e}"))?;
    let mut v = Vec::new();
    f.read_to_end(&mut v).map_err(|e| format!("read: {e}"))?;
    if v != data {
        return Err("content of the aligned entry does not round-trip (crate reader)".into());
    }
    if f.data_start() != e.data_start {
        return Err(format!("reader data_start() {} != actual {}", f.data_start(), e.data_start));
    }
    drop(f);
    let mut f2 = za.by_index(2).map_err(|e| format!("following entry: {e}"))?;
    let mut v2 = Vec::new();
    f2.read_to_end(&mut v2).map_err(|e| format!("following entry read: {e}"))?;
    if v2 != b"following entry" {
        return Err("entry following the aligned entry is damaged".into());
    }
    Ok(())
}

#[derive(Clone, Debug, Serialize, Deserialize, Hash)]
pub struct Rec {
    id: u16,
    len: u16,
    fill: u8,
}
#[derive(Clone, Debug, Serialize, Deserialize, Hash)]
pub struct ECase {
    local: Vec<Rec>,
    /// None = shared (same data in both headers); Some = split
    central: Option<Vec<Rec>>,
    /// extra bytes appended after the records (truncated record when non-empty)
    #[serde(with = "crate::util::hexbytes")]
    local_tail: Vec<u8>,
    #[serde(with = "crate::util::hexbytes")]
    central_tail: Vec<u8>,
    large: bool,
    method: Method,
    content: Content,
    name_len: u8,
    /// Some(x): the last extra-data buffer (central part if split, else the shared one) is first delivered
    /// only up to a cut inside a record, end_extra_data() is called (must refuse the truncated record), then
    /// the rest is delivered and the sequence continues as usual
    #[serde(default)]
    retry_cut: Option<u16>,
}

fn rec_bytes(rs: &[Rec], tail: &[u8]) -> Vec<u8> {
    let mut v = Vec::new();
    for r in rs {
        v.extend_from_slice(&r.id.to_le_bytes());
        v.extend_from_slice(&r.len.to_le_bytes());
        v.extend(std::iter::repeat(r.fill).take(r.len as usize));
    }
    v.extend_from_slice(tail);
    v
}

fn valid(buf: &[u8], own: usize) -> bool {
    if buf.len() + own > 65535 {
        return false;
    }
    let mut p = 0;
    while p < buf.len() {
        if buf.len() - p < 4 {
            return false;
        }
        let id = u16::from_le_bytes([buf[p], buf[p + 1]]);
        let len = u16::from_le_bytes([buf[p + 2], buf[p + 3]]) as usize;
        if id == 1 || is_reserved_id(id) || p + 4 + len > buf.len() {
            return false;
        }
        p += 4 + len;
    }
    true
}

fn check_extra(c: &ECase, info: &mut Info) -> Result<(), String> {
    let local = rec_bytes(&c.local, &c.local_tail);
    let central = c.central.as_ref().map(|r| rec_bytes(r, &c.central_tail));
    let own = if c.large { 20 } else { 0 };
    let local_ok = valid(&local, own);
    let central_ok = central.as_ref().map(|b| valid(b, own)).unwrap_or(true);
    // "clearly fits": leave room for the writer's own ZIP64 record in either header
    let clearly = |b: &[u8]| valid(b, 28);
    info.nontrivial = !c.local.is_empty() || c.central.as_ref().map(|x| !x.is_empty()).unwrap_or(false);
    info.label(if c.central.is_some() { "split" } else { "shared" });
    info.label_if(!local_ok || !central_ok, "invalid-extra");
    info.label_if(c.local.iter().chain(c.central.iter().flatten()).any(|r| is_reserved_id(r.id)), "reserved-id");
    info.label_if(local.len() > 60000 || central.as_ref().map(|x| x.len() > 60000).unwrap_or(false), "near-64K");
    let mut sink = Cursor::new(Vec::new());
    let mut w = std::mem::ManuallyDrop::new(ZipWriter::new(&mut sink));
    w.start_file("first", Opts::plain(Method::Deflated).to_zip()).map_err(|e| format!("harness: {e}"))?;
    w.write_all(b"first entry").map_err(|e| format!("harness: {e}"))?;
    let mut o = Opts::plain(c.method);
    o.large = c.large;
    let name = "x".repeat(1 + c.name_len as usize);
    let mut retried = false;
    let res: Result<Result<(), String>, String> = catch(|| {
        let ds0 = w.start_file_with_extra_data(name.clone(), o.to_zip()).map_err(|e| format!("start_file_with_extra_data: {e}"))?;
        // deliver `buf`; with retry_cut: first only a prefix that ends inside a record, a refused
        // end_extra_data(), then the rest
        let mut deliver = |w: &mut ZipWriter<&mut Cursor<Vec<u8>>>, buf: &[u8], last: bool| -> Result<(), String> {
            if let (true, Some(x)) = (last && local_ok && central_ok && buf.len() >= 5, c.retry_cut) {
                let k = 1 + ((x as usize * (buf.len() - 1)) >> 16);
                if k < buf.len() && !valid(&buf[..k], own) {
                    retried = true;
                    w.write_all(&buf[..k]).map_err(|e| format!("writing extra data: {e}"))?;
                    if w.end_extra_data().is_ok() {
                        return Err(format!("end_extra_data accepted extra data that ends inside a record ({k} of {} bytes delivered)", buf.len()));
                    }
                    return w.write_all(&buf[k..]).map_err(|e| format!("writing the rest of the extra data after the refused end_extra_data: {e}"));
                }
            }
            w.write_all(buf).map_err(|e| format!("writing extra data: {e}"))
        };
        deliver(&mut w, &local, central.is_none())?;
        let mut ds = ds0;
        if let Some(cb) = &central {
            ds = w.end_local_start_central_extra_data().map_err(|e| format!("REJECT end_local_start_central_extra_data: {e}"))?;
            deliver(&mut w, cb, true)?;
        }
        let ds2 = w.end_extra_data().map_err(|e| format!("REJECT end_extra_data: {e}"))?;
        if central.is_some() && ds2 != ds {
            return Err(format!("end_extra_data returned data start {ds2}, end_local_start_central_extra_data had returned {ds}"));
        }
        if ds2 != ds0 + local.len() as u64 {
            return Err(format!("returned data start {ds2} != preliminary start {ds0} + {} bytes of local extra data", local.len()));
        }
        Ok(())
    });
    let res = res.map_err(|p| format!("extra-data calls PANICKED: {p}"))?;
    info.label_if(retried, "truncated record refused, then completed and ended again");
    let res = if retried { res.map_err(|e| format!("{e} [the data had first been delivered up to a cut inside a record, end_extra_data() refused it, then the rest was delivered]")) } else { res };
    match res {
        Err(e) if e.contains("REJECT") => {
            if clearly(&local) && central.as_ref().map(|b| clearly(b)).unwrap_or(true) {
                return Err(format!("well-formed extra data with unreserved IDs was refused: {e}"));
            }
            info.label("refused");
            // the caller handles the error and carries on: whatever the writer does then, an archive it
            // reports as finished must be valid and must not carry the refused bytes anywhere
            let carried_on = catch(|| -> Result<Option<()>, String> {
                let _ = w.write_all(b"written after the refusal");
                match w.finish() {
                    Ok(_) => Ok(Some(())),
                    Err(_) => Ok(None),
                }
            })
            .map_err(|p| format!("calls after refused extra data PANICKED: {p}"))??;
            if carried_on.is_some() {
                let bytes = sink.into_inner();
                let p = parse::parse(&bytes[..], parse::Opts::lenient()).map_err(|x| format!("extra data was refused ({e}), the caller carried on, finish() returned Ok, but the archive is not valid: {x}"))?;
                for (k, pe) in p.entries.iter().enumerate() {
                    for (what, field) in [("local", &pe.local_extra), ("central", &pe.central_extra)] {
                        let bad_local = !local_ok && local.len() >= 4 && field.windows(local.len()).any(|w| w == &local[..]);
                        let bad_central = !central_ok && central.as_ref().map(|c| c.len() >= 4 && field.windows(c.len()).any(|w| w == &c[..])).unwrap_or(false);
                        if bad_local || bad_central {
                            return Err(format!("extra data was refused ({e}), the caller carried on, finish() returned Ok and entry {k} carries the refused bytes in its {what} header"));
                        }
                    }
                }
                let mut za = zip::ZipArchive::new(Cursor::new(&bytes[..])).map_err(|x| format!("archive finished after a refusal cannot be reopened: {x}"))?;
                for i in 0..za.len() {
                    let mut v = Vec::new();
                    za.by_index(i).map_err(|x| x.to_string()).and_then(|mut f| f.read_to_end(&mut v).map_err(|x| x.to_string())).map_err(|x| format!("extra data was refused ({e}), the caller carried on, finish() returned Ok, but entry {i} cannot be read back: {x}"))?;
                }
            }
            return Ok(());
        }
        Err(e) => return Err(e),
        Ok(()) => {
            if !local_ok || !central_ok {
                return Err(format!("malformed / reserved / ZIP64-ID / oversize extra data was accepted (local valid={local_ok}, central valid={central_ok})"));
            }
        }
    }
    let data = c.content.expand();
    w.write_all(&data).map_err(|e| format!("write: {e}"))?;
    w.finish().map_err(|e| format!("finish: {e}"))?;
    let bytes = sink.into_inner();
    let p = parse::parse(&bytes[..], parse::Opts::strict()).map_err(|e| format!("archive is not valid: {e}"))?;
    let e = &p.entries[1];
    let mut want_local = Vec::new();
    if c.large {
        want_local.extend_from_slice(&1u16.to_le_bytes());
        want_local.extend_from_slice(&16u16.to_le_bytes());
        want_local.extend_from_slice(&e.usize_.to_le_bytes());
        want_local.extend_from_slice(&e.csize.to_le_bytes());
    }
    want_local.extend_from_slice(&local);
    if e.local_extra != want_local {
        return Err(format!("local header extra field ({} bytes) is not [own ZIP64 record +] the supplied local extra data ({} bytes) verbatim", e.local_extra.len(), want_local.len()));
    }
    let want_central = central.clone().unwrap_or_else(|| local.clone());
    if e.central_extra != want_central {
        return Err(format!("central header extra field ({} bytes) is not the supplied {} extra data ({} bytes) verbatim", e.central_extra.len(), if central.is_some() { "central" } else { "shared" }, want_central.len()));
    }
    if e.content.as_deref() != Some(&data[..]) {
        return Err("content does not round-trip".into());
    }
    let mut za = zip::ZipArchive::new(Cursor::new(&bytes[..])).map_err(|e| format!("reopen: {e}"))?;
    let f = za.by_index(1).map_err(|e| format!("by_index: {e}"))?;
    if f.extra_data() != &want_central[..] {
        return Err("reader's extra_data() is not the central extra data".into());
    }
    Ok(())
}

pub fn run(ctx: &mut Ctx) {
    ctx.rule("aligned: alignment values (quick: 0,1,2,3,4,8,...,32768, 65521, 65535 and random; thorough: ALL 0..=65535) x preceding offsets (preceding entry size, name length; targeted residues so that the padding record lands at 0, 1, ... and next to the 16-bit limit) x large_file x method x position of the sink when the writer starts (0, around 2^32, up to 2^40; sparse sink): on Ok the data offset (independent parser and reader) is a multiple of the alignment, the returned value equals the padding record size, content round-trips, the next entry is intact; alignments <= 32768 must succeed; unrepresentable padding must be refused, never panic. extra: record lists with IDs over reserved (0..31, APPNOTE-registered) and unreserved ranges, sizes 0..65535, truncated tails, shared / split local+central: valid data stored verbatim (local after the writer's own ZIP64 record; central returned by extra_data()), invalid data refused - and when the caller carries on after the refusal and finish() reports success, the archive is valid and does not carry the refused bytes. Non-trivial = padding needed or >=1 record.");
    let fixed: Vec<u16> = vec![0, 1, 2, 3, 4, 5, 7, 8, 16, 32, 64, 128, 256, 512, 1024, 2048, 4096, 8192, 16384, 32768, 32769, 65521, 65534, 65535];
    let residues: [Option<u16>; 10] = [None, Some(0), Some(1), Some(2), Some(4), Some(5), Some(24), Some(25), Some(3), Some(44)];
    if ctx.tier == crate::engine::Tier::Thorough {
        ctx.enumerate::<ACase>(
            "aligned_all",
            65536 * 8,
            &|k| {
                let align = (k / 8) as u16;
                let j = k % 8;
                ACase { align, pre_len: [0u32, 1, 4093, 70001][(j % 4) as usize], name_len: (k % 97) as u16, target_residue: None, large: j >= 4, method: Method::Stored, content: Content::Bytes(b"aligned payload".to_vec()), base: if k % 3 == 0 { 0 } else if k % 3 == 1 { (1u64 << 32) + 12345 } else { (5u64 << 32) - 7 } }
            },
            &|c: &ACase, info: &mut Info| Verdict::from_result(check_aligned(c, info)),
        );
    }
    let total = (fixed.len() * residues.len() * 2 * 4) as u64;
    ctx.enumerate::<ACase>(
        "aligned_grid",
        total,
        &|k| {
            let k = k as usize;
            ACase { align: fixed[k % fixed.len()], pre_len: (k as u32 * 37) % 5000, name_len: (k % 50) as u16, target_residue: residues[(k / fixed.len()) % residues.len()], large: (k / (fixed.len() * residues.len())) % 2 == 1, method: Method::Stored, content: Content::Bytes(b"aligned payload".to_vec()), base: [0u64, 0xFFFF_FFFF - 40, (1 << 32) + 1, (7 << 32) + 0x1234_5677][k / (fixed.len() * residues.len() * 2)] }
        },
        &|c: &ACase, info: &mut Info| Verdict::from_result(check_aligned(c, info)),
    );
    let n = ctx.q(200000, 2000000);
    ctx.explore::<ACase>(
        "aligned_random",
        n,
        &|| {
            (
                prop_oneof![3 => any::<u16>(), 3 => (0u32..16).prop_map(|s| 1u16 << s), 1 => 32768u16..=65535, 2 => 1u16..300],
                prop_oneof![Just(0u32), 0u32..70000],
                any::<u16>(),
                prop_oneof![2 => Just(None), 1 => (0u16..64).prop_map(Some), 1 => any::<u16>().prop_map(Some)],
                any::<bool>(),
                prop_oneof![Just(Method::Stored), Just(Method::Deflated), Just(Method::Zstd)],
                crate::refzip::content::content(5000),
                prop_oneof![3 => Just(0u64), 1 => (0xFFFF_0000u64..0x1_0001_0000), 1 => (1u64 << 32..1u64 << 40)],
            )
                .prop_map(|(align, pre_len, name_len, target_residue, large, method, content, base)| ACase { align, pre_len, name_len, target_residue, large, method, content, base })
                .boxed()
        },
        &|c: &ACase, info: &mut Info| Verdict::from_result(check_aligned(c, info)),
    );
    let ne = ctx.q(150000, 1500000);
    ctx.explore::<ECase>(
        "extra",
        ne,
        &|| {
            let id = prop_oneof![4 => any::<u16>(), 1 => 0u16..40, 1 => proptest::sample::select(gen::REGISTERED_IDS.to_vec()), 12 => Just(0xbeefu16), 4 => 0x8000u16..0x9000, 1 => Just(1u16)];
            let rec = (id, prop_oneof![6 => 0u16..40, 1 => Just(0u16), 1 => 30000u16..=65531, 1 => Just(65531u16), 1 => Just(65511u16)], any::<u8>()).prop_map(|(id, len, fill)| Rec { id, len, fill });
            let recs = || proptest::collection::vec(rec.clone(), 0..4);
            let tail = || prop_oneof![16 => Just(vec![]), 1 => proptest::collection::vec(any::<u8>(), 1..4), 1 => Just(vec![0xef, 0xbe, 0x10, 0x00, 1, 2, 3])];
            (recs(), prop_oneof![1 => Just(None), 1 => recs().prop_map(Some)], tail(), tail(), any::<bool>(), prop_oneof![Just(Method::Stored), Just(Method::Deflated), Just(Method::Bzip2)], crate::refzip::content::content(3000), any::<u8>(), prop_oneof![2 => Just(None), 1 => any::<u16>().prop_map(Some)])
                .prop_map(|(local, central, local_tail, central_tail, large, method, content, name_len, retry_cut)| ECase { local, central_tail: if central.is_some() { central_tail } else { vec![] }, central, local_tail, large, method, content, name_len, retry_cut })
                .boxed()
        },
        &|c: &ECase, info: &mut Info| Verdict::from_result(check_extra(c, info)),
    );
}
