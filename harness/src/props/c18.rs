//! C18 — DOS timestamps: exhaustive over all 2^32 words, constructor domains, calendar.
use crate::engine::{Ctx, Info, Verdict};
use proptest::prelude::*;
use serde::{Deserialize, Serialize};
use serde_json::json;
use std::sync::atomic::{AtomicU64, Ordering};
use std::time::Instant;
use zip::DateTime;

fn check_words(d: u16, t: u16) -> Result<(), String> {
    let dt = DateTime::from_msdos(d, t);
    let (y, mo, da) = (1980 + (d >> 9), ((d >> 5) & 15) as u8, (d & 31) as u8);
    let (h, mi, s) = ((t >> 11) as u8, ((t >> 5) & 63) as u8, ((t & 31) * 2) as u8);
    if dt.datepart() != d || dt.timepart() != t {
        return Err(format!(
            "from_msdos({d:#06x},{t:#06x}) repacks to ({:#06x},{:#06x})",
            dt.datepart(),
            dt.timepart()
        ));
    }
    if (dt.year(), dt.month(), dt.day(), dt.hour(), dt.minute(), dt.second()) != (y, mo, da, h, mi, s) {
        return Err(format!(
            "from_msdos({d:#06x},{t:#06x}) fields {:?} != model {:?}",
            (dt.year(), dt.month(), dt.day(), dt.hour(), dt.minute(), dt.second()),
            (y, mo, da, h, mi, s)
        ));
    }
    Ok(())
}

fn check_ctor(y: u16, mo: u8, d: u8, h: u8, mi: u8, s: u8) -> Result<(), String> {
    let expect = (1980..=2107).contains(&y) && (1..=12).contains(&mo) && (1..=31).contains(&d) && h <= 23 && mi <= 59 && s <= 60;
    match DateTime::from_date_and_time(y, mo, d, h, mi, s) {
        Ok(dt) => {
            if !expect {
                return Err(format!("from_date_and_time({y},{mo},{d},{h},{mi},{s}) accepted an out-of-range value"));
            }
            if (dt.year(), dt.month(), dt.day(), dt.hour(), dt.minute(), dt.second()) != (y, mo, d, h, mi, s) {
                return Err(format!("accessors differ from arguments for ({y},{mo},{d},{h},{mi},{s})"));
            }
            let dp = (d as u16) | ((mo as u16) << 5) | ((y - 1980) << 9);
            let tp = ((s as u16) >> 1) | ((mi as u16) << 5) | ((h as u16) << 11);
            if dt.datepart() != dp || dt.timepart() != tp {
                return Err(format!("packing of ({y},{mo},{d},{h},{mi},{s}) = ({:#06x},{:#06x}) != model ({dp:#06x},{tp:#06x})", dt.datepart(), dt.timepart()));
            }
            // unpack(pack(x)) == x up to the 2-second resolution
            let back = DateTime::from_msdos(dt.datepart(), dt.timepart());
            if (back.year(), back.month(), back.day(), back.hour(), back.minute(), back.second()) != (y, mo, d, h, mi, s & !1) {
                return Err(format!("({y},{mo},{d},{h},{mi},{s}) does not survive pack/unpack"));
            }
            Ok(())
        }
        Err(()) => {
            if expect {
                Err(format!("from_date_and_time({y},{mo},{d},{h},{mi},{s}) rejected an in-range value"))
            } else {
                Ok(())
            }
        }
    }
}

fn is_leap(y: i32) -> bool {
    (y % 4 == 0 && y % 100 != 0) || y % 400 == 0
}
fn days_in(y: i32, m: u8) -> u8 {
    match m {
        1 | 3 | 5 | 7 | 8 | 10 | 12 => 31,
        4 | 6 | 9 | 11 => 30,
        2 => {
            if is_leap(y) {
                29
            } else {
                28
            }
        }
        _ => 0,
    }
}

/// Calendar conversions for a DateTime built from raw words (any bit pattern).
fn check_calendar_words(d: u16, t: u16) -> Result<(), String> {
    use std::convert::TryFrom;
    let dt = DateTime::from_msdos(d, t);
    let (y, mo, da) = (1980 + (d >> 9) as i32, ((d >> 5) & 15) as u8, (d & 31) as u8);
    let (h, mi, s) = ((t >> 11) as u8, ((t >> 5) & 63) as u8, ((t & 31) * 2) as u8);
    let valid_date = (1..=12).contains(&mo) && da >= 1 && da <= days_in(y, mo);
    let valid_time = h <= 23 && mi <= 59 && s <= 59;
    let r = crate::util::catch(|| dt.to_time()).map_err(|p| format!("to_time() panicked for ({d:#06x},{t:#06x}): {p}"))?;
    match r {
        Ok(odt) => {
            if !(valid_date && valid_time) {
                return Err(format!("to_time() returned Ok for impossible ({y}-{mo}-{da} {h}:{mi}:{s})"));
            }
            if (odt.year(), odt.month() as u8, odt.day(), odt.hour(), odt.minute(), odt.second()) != (y, mo, da, h, mi, s)
                || odt.offset() != time::UtcOffset::UTC
                || odt.nanosecond() != 0
            {
                return Err(format!("to_time() of ({y}-{mo}-{da} {h}:{mi}:{s}) gave {odt}"));
            }
            let back = crate::util::catch(|| DateTime::try_from(odt)).map_err(|p| format!("try_from panicked: {p}"))?;
            match back {
                Ok(b) => {
                    if b.datepart() != d || b.timepart() != t {
                        return Err(format!("try_from(to_time(x)) != x for ({d:#06x},{t:#06x})"));
                    }
                }
                Err(_) => return Err(format!("try_from(to_time(x)) failed for valid ({d:#06x},{t:#06x})")),
            }
            Ok(())
        }
        Err(_) => {
            if valid_date && valid_time {
                Err(format!("to_time() failed for valid {y}-{mo}-{da} {h}:{mi}:{s}"))
            } else {
                Ok(())
            }
        }
    }
}

/// try_from(OffsetDateTime) over real calendar dates (1979..=2108).
fn check_calendar_date(y: i32, mo: u8, da: u8, h: u8, mi: u8, s: u8) -> Result<(), String> {
    use std::convert::TryFrom;
    let month = time::Month::try_from(mo).map_err(|e| format!("harness: {e}"))?;
    let date = time::Date::from_calendar_date(y, month, da).map_err(|e| format!("harness: {e}"))?;
    let tm = time::Time::from_hms(h, mi, s).map_err(|e| format!("harness: {e}"))?;
    let odt = time::PrimitiveDateTime::new(date, tm).assume_utc();
    let in_range = (1980..=2107).contains(&y);
    // the same instant with a sub-second part: accepted exactly when the plain second is, same fields
    for nanos in [1u32, 500_000_000, 999_999_999] {
        let tn = time::Time::from_hms_nano(h, mi, s, nanos).map_err(|e| format!("harness: {e}"))?;
        let on = time::PrimitiveDateTime::new(date, tn).assume_utc();
        match crate::util::catch(|| DateTime::try_from(on)).map_err(|p| format!("try_from({on}) panicked: {p}"))? {
            Ok(dt) => {
                if !in_range {
                    return Err(format!("try_from({on}) accepted a year outside 1980..=2107"));
                }
                if (dt.year() as i32, dt.month(), dt.day(), dt.hour(), dt.minute(), dt.second()) != (y, mo, da, h, mi, s) {
                    return Err(format!("try_from({on}) fields differ"));
                }
            }
            Err(_) if in_range => return Err(format!("try_from({on}) rejected a time inside {y} (sub-second part {nanos} ns)")),
            Err(_) => {}
        }
    }
    let r = crate::util::catch(|| DateTime::try_from(odt)).map_err(|p| format!("try_from({odt}) panicked: {p}"))?;
    match r {
        Ok(dt) => {
            if !in_range {
                return Err(format!("try_from({odt}) accepted a year outside 1980..=2107"));
            }
            if (dt.year() as i32, dt.month(), dt.day(), dt.hour(), dt.minute(), dt.second()) != (y, mo, da, h, mi, s) {
                return Err(format!("try_from({odt}) fields differ"));
            }
            let back = crate::util::catch(|| dt.to_time()).map_err(|p| format!("to_time panicked: {p}"))?;
            match back {
                Ok(o2) if o2 == odt => Ok(()),
                Ok(o2) => Err(format!("to_time(try_from({odt})) = {o2}")),
                Err(e) => Err(format!("to_time(try_from({odt})) failed: {e}")),
            }
        }
        Err(_) => {
            if in_range {
                Err(format!("try_from({odt}) rejected an in-range date"))
            } else {
                Ok(())
            }
        }
    }
}

/// try_from(OffsetDateTime) for values that carry a non-UTC offset. Which clock the fields are taken
/// from (the value's own wall clock, as the code does, or UTC) is not stated anywhere, so both are
/// accepted; what is demanded is: no panic, an accepted value is a valid in-range DateTime equal to one
/// of the two readings and survives packing / an archive round trip, and a rejection is only allowed when
/// one of the two readings is out of range.
#[derive(Clone, Debug, Serialize, Deserialize, Hash)]
pub struct OffCase {
    y: i32,
    mo: u8,
    d: u8,
    h: u8,
    mi: u8,
    s: u8,
    off_h: i8,
    off_m: i8,
    off_s: i8,
}

fn check_offset_case(c: &OffCase) -> Result<(), String> {
    use std::convert::TryFrom;
    let month = time::Month::try_from(c.mo).map_err(|e| format!("harness: {e}"))?;
    let d = c.d.min(days_in(c.y, c.mo));
    let date = time::Date::from_calendar_date(c.y, month, d).map_err(|e| format!("harness: {e}"))?;
    let tm = time::Time::from_hms(c.h, c.mi, c.s).map_err(|e| format!("harness: {e}"))?;
    // sign of minutes/seconds must follow the hours' sign
    let sg = if c.off_h < 0 || (c.off_h == 0 && c.off_m < 0) { -1 } else { 1 };
    let off = time::UtcOffset::from_hms(c.off_h, sg * c.off_m.abs(), sg * c.off_s.abs()).map_err(|e| format!("harness: {e}"))?;
    let odt = time::PrimitiveDateTime::new(date, tm).assume_offset(off);
    // at the very ends of the `time` crate's range the UTC reading may not be representable at all
    // (then it is certainly not a DOS year)
    let wall = (odt.year(), u8::from(odt.month()), odt.day(), odt.hour(), odt.minute(), odt.second());
    let univ = match odt.checked_to_offset(time::UtcOffset::UTC) {
        Some(utc) => (utc.year(), u8::from(utc.month()), utc.day(), utc.hour(), utc.minute(), utc.second()),
        None => (i32::MAX, 0, 0, 0, 0, 0),
    };
    let ok_y = |y: i32| (1980..=2107).contains(&y);
    let r = crate::util::catch(|| DateTime::try_from(odt)).map_err(|p| format!("try_from({odt}) panicked: {p}"))?;
    match r {
        Err(_) => {
            if ok_y(wall.0) && ok_y(univ.0) {
                return Err(format!("try_from({odt}) rejected a value whose year is in 1980..=2107 on its own clock and in UTC"));
            }
            Ok(())
        }
        Ok(dt) => {
            let got = (dt.year() as i32, dt.month(), dt.day(), dt.hour(), dt.minute(), dt.second());
            if got != wall && got != univ {
                return Err(format!("try_from({odt}) = {got:?}, neither the value's own clock {wall:?} nor UTC {univ:?}"));
            }
            if !ok_y(got.0) || DateTime::from_date_and_time(dt.year(), dt.month(), dt.day(), dt.hour(), dt.minute(), dt.second()).is_err() {
                return Err(format!("try_from({odt}) accepted {got:?}, which is outside the documented DateTime ranges"));
            }
            let (dp, tp) = crate::util::catch(|| (dt.datepart(), dt.timepart())).map_err(|p| format!("packing try_from({odt}) panicked: {p}"))?;
            let back = DateTime::from_msdos(dp, tp);
            if (back.year(), back.month(), back.day(), back.hour(), back.minute(), back.second()) != (dt.year(), dt.month(), dt.day(), dt.hour(), dt.minute(), dt.second() & !1) {
                return Err(format!("try_from({odt}) = {got:?} does not survive packing into DOS words ({dp:#06x},{tp:#06x})"));
            }
            // and an archive round trip
            let bytes = crate::util::catch(|| -> Result<Vec<u8>, String> {
                let mut c = std::io::Cursor::new(Vec::new());
                let mut w = zip::ZipWriter::new(&mut c);
                w.start_file("t", zip::write::FileOptions::default().compression_method(zip::CompressionMethod::Stored).last_modified_time(dt)).map_err(|e| e.to_string())?;
                w.finish().map_err(|e| e.to_string())?;
                drop(w);
                Ok(c.into_inner())
            })
            .map_err(|p| format!("writing an entry stamped try_from({odt}) panicked: {p}"))??;
            let mut za = zip::ZipArchive::new(std::io::Cursor::new(bytes)).map_err(|e| e.to_string())?;
            let lm = za.by_index(0).map_err(|e| e.to_string())?.last_modified();
            if (lm.datepart(), lm.timepart()) != (dp, tp) {
                return Err(format!("entry stamped try_from({odt}) reads back as ({:#06x},{:#06x}), written ({dp:#06x},{tp:#06x})", lm.datepart(), lm.timepart()));
            }
            Ok(())
        }
    }
}

#[derive(Clone, Debug, Serialize, Deserialize, Hash)]
pub struct ArcChunk {
    first: u64,
    count: u64,
}

fn check_archive_words(c: &ArcChunk, word: &dyn Fn(u64) -> (u16, u16)) -> Result<(), String> {
    use crate::refzip::{build, parse, ArchiveSpec, Content, EntrySpec};
    use std::io::Cursor;
    let mut entries = Vec::with_capacity(c.count as usize);
    for k in c.first..c.first + c.count {
        let (d, t) = word(k);
        let mut e = EntrySpec::simple(format!("e{k}").as_bytes(), 0, Content::Bytes(vec![]));
        e.dos_date = d;
        e.dos_time = t;
        // every third entry also carries well-formed timestamp records of other conventions (Info-ZIP
        // extended timestamp, NTFS, old Unix) that state a DIFFERENT time, and varying producer systems:
        // the DOS words are what the property pins down
        if k % 3 == 1 {
            for (i, r) in crate::genf::well_known_extras(&e.name.clone(), b"", 4 | 16 | 32).into_iter().enumerate() {
                if (i as u64 + k) % 2 == 0 {
                    e.central_extra_before.push(r.clone());
                } else {
                    e.central_extra_after.push(r.clone());
                }
                e.local_extra.push(r);
            }
            e.made_by = ([3u16, 0, 10, 19][(k / 3 % 4) as usize] << 8) | 20;
        }
        entries.push(e);
    }
    let spec = ArchiveSpec::plain(entries);
    let b = build::build(&spec).map_err(|e| format!("harness: {e}"))?;
    let mut za = zip::ZipArchive::new(Cursor::new(&b.bytes[..])).map_err(|e| format!("cannot open archive of timestamps: {e}"))?;
    if za.len() as u64 != c.count {
        return Err("entry count".into());
    }
    for j in 0..c.count as usize {
        let (d, t) = word(c.first + j as u64);
        let f = za.by_index_raw(j).map_err(|e| format!("by_index_raw: {e}"))?;
        let lm = f.last_modified();
        if (lm.datepart(), lm.timepart()) != (d, t) {
            return Err(format!("archive entry with DOS words ({d:#06x},{t:#06x}) is reported as ({:#06x},{:#06x}) by the seekable reader", lm.datepart(), lm.timepart()));
        }
    }
    // streaming reader sees the local header words
    let mut cur = Cursor::new(&b.bytes[..]);
    let mut j = 0u64;
    loop {
        match zip::read::read_zipfile_from_stream(&mut cur) {
            Ok(Some(f)) => {
                let (d, t) = word(c.first + j);
                let lm = f.last_modified();
                if (lm.datepart(), lm.timepart()) != (d, t) {
                    return Err(format!("archive entry with DOS words ({d:#06x},{t:#06x}) is reported as ({:#06x},{:#06x}) by the streaming reader", lm.datepart(), lm.timepart()));
                }
                j += 1;
            }
            Ok(None) => break,
            Err(e) => return Err(format!("streaming reader failed on entry {j}: {e}")),
        }
    }
    if j != c.count {
        return Err(format!("streaming reader saw {j} of {} entries", c.count));
    }
    // re-written unchanged: raw copy of every 16th entry and a fresh entry with the read timestamp
    let mut sink = Cursor::new(Vec::new());
    {
        let mut w = std::mem::ManuallyDrop::new(zip::ZipWriter::new(&mut sink));
        let mut expect = Vec::new();
        for j in (0..c.count as usize).step_by(16) {
            let f = za.by_index_raw(j).map_err(|e| format!("by_index_raw: {e}"))?;
            let lm = f.last_modified();
            w.raw_copy_file(f).map_err(|e| format!("raw_copy_file: {e}"))?;
            expect.push(word(c.first + j as u64));
            w.start_file(format!("n{j}"), zip::write::FileOptions::default().compression_method(zip::CompressionMethod::Stored).last_modified_time(lm)).map_err(|e| format!("start_file: {e}"))?;
            expect.push(word(c.first + j as u64));
        }
        w.finish().map_err(|e| format!("finish: {e}"))?;
        let out = sink.into_inner();
        let p = parse::parse(&out[..], parse::Opts::strict()).map_err(|e| format!("rewritten archive does not parse: {e}"))?;
        for (k, (pe, (d, t))) in p.entries.iter().zip(expect.iter()).enumerate() {
            if (pe.date, pe.time) != (*d, *t) {
                return Err(format!("timestamp words ({d:#06x},{t:#06x}) read from an archive were re-written as ({:#06x},{:#06x}) (rewritten entry {k})", pe.date, pe.time));
            }
        }
    }
    Ok(())
}

#[derive(Clone, Debug, Serialize, Deserialize, Hash)]
pub struct Ctor {
    y: u16,
    mo: u8,
    d: u8,
    h: u8,
    mi: u8,
    s: u8,
}

const BY: &[u16] = &[0, 1979, 1980, 1981, 2000, 2106, 2107, 2108, 65535];
const BMO: &[u8] = &[0, 1, 2, 11, 12, 13, 255];
const BD: &[u8] = &[0, 1, 28, 29, 30, 31, 32, 255];
const BH: &[u8] = &[0, 1, 22, 23, 24, 255];
const BMI: &[u8] = &[0, 1, 58, 59, 60, 255];
const BS: &[u8] = &[0, 1, 58, 59, 60, 61, 255];

fn par_range(threads: usize, total: u64, f: &(dyn Fn(u64) -> Result<(), String> + Sync)) -> Option<(u64, String)> {
    let best = AtomicU64::new(u64::MAX);
    let msgs = std::sync::Mutex::new(Vec::<(u64, String)>::new());
    let next = AtomicU64::new(0);
    let chunk = (total / (threads as u64 * 32)).max(1);
    std::thread::scope(|sc| {
        for _ in 0..threads {
            sc.spawn(|| loop {
                let base = next.fetch_add(chunk, Ordering::Relaxed);
                if base >= total || base > best.load(Ordering::Relaxed) {
                    break;
                }
                for i in base..(base + chunk).min(total) {
                    if let Err(m) = f(i) {
                        best.fetch_min(i, Ordering::Relaxed);
                        msgs.lock().unwrap().push((i, m));
                        break;
                    }
                }
            });
        }
    });
    let mut v = msgs.into_inner().unwrap();
    v.sort_by_key(|x| x.0);
    v.into_iter().next()
}

pub fn run(ctx: &mut Ctx) {
    ctx.rule("dos_all: every (date,time) word pair in 2^16 x 2^16, all distinct by construction, all non-trivial; ctor_*: one constructor argument over its whole domain x boundary values of the others; ctor_random: proptest tuples, non-trivial = accepted value; cal_*: every calendar date 1979-01-01..2108-12-31 x boundary times, and all date words x boundary time words / all time words x boundary date words through to_time(); cal_offsets: OffsetDateTime values with non-UTC offsets concentrated at the ends of the year range (no panic; accepted => valid in-range DateTime equal to the wall-clock or the UTC reading, survives packing and an archive round trip; rejected => one of the two readings is out of range)");
    ctx.assume("the `time` crate's calendar is trusted for constructing OffsetDateTime inputs; validity of dates is decided by an independent leap-year rule");
    ctx.assume("second==60 is accepted by the checked constructor (documented 0..=60); to_time() may reject it (leap seconds are not representable in `time`)");

    // ---- replay paths for bulk drivers
    if let Some(c) = ctx.replay_case("dos_all") {
        let r = check_words(c["date"].as_u64().unwrap_or(0) as u16, c["time"].as_u64().unwrap_or(0) as u16)
            .and_then(|_| check_calendar_words(c["date"].as_u64().unwrap_or(0) as u16, c["time"].as_u64().unwrap_or(0) as u16));
        ctx.replay_verdict = Some(Verdict::from_result(r));
    }
    if let Some(c) = ctx.replay_case("ctor_sweep") {
        let g = |k: &str| c[k].as_u64().unwrap_or(0);
        let r = check_ctor(g("y") as u16, g("mo") as u8, g("d") as u8, g("h") as u8, g("mi") as u8, g("s") as u8);
        ctx.replay_verdict = Some(Verdict::from_result(r));
    }
    if let Some(c) = ctx.replay_case("cal_dates") {
        let g = |k: &str| c[k].as_u64().unwrap_or(0);
        let r = check_calendar_date(g("y") as i32, g("mo") as u8, g("d") as u8, g("h") as u8, g("mi") as u8, g("s") as u8);
        ctx.replay_verdict = Some(Verdict::from_result(r));
    }

    if ctx.is_run() {
        // (a) all 2^32 words
        let t0 = Instant::now();
        let total = 1u64 << 32;
        let fail = par_range(ctx.threads, total, &|i| check_words((i >> 16) as u16, i as u16));
        ctx.count_bulk(
            "dos_all",
            total,
            total,
            vec![json!({"date": 0x4D71, "time": 0x54CF}), json!({"date": 0xFFFF, "time": 0xFFFF}), json!({"date": 0, "time": 0})],
            t0.elapsed().as_secs_f64(),
        );
        if let Some((i, m)) = fail {
            ctx.violation("dos_all", json!({"date": (i >> 16) as u16, "time": i as u16}), m);
        }

        // (a2) calendar through raw words: all date words x boundary times, all time words x boundary dates
        let t0 = Instant::now();
        let btimes: [u16; 8] = [0, 0xFFFF, (23 << 11) | (59 << 5) | 29, (23 << 11) | (59 << 5) | 30, (24 << 11), (60 << 5), 31, (12 << 11) | (30 << 5) | 15];
        let bdates: [u16; 8] = [0, 0xFFFF, 0x0021, (127 << 9) | (12 << 5) | 31, (20 << 9) | (2 << 5) | 29, (21 << 9) | (2 << 5) | 29, (120 << 9) | (2 << 5) | 29, (40 << 9) | (6 << 5) | 15];
        let n1 = 65536u64 * 8;
        let fail = par_range(ctx.threads, n1 * 2, &|i| {
            if i < n1 {
                check_calendar_words((i / 8) as u16, btimes[(i % 8) as usize])
            } else {
                let j = i - n1;
                check_calendar_words(bdates[(j % 8) as usize], (j / 8) as u16)
            }
        });
        ctx.count_bulk("cal_words", n1 * 2, n1 * 2 - 64, vec![json!({"date": 0x5021, "time": btimes[2]})], t0.elapsed().as_secs_f64());
        if let Some((i, m)) = fail {
            let (d, t) = if i < n1 { ((i / 8) as u16, btimes[(i % 8) as usize]) } else { (bdates[((i - n1) % 8) as usize], ((i - n1) / 8) as u16) };
            ctx.violation("dos_all", json!({"date": d, "time": t}), m);
        }

        // (b) constructor sweeps: each field over its full domain x boundary values of the others
        let t0 = Instant::now();
        let mut evals = 0u64;
        let mut first_fail: Option<(Ctor, String)> = None;
        let sizes = [65536u64, 256, 256, 256, 256, 256];
        for field in 0..6 {
            let sets: [Vec<u64>; 6] = [
                BY.iter().map(|&x| x as u64).collect(),
                BMO.iter().map(|&x| x as u64).collect(),
                BD.iter().map(|&x| x as u64).collect(),
                BH.iter().map(|&x| x as u64).collect(),
                BMI.iter().map(|&x| x as u64).collect(),
                BS.iter().map(|&x| x as u64).collect(),
            ];
            let mut radices: Vec<u64> = Vec::new();
            for (k, set) in sets.iter().enumerate() {
                radices.push(if k == field { sizes[k] } else { set.len() as u64 });
            }
            let total: u64 = radices.iter().product();
            let decode = |mut i: u64| -> Ctor {
                let mut v = [0u64; 6];
                for k in 0..6 {
                    let r = i % radices[k];
                    i /= radices[k];
                    v[k] = if k == field { r } else { sets[k][r as usize] };
                }
                Ctor { y: v[0] as u16, mo: v[1] as u8, d: v[2] as u8, h: v[3] as u8, mi: v[4] as u8, s: v[5] as u8 }
            };
            let fail = par_range(ctx.threads, total, &|i| {
                let c = decode(i);
                check_ctor(c.y, c.mo, c.d, c.h, c.mi, c.s)
            });
            evals += total;
            if let (Some((i, m)), None) = (fail, &first_fail) {
                first_fail = Some((decode(i), m));
            }
        }
        ctx.count_bulk("ctor_sweep", evals, evals, vec![json!({"y":2107,"mo":12,"d":31,"h":23,"mi":59,"s":60}), json!({"y":1979,"mo":1,"d":1,"h":0,"mi":0,"s":0})], t0.elapsed().as_secs_f64());
        if let Some((c, m)) = first_fail {
            ctx.violation("ctor_sweep", serde_json::to_value(&c).unwrap(), m);
        }

        // (d) every calendar date 1979..=2108 x boundary times
        let t0 = Instant::now();
        let mut dates = Vec::new();
        for y in 1979..=2108 {
            for mo in 1..=12u8 {
                for d in 1..=days_in(y, mo) {
                    dates.push((y, mo, d));
                }
            }
        }
        let times: [(u8, u8, u8); 6] = [(0, 0, 0), (23, 59, 59), (23, 59, 58), (12, 30, 31), (0, 0, 1), (1, 1, 1)];
        let total = dates.len() as u64 * times.len() as u64;
        let fail = par_range(ctx.threads, total, &|i| {
            let (y, mo, d) = dates[(i / 6) as usize];
            let (h, mi, s) = times[(i % 6) as usize];
            check_calendar_date(y, mo, d, h, mi, s)
        });
        ctx.count_bulk("cal_dates", total, total, vec![json!({"y":2000,"mo":2,"d":29,"h":23,"mi":59,"s":59})], t0.elapsed().as_secs_f64());
        if let Some((i, m)) = fail {
            let (y, mo, d) = dates[(i / 6) as usize];
            let (h, mi, s) = times[(i % 6) as usize];
            ctx.violation("cal_dates", json!({"y":y,"mo":mo,"d":d,"h":h,"mi":mi,"s":s}), m);
        }
        ctx.exhaustive_all = true;
    }

    // (e) timestamps read from archives and re-written: every date word x boundary time words and
    // every time word x boundary date words, through the seekable reader, the streaming reader and
    // a raw copy into a new archive (independent builder in, independent strict parser out)
    {
        let btimes: [u16; 4] = [0, 0xFFFF, (23 << 11) | (59 << 5) | 29, 0x54CF];
        let bdates: [u16; 4] = [0, 0xFFFF, 0x0021, 0x4D71];
        const CH: u64 = 4096;
        let chunks = 2 * 65536 * 4 / CH;
        ctx.enumerate::<ArcChunk>(
            "archive_words",
            chunks,
            &|i| ArcChunk { first: i * CH, count: CH },
            &|c: &ArcChunk, info: &mut Info| {
                info.nontrivial = true;
                let word = |k: u64| -> (u16, u16) {
                    if k < 65536 * 4 {
                        ((k / 4) as u16, btimes[(k % 4) as usize])
                    } else {
                        let j = k - 65536 * 4;
                        (bdates[(j % 4) as usize], (j / 4) as u16)
                    }
                };
                Verdict::from_result(check_archive_words(c, &word))
            },
        );
    }

    // (f) calendar values with a non-UTC offset, concentrated at the ends of the year range
    let n = ctx.q(200_000, 3_000_000);
    ctx.explore::<OffCase>(
        "cal_offsets",
        n,
        &|| {
            let y = prop_oneof![2 => Just(1979i32), 3 => Just(1980), 3 => Just(2107), 2 => Just(2108), 2 => 1970i32..=2120, 1 => Just(2), 1 => Just(9998), 1 => Just(1), 1 => Just(9999), 1 => Just(-9999), 1 => Just(0)];
            let md = prop_oneof![3 => Just((1u8, 1u8)), 3 => Just((12u8, 31u8)), 1 => Just((2u8, 29u8)), 2 => (1u8..=12, 1u8..=31)];
            let hms = prop_oneof![2 => Just((0u8, 0u8, 0u8)), 2 => Just((23u8, 59u8, 59u8)), 1 => (0u8..=1, 0u8..=59, 0u8..=59), 1 => (22u8..=23, 0u8..=59, 0u8..=59), 2 => (0u8..=23, 0u8..=59, 0u8..=59)];
            let off = prop_oneof![1 => Just((0i8, 0i8, 0i8)), 3 => (-23i8..=23, 0i8..=59, Just(0i8)), 1 => (-23i8..=23, 0i8..=59, 0i8..=59), 2 => prop_oneof![Just((1i8, 0i8, 0i8)), Just((-1, 0, 0)), Just((0, 1, 0)), Just((0, -1, 0)), Just((14, 0, 0)), Just((-12, 0, 0)), Just((5, 30, 0)), Just((23, 59, 59)), Just((-23, 59, 59))]];
            (y, md, hms, off).prop_map(|(y, (mo, d), (h, mi, s), (off_h, off_m, off_s))| OffCase { y, mo, d, h, mi, s, off_h, off_m, off_s }).boxed()
        },
        &|c: &OffCase, info: &mut Info| {
            info.nontrivial = (c.off_h, c.off_m, c.off_s) != (0, 0, 0);
            info.label_if((c.off_h, c.off_m, c.off_s) != (0, 0, 0), "non-utc-offset");
            info.label_if(matches!(c.y, 1979 | 1980 | 2107 | 2108), "year-range-end");
            Verdict::from_result(check_offset_case(c))
        },
    );

    // (c) random joint constructor values
    let n = ctx.q(1_000_000, 20_000_000);
    ctx.explore::<Ctor>(
        "ctor_random",
        n,
        &|| {
            let by = prop_oneof![3 => 1980u16..=2107, 1 => any::<u16>(), 1 => proptest::sample::select(BY)];
            let small = |lo: u8, hi: u8, b: &'static [u8]| prop_oneof![3 => lo..=hi, 1 => any::<u8>(), 1 => proptest::sample::select(b)];
            (by, small(1, 12, BMO), small(1, 31, BD), small(0, 23, BH), small(0, 59, BMI), small(0, 60, BS))
                .prop_map(|(y, mo, d, h, mi, s)| Ctor { y, mo, d, h, mi, s })
                .boxed()
        },
        &|c: &Ctor, info: &mut Info| {
            let ok = DateTime::from_date_and_time(c.y, c.mo, c.d, c.h, c.mi, c.s).is_ok();
            info.nontrivial = ok;
            info.label(if ok { "accepted" } else { "rejected" });
            Verdict::from_result(check_ctor(c.y, c.mo, c.d, c.h, c.mi, c.s))
        },
    );
}
