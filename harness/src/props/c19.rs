//! C19 — names and comments decode by the flagged encoding; raw bytes are kept.
use crate::engine::{Ctx, Info, Verdict};
use crate::gen::{self, Method, Op, Opts, Program};
use crate::refzip::{self, build, parse, ArchiveSpec, Content, EntrySpec};
use crate::util::catch;
use proptest::prelude::*;
use serde::{Deserialize, Serialize};
use std::io::Cursor;

#[derive(Clone, Debug, Serialize, Deserialize, Hash)]
pub struct Txt {
    #[serde(with = "crate::util::hexbytes")]
    pub name: Vec<u8>,
    #[serde(with = "crate::util::hexbytes")]
    pub comment: Vec<u8>,
    pub utf8: bool,
    /// which well-formed third-party extra records accompany the entry (bit set, see
    /// genf::well_known_extras): Info-ZIP Unicode Path / Comment with a matching CRC and a different
    /// text, extended timestamp, ... - none of them may change how name and comment are decoded
    #[serde(default)]
    pub wk: u8,
}

struct Col {
    files: Vec<(String, Vec<u8>)>,
    metas: Vec<(String, Vec<u8>, String)>,
}
impl zip::unstable::stream::ZipStreamVisitor for Col {
    fn visit_file(&mut self, f: &mut zip::read::ZipFile<'_>) -> zip::result::ZipResult<()> {
        self.files.push((f.name().to_string(), f.name_raw().to_vec()));
        Ok(())
    }
    fn visit_additional_metadata(&mut self, m: &zip::unstable::stream::ZipStreamFileMetadata) -> zip::result::ZipResult<()> {
        self.metas.push((m.name().to_string(), m.name_raw().to_vec(), m.comment().to_string()));
        Ok(())
    }
}

pub fn check_batch(items: &[Txt]) -> Result<(), String> {
    let entries: Vec<EntrySpec> = items
        .iter()
        .map(|t| {
            let mut e = EntrySpec::simple(&t.name, 0, Content::Bytes(vec![]));
            e.utf8 = t.utf8;
            e.comment = t.comment.clone();
            for (k, r) in crate::genf::well_known_extras(&t.name, &t.comment, t.wk).into_iter().enumerate() {
                if (k + t.wk as usize) % 2 == 0 {
                    e.central_extra_after.push(r.clone());
                } else {
                    e.central_extra_before.push(r.clone());
                }
                e.local_extra.push(r);
            }
            e
        })
        .collect();
    let b = build::build(&ArchiveSpec::plain(entries)).map_err(|e| format!("harness: {e}"))?;
    let mut za = zip::ZipArchive::new(Cursor::new(&b.bytes[..])).map_err(|e| format!("archive does not open: {e}"))?;
    if za.len() != items.len() {
        return Err("entry count".into());
    }
    for (i, t) in items.iter().enumerate() {
        let f = za.by_index_raw(i).map_err(|e| format!("by_index_raw({i}): {e}"))?;
        let wn = refzip::decode_text(&t.name, t.utf8);
        let wc = refzip::decode_text(&t.comment, t.utf8);
        if f.name() != wn {
            return Err(format!("name bytes {} (utf8 flag {}) decoded as {:?}, expected {:?}", crate::util::hex(&t.name), t.utf8, f.name(), wn));
        }
        if f.name_raw() != &t.name[..] {
            return Err(format!("name_raw() differs from the stored bytes {}", crate::util::hex(&t.name)));
        }
        if f.comment() != wc {
            return Err(format!("comment bytes {} (utf8 flag {}) decoded as {:?}, expected {:?}", crate::util::hex(&t.comment), t.utf8, f.comment(), wc));
        }
    }
    let mut col = Col { files: vec![], metas: vec![] };
    zip::unstable::stream::ZipStreamReader::new(Cursor::new(&b.bytes[..])).visit(&mut col).map_err(|e| format!("streaming visit failed: {e}"))?;
    if col.files.len() != items.len() {
        return Err(format!("streaming reader saw {} of {} entries", col.files.len(), items.len()));
    }
    for (t, (n, raw)) in items.iter().zip(col.files.iter()) {
        let wn = refzip::decode_text(&t.name, t.utf8);
        if *n != wn || raw != &t.name {
            return Err(format!("streaming reader: name bytes {} (utf8 flag {}) decoded as {:?}, expected {:?}", crate::util::hex(&t.name), t.utf8, n, wn));
        }
    }
    for (k, (n, raw, c)) in col.metas.iter().enumerate() {
        if let Some(t) = items.get(k) {
            if *n != refzip::decode_text(&t.name, t.utf8) || raw != &t.name || *c != refzip::decode_text(&t.comment, t.utf8) {
                return Err(format!("stream metadata {k}: name/comment decoding differs for bytes {}", crate::util::hex(&t.name)));
            }
        }
    }
    Ok(())
}

#[derive(Clone, Debug, Serialize, Deserialize, Hash)]
pub struct Range {
    first: u64,
    count: u64,
}

#[derive(Clone, Debug, Serialize, Deserialize, Hash)]
pub struct WCase {
    name: String,
    kind: u8,
    password: Option<String>,
    comment: String,
}

/// kinds 5 and 6: the name is given to raw_copy_file_rename; the source entry's own name is ASCII without
/// the UTF-8 flag (kind 5) or CP437 bytes without the flag (kind 6)
fn check_raw_rename(c: &WCase) -> Result<(), String> {
    use std::io::Write;
    let mut src_e = EntrySpec::simple(if c.kind % 7 == 5 { &b"source.txt"[..] } else { &b"Cura\x87ao.txt"[..] }, 8, Content::Text { seed: 5, len: 300 });
    src_e.utf8 = false;
    let src = build::build(&ArchiveSpec::plain(vec![src_e])).map_err(|e| format!("harness: {e}"))?;
    let mut sza = zip::ZipArchive::new(Cursor::new(&src.bytes[..])).map_err(|e| format!("harness: {e}"))?;
    let mut sink = Cursor::new(Vec::new());
    {
        let mut w = std::mem::ManuallyDrop::new(zip::ZipWriter::new(&mut sink));
        w.start_file("ascii-first", zip::write::FileOptions::default().last_modified_time(zip::DateTime::default())).map_err(|e| format!("harness: {e}"))?;
        w.write_all(b"x").map_err(|e| format!("harness: {e}"))?;
        let f = sza.by_index_raw(0).map_err(|e| format!("harness: {e}"))?;
        w.raw_copy_file_rename(f, c.name.clone()).map_err(|e| format!("raw_copy_file_rename refused: {e}"))?;
        w.finish().map_err(|e| format!("finish: {e}"))?;
    }
    let bytes = sink.into_inner();
    let pp = parse::parse(&bytes[..], parse::Opts::strict()).map_err(|e| format!("strict parser (raw copy renamed to {:?}): {e}", c.name))?;
    if pp.entries[1].name != c.name.as_bytes() {
        return Err(format!("raw copy renamed to {:?}: stored name bytes are not the UTF-8 of the given name", c.name));
    }
    let mut za = zip::ZipArchive::new(Cursor::new(&bytes[..])).map_err(|e| format!("reopen: {e}"))?;
    let f = za.by_index_raw(1).map_err(|e| format!("by_index_raw: {e}"))?;
    if f.name() != c.name {
        return Err(format!("raw copy renamed to {:?} reads back as {:?}", c.name, f.name()));
    }
    Ok(())
}

fn check_writer(c: &WCase) -> Result<(), String> {
    if c.kind % 7 >= 5 {
        return check_raw_rename(c);
    }
    let mut o = Opts::plain(Method::Deflated);
    o.password = c.password.clone();
    let body = vec![Content::Bytes(b"some body".to_vec())];
    let op = match c.kind % 7 {
        0 => Op::File { name: c.name.clone(), opts: o, chunks: body },
        1 => Op::Dir { name: c.name.clone(), opts: Opts::plain(Method::Stored) },
        2 => Op::Symlink { name: c.name.clone(), target: "tgt".into(), opts: Opts::plain(Method::Stored) },
        3 => Op::ExtraFile { name: c.name.clone(), opts: Opts::plain(Method::Stored), local: vec![], central: None, chunks: body },
        _ => Op::Aligned { name: c.name.clone(), opts: Opts::plain(Method::Stored), align: 64, chunks: body },
    };
    let p = Program { ops: vec![Op::File { name: "ascii-first".into(), opts: Opts::plain(Method::Stored), chunks: vec![] }, op, Op::Comment(c.comment.clone().into_bytes())] };
    let bytes = gen::run_program(&p, false).map_err(|e| format!("writer refused: {e}"))?;
    let (model, comment) = gen::model(&p);
    let pp = parse::parse(&bytes[..], parse::Opts::strict()).map_err(|e| format!("strict parser: {e}"))?;
    let e = &pp.entries[1];
    if e.name != model[1].name.as_bytes() {
        return Err(format!("stored name bytes are not the UTF-8 of the given name {:?}", c.name));
    }
    if pp.comment != comment {
        return Err("stored comment bytes differ".into());
    }
    let mut za = zip::ZipArchive::new(Cursor::new(&bytes[..])).map_err(|e| format!("reopen: {e}"))?;
    let f = za.by_index_raw(1).map_err(|e| format!("by_index_raw: {e}"))?;
    if f.name() != model[1].name {
        return Err(format!("name {:?} read back as {:?}", model[1].name, f.name()));
    }
    Ok(())
}

pub fn run(ctx: &mut Ctx) {
    ctx.rule("bytes1: all 256 single-byte names and comments x flag set/clear (exhaustive); bytes2: all 65536 two-byte names x flag set/clear (exhaustive); random: byte strings up to 64 KiB incl. invalid UTF-8 (overlong, surrogates, truncated); writer: arbitrary Rust strings through every entry-creating call incl. the encryption option and raw_copy_file_rename (source names unflagged ASCII / CP437). Oracle: CP437 table from CPython / std from_utf8_lossy (cross-checked against CPython's utf-8 'replace' decoder on a sample). Non-trivial = at least one byte >= 0x80. Entries optionally carry well-formed third-party extra records (Info-ZIP Unicode Path/Comment with matching CRC and a different text, extended timestamp, Unix, NTFS): decoding must still follow the flag and the header bytes. Seekable reader, streaming reader and stream metadata.");
    ctx.assume("String::from_utf8_lossy is the reference for 'invalid sequences replaced'; a sample is cross-checked against CPython's decoder");
    const B: u64 = 1024;
    // bytes1 + bytes2 : index space = flag(2) x (256 + 65536)
    let total = 2 * (256 + 65536) as u64;
    ctx.enumerate::<Range>(
        "bytes12",
        (total + B - 1) / B,
        &|i| Range { first: i * B, count: B.min(total - i * B) },
        &|r: &Range, info: &mut Info| {
            let items: Vec<Txt> = (r.first..r.first + r.count)
                .map(|k| {
                    let utf8 = k % 2 == 1;
                    let v = k / 2;
                    if v < 256 {
                        Txt { name: vec![v as u8], comment: vec![v as u8], utf8, wk: if v % 3 == 0 { 3 } else { 0 } }
                    } else {
                        let w = (v - 256) as u16;
                        Txt { name: vec![(w >> 8) as u8, w as u8], comment: vec![w as u8, (w >> 8) as u8, b'!'], utf8, wk: if w % 5 == 0 { (w >> 3) as u8 } else { 0 } }
                    }
                })
                .collect();
            info.nontrivial = true;
            Verdict::from_result(catch(|| check_batch(&items)).unwrap_or_else(|p| Err(format!("PANIC: {p}"))))
        },
    );
    ctx.add_class("bytes12:names-checked", total);
    ctx.exhaustive_all = true;

    let n = ctx.q(60000, 400000);
    let bytestr = || {
        prop_oneof![
            4 => proptest::collection::vec(any::<u8>(), 0..40),
            3 => "\\PC{0,30}".prop_map(|s| s.into_bytes()),
            3 => proptest::collection::vec(prop_oneof![Just(vec![0xc3u8, 0xa9]), Just(vec![0xe2, 0x82, 0xac]), Just(vec![0xf0, 0x9f, 0x98, 0x80]), Just(vec![0xc0, 0xaf]), Just(vec![0xed, 0xa0, 0x80]), Just(vec![0xe2, 0x82]), Just(vec![0xf4, 0x90, 0x80, 0x80]), Just(vec![0x80]), Just(vec![0xff]), Just(b"ab".to_vec()), Just(vec![0xf0, 0x9f])], 0..12).prop_map(|v| v.concat()),
            1 => (any::<u64>(), 1000u32..65535).prop_map(|(s, n)| Content::Rand { seed: s, len: n }.expand()),
        ]
    };
    ctx.explore::<Vec<Txt>>(
        "random",
        n,
        &|| proptest::collection::vec((bytestr(), bytestr(), any::<bool>(), prop_oneof![2 => Just(0u8), 1 => Just(1u8), 1 => Just(3u8), 1 => any::<u8>()]).prop_map(|(name, comment, utf8, wk)| Txt { name, comment, utf8, wk }), 1..8).boxed(),
        &|items: &Vec<Txt>, info: &mut Info| {
            info.nontrivial = items.iter().any(|t| !t.name.is_ascii() || !t.comment.is_ascii());
            info.label_if(items.iter().any(|t| t.utf8 && std::str::from_utf8(&t.name).is_err()), "invalid-utf8-with-flag");
            info.label_if(items.iter().any(|t| !t.utf8 && !t.name.is_ascii() && std::str::from_utf8(&t.name).is_ok()), "valid-utf8-without-flag");
            info.label_if(items.iter().any(|t| t.name.len() > 1000), "long");
            info.label_if(items.iter().any(|t| t.wk & 1 != 0), "with-infozip-unicode-path-extra");
            Verdict::from_result(catch(|| check_batch(items)).unwrap_or_else(|p| Err(format!("PANIC: {p}"))))
        },
    );

    // cross-check of the UTF-8 'replace' oracle against CPython on a fixed sample of byte strings
    if ctx.is_run() {
        let mut sample: Vec<Vec<u8>> = vec![vec![0xc0, 0xaf], vec![0xed, 0xa0, 0x80], vec![0xe2, 0x82], vec![0xf4, 0x90, 0x80, 0x80], vec![0xf0, 0x9f, 0x98], vec![0x61, 0x80, 0x62], vec![0xe2, 0x28, 0xa1], vec![0xf0, 0x28, 0x8c, 0xbc]];
        let mut g = crate::util::Sm(ctx.seed);
        for _ in 0..2000 {
            let n = (g.next() % 12) as usize;
            sample.push((0..n).map(|_| { let r = g.next(); if r & 1 == 0 { (r >> 8) as u8 } else { [0xc3, 0xa9, 0xe2, 0x82, 0xac, 0xf0, 0x9f, 0x80][(r >> 8) as usize % 8] } }).collect());
        }
        let input: String = sample.iter().map(|b| crate::util::hex(b) + "\n").collect();
        let py = "import sys,binascii\nfor l in sys.stdin:\n  b=binascii.unhexlify(l.strip())\n  print(binascii.hexlify(b.decode('utf-8','replace').encode('utf-8')).decode())\n";
        use std::io::Write;
        let out = std::process::Command::new("python3").args(["-c", py]).stdin(std::process::Stdio::piped()).stdout(std::process::Stdio::piped()).spawn().and_then(|mut ch| {
            ch.stdin.take().unwrap().write_all(input.as_bytes())?;
            ch.wait_with_output()
        });
        match out {
            Ok(o) if o.status.success() => {
                let lines: Vec<String> = String::from_utf8_lossy(&o.stdout).lines().map(|s| s.to_string()).collect();
                let mut dis = 0;
                for (b, l) in sample.iter().zip(lines.iter()) {
                    if crate::util::hex(String::from_utf8_lossy(b).as_bytes()) != *l {
                        dis += 1;
                    }
                }
                ctx.extra.insert("utf8_replace_oracle_vs_cpython".into(), serde_json::json!({"strings": sample.len(), "disagreements": dis}));
                if dis > 0 {
                    ctx.assume(&format!("std and CPython disagree on {dis} invalid UTF-8 samples; std's from_utf8_lossy is used as the oracle"));
                }
            }
            _ => ctx.assume("CPython cross-check of the UTF-8 replace oracle could not run"),
        }
    }

    let nw = ctx.q(50000, 300000);
    ctx.explore::<WCase>(
        "writer",
        nw,
        &|| {
            (prop_oneof![3 => "\\PC{0,20}", 2 => "[a-zé漢😀/\\\\ ]{0,16}", 1 => ".{0,30}", 1 => gen::name()], any::<u8>(), prop_oneof![2 => Just(None), 1 => gen::password().prop_map(Some)], "\\PC{0,12}")
                .prop_map(|(name, kind, password, comment)| WCase { name, kind, password: if kind % 7 == 0 { password } else { None }, comment: String::from_utf8(gen::sanitize_comment(comment.into_bytes())).unwrap_or_default() })
                .boxed()
        },
        &|c: &WCase, info: &mut Info| {
            info.nontrivial = !c.name.is_ascii();
            info.label_if(c.password.is_some() && !c.name.is_ascii(), "encrypted+non-ascii");
            info.label(["file", "dir", "symlink", "extra", "aligned", "raw-copy-renamed", "raw-copy-of-cp437-renamed"][(c.kind % 7) as usize]);
            Verdict::from_result(catch(|| check_writer(c)).unwrap_or_else(|p| Err(format!("PANIC: {p}"))))
        },
    );
}
