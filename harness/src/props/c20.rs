//! C20 — cloned archive handles are independent and usable in parallel.
use crate::engine::{Ctx, Info, Verdict};
use crate::gen::{self, Program};
use crate::util::catch;
use proptest::prelude::*;
use serde::{Deserialize, Serialize};
use std::io::{Cursor, Read};
use std::sync::Arc;

type Arch = zip::ZipArchive<PosReader>;

/// A cloneable in-memory reader whose `clone()` may or may not keep the stream position - both are
/// legal for `Read + Seek + Clone` (a re-opened file starts at 0, a dup'ed cursor keeps its place).
/// 0 = keeps the position, 1 = rewinds to 0, 2 = lands at the end, 3 = lands in the middle.
pub struct PosReader {
    cur: Cursor<Arc<[u8]>>,
    mode: u8,
}
impl PosReader {
    fn new(b: Arc<[u8]>, mode: u8) -> PosReader {
        PosReader { cur: Cursor::new(b), mode }
    }
}
impl Clone for PosReader {
    fn clone(&self) -> PosReader {
        let mut cur = self.cur.clone();
        let len = cur.get_ref().len() as u64;
        match self.mode % 4 {
            0 => {}
            1 => cur.set_position(0),
            2 => cur.set_position(len),
            _ => cur.set_position(len / 2),
        }
        PosReader { cur, mode: self.mode }
    }
}
impl Read for PosReader {
    fn read(&mut self, b: &mut [u8]) -> std::io::Result<usize> {
        self.cur.read(b)
    }
}
impl std::io::Seek for PosReader {
    fn seek(&mut self, p: std::io::SeekFrom) -> std::io::Result<u64> {
        self.cur.seek(p)
    }
}

#[derive(Clone, Debug, Serialize, Deserialize, Hash, PartialEq, Eq)]
pub enum Step {
    Open(u8),
    OpenByName(u8),
    Read(u16),
    ReadEnd,
    Close,
    /// by_index_decrypt with the entry's own password (0), a different one (1), an empty one (2) or a
    /// different one that happens to pass the one-byte header check of this ZipCrypto entry (3)
    OpenPw(u8, u8),
    /// by_index_raw
    OpenRaw(u8),
    /// query the accessors of the entry that is currently open on this handle once more
    Meta,
}

#[derive(Clone, Debug, PartialEq, Eq)]
enum Obs {
    Opened { name: String, size: u64, crc: u32, data_start: u64, header_start: u64 },
    OpenFailed,
    Bytes(Vec<u8>),
    ReadErr,
    NoFile,
    Closed,
}

struct Handle {
    arc: *mut Arch,
    file: Option<zip::read::ZipFile<'static>>,
}
impl Handle {
    fn new(a: Arch) -> Handle {
        Handle { arc: Box::into_raw(Box::new(a)), file: None }
    }
    fn step(&mut self, s: &Step, n_entries: usize, names: &[String], pws: &[Option<String>]) -> Obs {
        match s {
            Step::OpenPw(i, which) => {
                self.file = None;
                if n_entries == 0 {
                    return Obs::OpenFailed;
                }
                let idx = *i as usize % n_entries;
                let a: &'static mut Arch = unsafe { &mut *self.arc };
                let pw: Vec<u8> = match which % 4 {
                    0 => pws.get(idx).cloned().flatten().unwrap_or_else(|| "unused".into()).into_bytes(),
                    1 => b"not the password".to_vec(),
                    2 => Vec::new(),
                    _ => PASSING.with(|p| p.borrow().get(idx).cloned().flatten()).unwrap_or_else(|| b"not the password".to_vec()),
                };
                match a.by_index_decrypt(idx, &pw) {
                    Ok(Ok(f)) => {
                        let o = Obs::Opened { name: f.name().to_string(), size: f.size(), crc: f.crc32(), data_start: f.data_start(), header_start: f.header_start() };
                        self.file = Some(f);
                        o
                    }
                    _ => Obs::OpenFailed,
                }
            }
            Step::OpenRaw(i) => {
                self.file = None;
                if n_entries == 0 {
                    return Obs::OpenFailed;
                }
                let idx = *i as usize % n_entries;
                let a: &'static mut Arch = unsafe { &mut *self.arc };
                match a.by_index_raw(idx) {
                    Ok(f) => {
                        let o = Obs::Opened { name: f.name().to_string(), size: f.compressed_size(), crc: f.crc32(), data_start: f.data_start(), header_start: f.header_start() };
                        self.file = Some(f);
                        o
                    }
                    Err(_) => Obs::OpenFailed,
                }
            }
            Step::Meta => match &self.file {
                None => Obs::NoFile,
                Some(f) => Obs::Opened { name: f.name().to_string(), size: f.size(), crc: f.crc32(), data_start: f.data_start(), header_start: f.header_start() },
            },
            Step::Open(i) | Step::OpenByName(i) => {
                self.file = None; // close the previous entry first (one entry per handle at a time)
                if n_entries == 0 {
                    return Obs::OpenFailed;
                }
                let idx = *i as usize % n_entries;
                // SAFETY: the archive is heap-allocated, outlives `file` (dropped first in Drop) and
                // is only accessed through this handle on one thread
                let a: &'static mut Arch = unsafe { &mut *self.arc };
                let r = if matches!(s, Step::OpenByName(_)) { a.by_name(&names[idx]) } else { a.by_index(idx) };
                match r {
                    Ok(f) => {
                        let o = Obs::Opened { name: f.name().to_string(), size: f.size(), crc: f.crc32(), data_start: f.data_start(), header_start: f.header_start() };
                        self.file = Some(f);
                        o
                    }
                    Err(_) => Obs::OpenFailed,
                }
            }
            Step::Read(k) => match &mut self.file {
                None => Obs::NoFile,
                Some(f) => {
                    let mut buf = vec![0u8; *k as usize];
                    let mut n = 0;
                    while n < buf.len() {
                        match f.read(&mut buf[n..]) {
                            Ok(0) => break,
                            Ok(m) => n += m,
                            Err(_) => return Obs::ReadErr,
                        }
                    }
                    buf.truncate(n);
                    Obs::Bytes(buf)
                }
            },
            Step::ReadEnd => match &mut self.file {
                None => Obs::NoFile,
                Some(f) => {
                    let mut v = Vec::new();
                    match f.read_to_end(&mut v) {
                        Ok(_) => Obs::Bytes(v),
                        Err(_) => Obs::ReadErr,
                    }
                }
            },
            Step::Close => {
                self.file = None;
                Obs::Closed
            }
        }
    }
}
impl Drop for Handle {
    fn drop(&mut self) {
        self.file = None;
        unsafe { drop(Box::from_raw(self.arc)) };
    }
}

#[derive(Clone, Debug, Serialize, Deserialize, Hash)]
pub struct Case {
    program: Program,
    scripts: Vec<Vec<Step>>,
    /// what `clone()` of the underlying reader does with the stream position (see PosReader)
    #[serde(default)]
    clone_mode: u8,
    /// Some(k): the clones are not taken from a pristine handle but from one that has just executed the
    /// first k steps of script 0 (e.g. has an entry half-read or has just read one to the end)
    #[serde(default)]
    warm_up: Option<u8>,
}

/// all interleavings of the scripts (as sequences of handle indices), capped
fn interleavings(lens: &[usize], cap: usize) -> Vec<Vec<usize>> {
    fn rec(left: &mut Vec<usize>, cur: &mut Vec<usize>, out: &mut Vec<Vec<usize>>, cap: usize) {
        if out.len() >= cap {
            return;
        }
        if left.iter().all(|x| *x == 0) {
            out.push(cur.clone());
            return;
        }
        for h in 0..left.len() {
            if left[h] > 0 {
                left[h] -= 1;
                cur.push(h);
                rec(left, cur, out, cap);
                cur.pop();
                left[h] += 1;
            }
        }
    }
    let mut out = Vec::new();
    rec(&mut lens.to_vec(), &mut Vec::new(), &mut out, cap);
    out
}

static INTERLEAVINGS: std::sync::atomic::AtomicU64 = std::sync::atomic::AtomicU64::new(0);

thread_local! {
    /// per entry of the case being checked: a WRONG password that passes the one-byte check of the entry's
    /// ZipCrypto header (found by search with the independent cipher), if the entry is encrypted
    static PASSING: std::cell::RefCell<Vec<Option<Vec<u8>>>> = const { std::cell::RefCell::new(Vec::new()) };
}

fn passing_wrong_passwords(bytes: &[u8], pws: &[Option<String>]) -> Vec<Option<Vec<u8>>> {
    let mut out = vec![None; pws.len()];
    let Ok(mut za) = zip::ZipArchive::new(Cursor::new(bytes)) else { return out };
    for (i, pw) in pws.iter().enumerate() {
        let Some(real) = pw else { continue };
        let Ok(f) = za.by_index_raw(i) else { continue };
        let (ds, crc, cs) = (f.data_start() as usize, f.crc32(), f.compressed_size());
        drop(f);
        if cs < 12 || ds + 12 > bytes.len() {
            continue;
        }
        for k in 0..20000u32 {
            let cand = format!("w{k}");
            if cand == *real {
                continue;
            }
            let mut keys = crate::refzip::crypto::PkKeys::new(cand.as_bytes());
            let mut h = [0u8; 12];
            h.copy_from_slice(&bytes[ds..ds + 12]);
            keys.decrypt(&mut h);
            if h[11] == (crc >> 24) as u8 {
                out[i] = Some(cand.into_bytes());
                break;
            }
        }
    }
    out
}

fn check(c: &Case, info: &mut Info) -> Result<(), String> {
    let bytes: Arc<[u8]> = gen::run_program(&c.program, false).map_err(|e| format!("harness: {e}"))?.into();
    let base = zip::ZipArchive::new(PosReader::new(bytes.clone(), c.clone_mode)).map_err(|e| format!("harness: {e}"))?;
    let n = base.len();
    let names: Vec<String> = {
        let mut b = zip::ZipArchive::new(PosReader::new(bytes.clone(), 0)).map_err(|e| format!("harness: {e}"))?;
        (0..n).map(|i| b.by_index_raw(i).map(|f| f.name().to_string()).unwrap_or_default()).collect()
    };
    let pws: Vec<Option<String>> = gen::model(&c.program).0.iter().map(|m| m.password.clone()).collect();
    if c.scripts.iter().flatten().any(|s| matches!(s, Step::OpenPw(_, w) if w % 4 == 3)) {
        let p = passing_wrong_passwords(&bytes, &pws);
        info.label_if(p.iter().any(|x| x.is_some()), "wrong-password-that-passes-the-header-check");
        PASSING.with(|c| *c.borrow_mut() = p);
    } else {
        PASSING.with(|c| c.borrow_mut().clear());
    }
    // optionally the handle the clones are taken from has been used first
    let mut origin = Handle::new(base);
    if let Some(k) = c.warm_up {
        for st in c.scripts[0].iter().take(k as usize) {
            let _ = origin.step(st, n, &names, &pws);
        }
        origin.file = None;
    }
    let base: Arch = unsafe { (*origin.arc).clone() };
    let base_for_clones = base;
    // each script alone, on a fresh (not cloned) archive
    let mut alone: Vec<Vec<Obs>> = Vec::new();
    for s in &c.scripts {
        let mut h = Handle::new(zip::ZipArchive::new(PosReader::new(bytes.clone(), 0)).map_err(|e| format!("harness: {e}"))?);
        alone.push(s.iter().map(|st| h.step(st, n, &names, &pws)).collect());
    }
    let lens: Vec<usize> = c.scripts.iter().map(|s| s.len()).collect();
    let all = interleavings(&lens, 1680);
    let mut switched_while_open = false;
    for il in &all {
        INTERLEAVINGS.fetch_add(1, std::sync::atomic::Ordering::Relaxed);
        // handles are clones of ONE opened archive
        let mut hs: Vec<Handle> = c.scripts.iter().map(|_| Handle::new(base_for_clones.clone())).collect();
        let mut pos = vec![0usize; hs.len()];
        let mut last = usize::MAX;
        for &h in il {
            if last != usize::MAX && last != h && hs[last].file.is_some() {
                switched_while_open = true;
            }
            let st = &c.scripts[h][pos[h]];
            let o = hs[h].step(st, n, &names, &pws);
            if o != alone[h][pos[h]] {
                return Err(format!("handle {h} step {} ({st:?}) observes {} under interleaving {il:?}, but {} when the script runs alone", pos[h], brief(&o), brief(&alone[h][pos[h]])));
            }
            pos[h] += 1;
            last = h;
        }
    }
    info.nontrivial = switched_while_open;
    Ok(())
}

fn brief(o: &Obs) -> String {
    match o {
        Obs::Bytes(b) => format!("{} bytes (hash {:x})", b.len(), crate::util::hash_of(&b[..])),
        other => format!("{other:?}"),
    }
}

#[derive(Clone, Debug, Serialize, Deserialize, Hash)]
pub struct TCase {
    program: Program,
    threads: u8,
    /// per thread: order seed, common prefix length, yield mask
    plans: Vec<(u64, u8, u32)>,
    by_name: bool,
}

fn check_threads(c: &TCase) -> Result<(), String> {
    let bytes: Arc<[u8]> = gen::run_program(&c.program, false).map_err(|e| format!("harness: {e}"))?.into();
    let (model, _) = gen::model(&c.program);
    let n = model.len();
    if n == 0 {
        return Ok(());
    }
    // expected observations from a handle used alone
    let mut solo = zip::ZipArchive::new(Cursor::new(bytes.clone())).map_err(|e| format!("harness: {e}"))?;
    let mut expected: Vec<(String, Vec<u8>, u64)> = Vec::new();
    for i in 0..n {
        let mut f = solo.by_index(i).map_err(|e| format!("harness: by_index: {e}"))?;
        let mut v = Vec::new();
        f.read_to_end(&mut v).map_err(|e| format!("harness: read: {e}"))?;
        expected.push((f.name().to_string(), v, f.data_start()));
    }
    // a FRESH archive per case: first-use races (lazy caches) only exist on fresh state
    let fresh = zip::ZipArchive::new(PosReader::new(bytes.clone(), (c.plans.first().map(|p| p.0).unwrap_or(0) % 4) as u8)).map_err(|e| format!("harness: {e}"))?;
    let nthreads = c.threads.max(2) as usize;
    let barrier = std::sync::Barrier::new(nthreads);
    let errs: std::sync::Mutex<Vec<String>> = std::sync::Mutex::new(Vec::new());
    // last-name lookup is only unambiguous for unique names
    let unique: Vec<bool> = (0..n).map(|i| expected.iter().filter(|e| e.0 == expected[i].0).count() == 1).collect();
    std::thread::scope(|sc| {
        for t in 0..nthreads {
            let mut h = fresh.clone();
            let (seed, common, ymask) = c.plans[t % c.plans.len()];
            let (barrier, errs, expected, unique) = (&barrier, &errs, &expected, &unique);
            let by_name = c.by_name;
            sc.spawn(move || {
                // order: a common prefix (same entries first on every thread) then a private shuffle
                let mut order: Vec<usize> = (0..n).collect();
                let mut g = crate::util::Sm(seed);
                let k = (common as usize).min(n);
                for i in (k + 1..n).rev() {
                    let j = k + (g.next() % (i - k + 1) as u64) as usize;
                    order.swap(i, j);
                }
                barrier.wait();
                for (step, &i) in order.iter().enumerate() {
                    if ymask >> (step % 32) & 1 == 1 {
                        std::thread::yield_now();
                    }
                    let r = if by_name && unique[i] { h.by_name(&expected[i].0) } else { h.by_index(i) };
                    match r {
                        Ok(mut f) => {
                            let mut v = Vec::new();
                            let mut buf = [0u8; 97];
                            loop {
                                match f.read(&mut buf) {
                                    Ok(0) => break,
                                    Ok(m) => v.extend_from_slice(&buf[..m]),
                                    Err(e) => {
                                        errs.lock().unwrap().push(format!("thread {t}: entry {i} ({:?}) read error {e} (reads fine on a handle used alone)", expected[i].0));
                                        return;
                                    }
                                }
                                if ymask & 0x8000_0000 != 0 {
                                    std::thread::yield_now();
                                }
                            }
                            if v != expected[i].1 || f.name() != expected[i].0 || f.data_start() != expected[i].2 {
                                errs.lock().unwrap().push(format!("thread {t}: entry {i} ({:?}) observed {} bytes / data_start {} but a handle used alone observes {} bytes / data_start {}", expected[i].0, v.len(), f.data_start(), expected[i].1.len(), expected[i].2));
                                return;
                            }
                        }
                        Err(e) => {
                            errs.lock().unwrap().push(format!("thread {t}: opening entry {i} ({:?}) failed with {e} (opens fine on a handle used alone)", expected[i].0));
                            return;
                        }
                    }
                }
            });
        }
    });
    let e = errs.into_inner().unwrap();
    match e.into_iter().next() {
        Some(m) => Err(m),
        None => Ok(()),
    }
}

// ---- a sibling whose own reader misbehaves ---------------------------------------------------
/// Reader that knows which clone it is: every `clone()` draws a fresh id. The clone with the victim
/// id fails its `at`-th I/O call (an I/O error, or a panic as a buggy user reader would).
struct IdReader {
    cur: Cursor<Arc<[u8]>>,
    id: usize,
    ids: Arc<std::sync::atomic::AtomicUsize>,
    plan: Arc<(usize, usize, u8)>,
    ops: Arc<std::sync::atomic::AtomicUsize>,
}
impl Clone for IdReader {
    fn clone(&self) -> Self {
        IdReader { cur: self.cur.clone(), id: self.ids.fetch_add(1, std::sync::atomic::Ordering::SeqCst), ids: self.ids.clone(), plan: self.plan.clone(), ops: self.ops.clone() }
    }
}
impl IdReader {
    fn tick(&self) -> std::io::Result<()> {
        if self.id == self.plan.0 {
            let k = self.ops.fetch_add(1, std::sync::atomic::Ordering::SeqCst);
            if k == self.plan.1 {
                if self.plan.2 == 1 {
                    panic!("injected: the victim handle's own reader panics");
                }
                let kind = match self.plan.2 {
                    2 => std::io::ErrorKind::UnexpectedEof,
                    3 => std::io::ErrorKind::InvalidData,
                    4 => std::io::ErrorKind::TimedOut,
                    _ => std::io::ErrorKind::Other,
                };
                return Err(std::io::Error::new(kind, "injected: the victim handle's own reader fails"));
            }
        }
        Ok(())
    }
}
impl Read for IdReader {
    fn read(&mut self, b: &mut [u8]) -> std::io::Result<usize> {
        self.tick()?;
        self.cur.read(b)
    }
}
impl std::io::Seek for IdReader {
    fn seek(&mut self, p: std::io::SeekFrom) -> std::io::Result<u64> {
        self.tick()?;
        self.cur.seek(p)
    }
}

#[derive(Clone, Debug, Serialize, Deserialize, Hash)]
pub struct FCase {
    program: Program,
    order_a: u64,
    order_b: u64,
    by_name: bool,
}

static FAULT_RUNS: std::sync::atomic::AtomicU64 = std::sync::atomic::AtomicU64::new(0);

/// Two clones A (victim) and B of a FRESH archive take turns opening and reading entries; A's own reader
/// fails at its k-th I/O call, for EVERY k and both failure kinds. B must observe exactly what a handle
/// used alone observes - before, at and after A's failure.
fn check_faulty_sibling(c: &FCase, info: &mut Info) -> Result<(), String> {
    let bytes: Arc<[u8]> = gen::run_program(&c.program, false).map_err(|e| format!("harness: {e}"))?.into();
    let mut solo = zip::ZipArchive::new(Cursor::new(bytes.clone())).map_err(|e| format!("harness: {e}"))?;
    let n = solo.len();
    if n == 0 {
        return Ok(());
    }
    let mut expected: Vec<(String, Vec<u8>, u64)> = Vec::new();
    for i in 0..n {
        let mut f = solo.by_index(i).map_err(|e| format!("harness: by_index: {e}"))?;
        let mut v = Vec::new();
        f.read_to_end(&mut v).map_err(|e| format!("harness: read: {e}"))?;
        expected.push((f.name().to_string(), v, f.data_start()));
    }
    let unique: Vec<bool> = (0..n).map(|i| expected.iter().filter(|e| e.0 == expected[i].0).count() == 1).collect();
    let shuffle = |seed: u64| {
        let mut o: Vec<usize> = (0..n).collect();
        let mut g = crate::util::Sm(seed);
        for i in (1..n).rev() {
            o.swap(i, (g.next() % (i as u64 + 1)) as usize);
        }
        o
    };
    let (oa, ob) = (shuffle(c.order_a), shuffle(c.order_b));
    let read_one = |h: &mut zip::ZipArchive<IdReader>, i: usize| -> Result<(String, Vec<u8>, u64), String> {
        let mut f = if c.by_name && unique[i] { h.by_name(&expected[i].0) } else { h.by_index(i) }.map_err(|e| format!("open failed: {e}"))?;
        let mut v = Vec::new();
        f.read_to_end(&mut v).map_err(|e| format!("read failed: {e}"))?;
        Ok((f.name().to_string(), v, f.data_start()))
    };
    for fkind in [0u8, 1, 2, 3, 4] {
        let panic_kind = fkind == 1;
        let mut at = 0usize;
        loop {
            FAULT_RUNS.fetch_add(1, std::sync::atomic::Ordering::Relaxed);
            let ops = Arc::new(std::sync::atomic::AtomicUsize::new(0));
            let rd = IdReader { cur: Cursor::new(bytes.clone()), id: 0, ids: Arc::new(std::sync::atomic::AtomicUsize::new(1)), plan: Arc::new((1, at, fkind)), ops: ops.clone() };
            let base = zip::ZipArchive::new(rd).map_err(|e| format!("harness: {e}"))?;
            let mut a = base.clone(); // id 1: the victim
            let mut b = base.clone(); // id 2
            let mut a_dead = false;
            for step in 0..n {
                if !a_dead {
                    let r = catch(std::panic::AssertUnwindSafe(|| read_one(&mut a, oa[step])));
                    match r {
                        Ok(Ok(o)) => {
                            if o != expected[oa[step]] && ops.load(std::sync::atomic::Ordering::SeqCst) <= at {
                                return Err(format!("victim handle observes different data for entry {} before its reader has failed", oa[step]));
                            }
                        }
                        Ok(Err(_)) => {}
                        Err(_) => a_dead = true, // its reader panicked: the handle is abandoned, as a caller would
                    }
                }
                let i = ob[step];
                // every other round the sibling has had this entry open since before the victim's step: what
                // the open entry reports (data_start) and delivers must not be touched by the victim's failure
                if step % 2 == 1 {
                    let held = catch(std::panic::AssertUnwindSafe(|| -> Result<(), String> {
                        let mut f = b.by_index(i).map_err(|e| format!("open failed: {e}"))?;
                        let before = f.data_start();
                        if !a_dead {
                            let _ = catch(std::panic::AssertUnwindSafe(|| read_one(&mut a, i)));
                        }
                        let after = f.data_start();
                        let mut v = Vec::new();
                        f.read_to_end(&mut v).map_err(|e| format!("read failed: {e}"))?;
                        if before != expected[i].2 || after != expected[i].2 || v != expected[i].1 {
                            return Err(format!("data_start {before} before / {after} after the other clone worked on the same entry (a handle used alone reports {}), {} bytes read (alone: {})", expected[i].2, v.len(), expected[i].1.len()));
                        }
                        Ok(())
                    }));
                    match held {
                        Ok(Ok(())) => {}
                        Ok(Err(e)) => return Err(format!("sibling handle holding entry {i} ({:?}) open while the OTHER clone's reader {} (at its I/O call {at}): {e}", expected[i].0, if panic_kind { "panicked".to_string() } else { format!("failed with {}", ["an error of kind Other", "", "UnexpectedEof", "InvalidData", "TimedOut"][fkind as usize]) })),
                        Err(p) => return Err(format!("sibling handle PANICKED while holding entry {i} open: {p}")),
                    }
                }
                match catch(std::panic::AssertUnwindSafe(|| read_one(&mut b, i))) {
                    Ok(Ok(o)) if o == expected[i] => {}
                    Ok(Ok(o)) => return Err(format!("sibling handle observes {} bytes / data_start {} for entry {i} ({:?}), a handle used alone observes {} bytes / data_start {} (victim's reader {} at its I/O call {at})", o.1.len(), o.2, expected[i].0, expected[i].1.len(), expected[i].2, if panic_kind { "panicked".to_string() } else { format!("failed with {}", ["an error of kind Other", "", "UnexpectedEof", "InvalidData", "TimedOut"][fkind as usize]) })),
                    Ok(Err(e)) => return Err(format!("sibling handle: entry {i} ({:?}): {e}, although only the OTHER clone's reader {} (at its I/O call {at}); the entry opens and reads fine on a handle used alone", expected[i].0, if panic_kind { "panicked".to_string() } else { format!("failed with {}", ["an error of kind Other", "", "UnexpectedEof", "InvalidData", "TimedOut"][fkind as usize]) })),
                    Err(p) => return Err(format!("sibling handle PANICKED on entry {i} ({:?}): {p} - only the OTHER clone's reader {} (at its I/O call {at})", expected[i].0, if panic_kind { "panicked".to_string() } else { format!("failed with {}", ["an error of kind Other", "", "UnexpectedEof", "InvalidData", "TimedOut"][fkind as usize]) })),
                }
            }
            if ops.load(std::sync::atomic::Ordering::SeqCst) <= at {
                break; // the fault index lies beyond the victim's last I/O call: all indices done
            }
            at += 1;
            if at > 4000 {
                break;
            }
        }
        info.nontrivial = true;
    }
    Ok(())
}

fn probe_send_sync(ctx: &mut Ctx) {
    let root = ctx.root.clone();
    let t0 = std::time::Instant::now();
    let out = std::process::Command::new("cargo")
        .args(["build", "--offline", "--quiet"])
        .env("CARGO_TARGET_DIR", root.join("harness/target/probe"))
        .env("CARGO_NET_OFFLINE", "true")
        .current_dir(root.join("probes/c20_sendsync"))
        .output();
    match out {
        Ok(o) if o.status.success() => {
            ctx.count_bulk("send_sync_probe", 1, 0, vec![serde_json::json!("probes/c20_sendsync builds: ZipArchive<R>: Send + Sync for R: Send + Sync")], t0.elapsed().as_secs_f64());
        }
        Ok(o) => {
            let err = String::from_utf8_lossy(&o.stderr);
            if err.contains("Send") || err.contains("Sync") || err.contains("E0277") {
                let first = err.lines().filter(|l| l.contains("error") || l.contains("cannot be")).take(3).collect::<Vec<_>>().join(" | ");
                ctx.violation("send_sync_probe", serde_json::json!({"probe": "probes/c20_sendsync"}), format!("ZipArchive<R> is no longer Send + Sync for R: Send + Sync: {first}"));
            } else {
                ctx.harness_errors.push(format!("send/sync probe failed to build for another reason: {}", err.lines().take(5).collect::<Vec<_>>().join(" | ")));
            }
        }
        Err(e) => ctx.harness_errors.push(format!("cannot run cargo for the send/sync probe: {e}")),
    }
}

pub fn run(ctx: &mut Ctx) {
    ctx.rule("interleavings: 2-3 clones of one opened archive (pristine, or just used for the first k steps of a script; the underlying reader's clone() keeps the position, rewinds, or lands elsewhere), each with a generated script over {open entry by index / by name / raw / with the right, a wrong or an empty password, or a wrong one found to pass the one-byte header check of that ZipCrypto entry (plain and ZipCrypto entries), query the open entry's accessors again, read k bytes, read to end, close}; EVERY interleaving of the scripts at call granularity on one thread (up to 1680 per script set) - each handle must observe exactly what the same script observes on an archive used alone. threads: a fresh archive, N in {2,4,8,16} clones on N OS threads released from a barrier, each opening (by index or by name) and reading all entries in a generated order (shared prefix + private shuffle) with generated yield points; every observation equals that of a handle used alone. mode_pairs: for every entry of a fixed archive (plain / ZipCrypto x stored / deflated) EVERY pair of ways to open it (by index, by name, raw, with the right / a wrong / an empty / a header-check-passing wrong password) on two clones, each reading to the end (or reading it all and querying again), all interleavings. faulty_sibling: two clones of a fresh archive take turns; the first clone's OWN reader fails (I/O error of kind Other / UnexpectedEof / InvalidData / TimedOut, or a panic) at its k-th I/O call for every k - the second clone must observe exactly what a handle used alone observes. send_sync_probe: a probe crate that only compiles if ZipArchive<R>: Send + Sync for R: Send + Sync. Non-trivial = the interleaving switches handles while an entry is open on another handle.");
    ctx.assume("OS thread schedules are sampled, not enumerated (the single-thread interleaving enumeration is the deciding part); Send/Sync is a compile-time fact observed by a build probe");
    if ctx.is_run() {
        probe_send_sync(ctx);
    }
    if let Some(_c) = ctx.replay_case("send_sync_probe") {
        let mut tmp = Ctx::new("C20", ctx.tier, ctx.seed, ctx.level, crate::engine::Mode::Run);
        probe_send_sync(&mut tmp);
        ctx.replay_verdict = Some(if tmp.violations.is_empty() { Verdict::Pass } else { Verdict::Fail(tmp.violations[0].message.clone()) });
    }
    let n = ctx.q(1500, 8000);
    ctx.max_shrink_iters = 300;
    ctx.explore::<Case>(
        "interleavings",
        n,
        &|| {
            let small = || prop_oneof![0u8..6, any::<u8>()];
            let step = prop_oneof![3 => small().prop_map(Step::Open), 1 => small().prop_map(Step::OpenByName), 2 => (small(), 0u8..4).prop_map(|(i, w)| Step::OpenPw(i, w)), 1 => small().prop_map(Step::OpenRaw), 2 => Just(Step::Meta), 3 => prop_oneof![Just(1u16), Just(5), 1u16..200, Just(5000)].prop_map(Step::Read), 2 => Just(Step::ReadEnd), 1 => Just(Step::Close)];
            let script = |lo: usize, hi: usize| proptest::collection::vec(step.clone(), lo..=hi);
            (
                gen::program(5, 20000, false, true).prop_filter("has entries", |p| gen::entry_count(p) > 0).prop_map(gen::tame),
                prop_oneof![2 => (script(2, 4), script(2, 4)).prop_map(|(a, b)| vec![a, b]), 1 => (script(3, 3), script(3, 3), script(2, 3)).prop_map(|(a, b, c)| vec![a, b, c]), 1 => (script(4, 6), script(3, 5)).prop_map(|(a, b)| vec![a, b])],
            )
                .prop_map(|(program, scripts)| Case { program, scripts, clone_mode: 0, warm_up: None })
                .prop_flat_map(|c| (Just(c), 0u8..4, prop_oneof![2 => Just(None), 1 => (1u8..5).prop_map(Some)]).prop_map(|(mut c, m, w)| {
                    c.clone_mode = m;
                    c.warm_up = w;
                    c
                }))
                .boxed()
        },
        &|c: &Case, info: &mut Info| {
            info.label(if c.scripts.len() == 3 { "3-handles" } else { "2-handles" });
            info.label(["clone-keeps-position", "clone-rewinds", "clone-at-end", "clone-in-the-middle"][(c.clone_mode % 4) as usize]);
            info.label_if(c.warm_up.is_some(), "cloned-from-a-used-handle");
            info.label_if(gen::model(&c.program).0.iter().any(|m| m.password.is_some()), "has-encrypted-entries");
            info.label_if(c.scripts.iter().flatten().any(|s| matches!(s, Step::OpenPw(_, w) if w % 4 != 0)), "open-with-wrong-password");
            info.label_if(c.scripts.iter().flatten().any(|s| matches!(s, Step::Meta)), "accessors-queried-again");
            match catch(|| check(c, info)) {
                Ok(r) => Verdict::from_result(r),
                Err(p) => Verdict::Fail(format!("PANIC: {p}")),
            }
        },
    );
    // every pair of ways to open the same entry, one handle reading it completely, the other then (or
    // meanwhile) opening it its own way: state that one handle's complete read leaves behind for the others
    {
        use crate::refzip::Content;
        let mk = |m: gen::Method, pw: Option<&str>, name: &str, c: Content| {
            let mut o = gen::Opts::plain(m);
            o.password = pw.map(|s| s.to_string());
            gen::Op::File { name: name.into(), opts: o, chunks: vec![c] }
        };
        let program = Program {
            ops: vec![
                mk(gen::Method::Stored, None, "plain-stored", Content::Text { seed: 1, len: 300 }),
                mk(gen::Method::Stored, Some("secret"), "zc-stored", Content::Text { seed: 2, len: 400 }),
                mk(gen::Method::Deflated, Some("secret"), "zc-deflated", Content::Text { seed: 3, len: 900 }),
                mk(gen::Method::Deflated, None, "plain-deflated", Content::Text { seed: 4, len: 700 }),
                mk(gen::Method::Stored, Some("other"), "zc-stored-2", Content::Rand { seed: 5, len: 64 }),
            ],
        };
        let opens = |k: u8, i: u8| match k {
            0 => Step::Open(i),
            1 => Step::OpenByName(i),
            2 => Step::OpenRaw(i),
            w => Step::OpenPw(i, w - 3),
        };
        let total = 5u64 * 7 * 7 * 2;
        ctx.enumerate::<Case>(
            "mode_pairs",
            total,
            &|k| {
                let entry = (k % 5) as u8;
                let a = ((k / 5) % 7) as u8;
                let b = ((k / 35) % 7) as u8;
                let tail = if (k / 245) % 2 == 0 { vec![Step::ReadEnd] } else { vec![Step::Read(5000), Step::Read(1), Step::Meta] };
                let mut sa = vec![opens(a, entry)];
                sa.extend(tail.clone());
                let mut sb = vec![opens(b, entry)];
                sb.extend(tail);
                Case { program: program.clone(), scripts: vec![sa, sb], clone_mode: (k % 4) as u8, warm_up: None }
            },
            &|c: &Case, info: &mut Info| {
                info.label_if(c.scripts.iter().flatten().any(|s| matches!(s, Step::OpenPw(_, w) if w % 4 == 3)), "open-with-a-wrong-password-that-passes-the-header-check");
                match catch(|| check(c, info)) {
                    Ok(r) => Verdict::from_result(r),
                    Err(p) => Verdict::Fail(format!("PANIC: {p}")),
                }
            },
        );
    }
    let nf = ctx.q(150, 2000);
    ctx.explore::<FCase>(
        "faulty_sibling",
        nf,
        &|| (gen::program(5, 3000, false, false).prop_filter("has entries", |p| gen::entry_count(p) > 0).prop_map(gen::tame), any::<u64>(), any::<u64>(), any::<bool>()).prop_map(|(program, order_a, order_b, by_name)| FCase { program, order_a, order_b, by_name }).boxed(),
        &|c: &FCase, info: &mut Info| {
            info.label_if(c.by_name, "by_name");
            match catch(|| check_faulty_sibling(c, info)) {
                Ok(r) => Verdict::from_result(r),
                Err(p) => Verdict::Fail(format!("PANIC: {p}")),
            }
        },
    );
    ctx.extra.insert("faulty_sibling_fault_runs".into(), serde_json::json!(FAULT_RUNS.load(std::sync::atomic::Ordering::Relaxed)));
    ctx.extra.insert("interleavings_executed".into(), serde_json::json!(INTERLEAVINGS.load(std::sync::atomic::Ordering::Relaxed)));
    let nt = ctx.q(600, 10000);
    let saved = ctx.threads;
    ctx.threads = 2; // the cases spawn their own threads
    ctx.explore::<TCase>(
        "threads",
        nt,
        &|| {
            (
                prop_oneof![2 => gen::program(8, 3000, false, false), 1 => (300u32..3000).prop_map(|n| Program { ops: (0..n).map(|i| gen::Op::File { name: format!("t{i}"), opts: gen::Opts::plain(gen::Method::Stored), chunks: vec![crate::refzip::Content::Bytes(i.to_le_bytes().to_vec())] }).collect() })].prop_filter("has entries", |p| gen::entry_count(p) > 0).prop_map(gen::tame),
                prop_oneof![Just(2u8), Just(4), Just(8), Just(16)],
                proptest::collection::vec((any::<u64>(), prop_oneof![Just(0u8), Just(1), Just(2), any::<u8>()], any::<u32>()), 1..16),
                any::<bool>(),
            )
                .prop_map(|(program, threads, plans, by_name)| TCase { program, threads, plans, by_name })
                .boxed()
        },
        &|c: &TCase, info: &mut Info| {
            info.nontrivial = true;
            info.label(match c.threads {
                2 => "2-threads",
                4 => "4-threads",
                8 => "8-threads",
                _ => "16-threads",
            });
            info.label_if(c.by_name, "by_name");
            match catch(|| check_threads(c)) {
                Ok(r) => Verdict::from_result(r),
                Err(p) => Verdict::Fail(format!("PANIC: {p}")),
            }
        },
    );
    ctx.threads = saved;
    ctx.max_shrink_iters = 2048;
}
