//! Shared observation helpers: read an archive through the crate's seekable reader and compare
//! with a model.
use crate::gen::{Method, ModelEntry};
use crate::refzip::crypto;
use std::io::{Cursor, Read};
use zip::result::ZipError;
use zip::ZipArchive;

#[derive(Clone, Debug)]
pub struct Obs {
    pub name: String,
    pub name_raw: Vec<u8>,
    pub content: Result<Vec<u8>, String>,
    pub method_id: u16,
    pub dos: (u16, u16),
    pub mode: Option<u32>,
    pub size: u64,
    pub csize: u64,
    pub crc: u32,
    pub comment: String,
    pub extra: Vec<u8>,
    pub header_start: u64,
    pub data_start: u64,
    pub central_header_start: u64,
    pub is_dir: bool,
    pub raw_len: u64,
}

#[allow(deprecated)]
pub fn method_id(m: zip::CompressionMethod) -> u16 {
    m.to_u16()
}

/// Read `r` to the end with caller buffers cycling through `bufs` (0 = zero-length read, which
/// must return Ok(0) without ending the stream). After EOF, three more reads must return Ok(0).
pub fn read_with_bufs<R: Read>(r: &mut R, bufs: &[usize], cap: usize) -> Result<Vec<u8>, String> {
    let mut out = Vec::new();
    let mut i = 0usize;
    let mut scratch = vec![0u8; bufs.iter().copied().max().unwrap_or(4096).max(1)];
    loop {
        let want = if bufs.is_empty() { 4096 } else { bufs[i % bufs.len()] };
        i += 1;
        let n = r.read(&mut scratch[..want]).map_err(|e| format!("read error: {e}"))?;
        if want == 0 {
            if n != 0 {
                return Err("zero-length read returned non-zero".into());
            }
            if bufs.iter().all(|&b| b == 0) {
                return Err("harness: all-zero buffer schedule".into());
            }
            continue;
        }
        if n == 0 {
            break;
        }
        if n > want {
            return Err("read returned more than the buffer length".into());
        }
        out.extend_from_slice(&scratch[..n]);
        if out.len() > cap {
            return Err("output exceeds cap".into());
        }
    }
    for _ in 0..3 {
        match r.read(&mut scratch[..]) {
            Ok(0) => {}
            Ok(n) => return Err(format!("read after end-of-file returned {n} bytes")),
            Err(e) => return Err(format!("read after end-of-file failed: {e}")),
        }
    }
    Ok(out)
}

/// Names of the caller-side `Read` APIs `read_with_api` can finish an entry with.
pub const READ_APIS: [&str; 7] = ["read() loop", "read_to_end", "read_exact(size)+read_to_end", "io::copy", "read_vectored", "bytes()+read_to_end", "read_to_string"];

/// Like `read_with_bufs`, but a caller that mixes the `Read` entry points: the first `bufs.len()`
/// calls are plain `read()`s with the scheduled buffer sizes, then the rest of the entry is fetched through
/// the API selected by `api` (index into READ_APIS). `ErrorKind::Interrupted` from a plain read is retried,
/// as the `Read` contract asks (std's own read_to_end / read_exact / io::copy do the same internally).
/// `hint` = the entry's declared size (for read_exact).
pub fn read_with_api<R: Read>(r: &mut R, bufs: &[usize], cap: usize, api: u8, hint: u64) -> Result<Vec<u8>, String> {
    use std::io::ErrorKind::Interrupted;
    let api = api as usize % READ_APIS.len();
    let mut out = Vec::new();
    let mut scratch = vec![0u8; bufs.iter().copied().max().unwrap_or(4096).max(4096)];
    let mut eof = false;
    let mut i = 0usize;
    let mut retries = 0usize;
    let prefix_calls = if api == 0 { usize::MAX } else { bufs.len().max(1) };
    while i < prefix_calls {
        let want = if bufs.is_empty() { 4096 } else { bufs[i % bufs.len()] };
        let n = match r.read(&mut scratch[..want]) {
            Ok(n) => n,
            Err(e) if e.kind() == Interrupted && retries < 1_000_000 => {
                retries += 1;
                continue;
            }
            Err(e) => return Err(format!("read error: {e}")),
        };
        i += 1;
        if want == 0 {
            if n != 0 {
                return Err("zero-length read returned non-zero".into());
            }
            if api == 0 && bufs.iter().all(|&b| b == 0) {
                return Err("harness: all-zero buffer schedule".into());
            }
            continue;
        }
        if n == 0 {
            eof = true;
            break;
        }
        if n > want {
            return Err("read returned more than the buffer length".into());
        }
        out.extend_from_slice(&scratch[..n]);
        if out.len() > cap {
            return Err("output exceeds cap".into());
        }
    }
    if !eof {
        let before = out.len();
        match api {
            1 => {
                let n = r.read_to_end(&mut out).map_err(|e| format!("read error: {e}"))?;
                if n != out.len() - before {
                    return Err(format!("read_to_end reported {n} bytes but appended {}", out.len() - before));
                }
            }
            2 => {
                let want = (hint.saturating_sub(before as u64) as usize).min(cap);
                let mut b = vec![0u8; want];
                r.read_exact(&mut b).map_err(|e| format!("read error: {e}"))?;
                out.extend_from_slice(&b);
                let n = r.read_to_end(&mut out).map_err(|e| format!("read error: {e}"))?;
                if n != out.len() - before - want {
                    return Err(format!("read_to_end reported {n} bytes but appended {}", out.len() - before - want));
                }
            }
            3 => {
                let n = std::io::copy(r, &mut out).map_err(|e| format!("read error: {e}"))?;
                if n != (out.len() - before) as u64 {
                    return Err(format!("io::copy reported {n} bytes but delivered {}", out.len() - before));
                }
            }
            4 => loop {
                let (a, rest) = scratch.split_at_mut(3);
                let (b, c) = rest.split_at_mut(61);
                let total = a.len() + b.len() + c.len().min(500);
                let mut v = [std::io::IoSliceMut::new(a), std::io::IoSliceMut::new(b), std::io::IoSliceMut::new(&mut c[..500])];
                let n = match r.read_vectored(&mut v) {
                    Ok(n) => n,
                    Err(e) if e.kind() == Interrupted && retries < 1_000_000 => {
                        retries += 1;
                        continue;
                    }
                    Err(e) => return Err(format!("read error: {e}")),
                };
                if n == 0 {
                    break;
                }
                if n > total {
                    return Err("read_vectored returned more than the buffers hold".into());
                }
                out.extend_from_slice(&scratch[..n]);
                if out.len() > cap {
                    return Err("output exceeds cap".into());
                }
            },
            5 => {
                let mut k = 0;
                let mut ended = false;
                {
                    let mut it = r.by_ref().bytes();
                    while k < 300 {
                        match it.next() {
                            None => {
                                ended = true;
                                break;
                            }
                            Some(Ok(b)) => out.push(b),
                            Some(Err(e)) if e.kind() == Interrupted && retries < 1_000_000 => {
                                retries += 1;
                                continue;
                            }
                            Some(Err(e)) => return Err(format!("read error: {e}")),
                        }
                        k += 1;
                    }
                }
                if !ended {
                    r.read_to_end(&mut out).map_err(|e| format!("read error: {e}"))?;
                }
            }
            6 => {
                // read_to_string: succeeds exactly when the rest is valid UTF-8; otherwise InvalidData -
                // fall back to nothing (the case is then judged as a read error on both sides alike)
                let mut s = String::new();
                match r.read_to_string(&mut s) {
                    Ok(n) => {
                        if n != s.len() {
                            return Err(format!("read_to_string reported {n} bytes but appended {}", s.len()));
                        }
                        out.extend_from_slice(s.as_bytes());
                    }
                    Err(e) => return Err(format!("read error: {e}")),
                }
            }
            _ => unreachable!(),
        }
        if out.len() > cap {
            return Err("output exceeds cap".into());
        }
    }
    let mut k = 0;
    while k < 3 {
        match r.read(&mut scratch[..]) {
            Ok(0) => k += 1,
            Ok(n) => return Err(format!("read after end-of-file returned {n} bytes")),
            Err(e) if e.kind() == Interrupted && retries < 1_000_000 => retries += 1,
            Err(e) => return Err(format!("read after end-of-file failed: {e}")),
        }
    }
    Ok(out)
}

pub fn observe_file(f: &mut zip::read::ZipFile<'_>, bufs: &[usize]) -> Obs {
    let lm = f.last_modified();
    let mut o = Obs {
        name: f.name().to_string(),
        name_raw: f.name_raw().to_vec(),
        content: Ok(vec![]),
        method_id: method_id(f.compression()),
        dos: (lm.datepart(), lm.timepart()),
        mode: f.unix_mode(),
        size: f.size(),
        csize: f.compressed_size(),
        crc: f.crc32(),
        comment: f.comment().to_string(),
        extra: f.extra_data().to_vec(),
        header_start: f.header_start(),
        data_start: f.data_start(),
        central_header_start: f.central_header_start(),
        is_dir: f.is_dir(),
        raw_len: 0,
    };
    o.content = read_with_bufs(f, bufs, 1 << 30);
    o
}

pub struct ReadAll {
    pub entries: Vec<Obs>,
    pub comment: Vec<u8>,
    pub offset: u64,
}

/// Open with the seekable reader and observe every entry (password(i) for encrypted ones).
pub fn read_all(bytes: &[u8], password: &dyn Fn(usize) -> Option<Vec<u8>>, bufs: &[usize]) -> Result<ReadAll, String> {
    let mut za = ZipArchive::new(Cursor::new(bytes)).map_err(|e| format!("ZipArchive::new: {e}"))?;
    let mut entries = Vec::new();
    for i in 0..za.len() {
        let raw_len = {
            let mut rf = za.by_index_raw(i).map_err(|e| format!("by_index_raw({i}): {e}"))?;
            let mut v = Vec::new();
            rf.read_to_end(&mut v).map_err(|e| format!("raw read {i}: {e}"))?;
            v.len() as u64
        };
        let mut o = match password(i) {
            Some(pw) => match za.by_index_decrypt(i, &pw) {
                Ok(Ok(mut f)) => observe_file(&mut f, bufs),
                Ok(Err(_)) => return Err(format!("by_index_decrypt({i}): password rejected")),
                Err(e) => return Err(format!("by_index_decrypt({i}): {e}")),
            },
            None => {
                let mut f = za.by_index(i).map_err(|e| format!("by_index({i}): {e}"))?;
                observe_file(&mut f, bufs)
            }
        };
        o.raw_len = raw_len;
        entries.push(o);
    }
    Ok(ReadAll { entries, comment: za.comment().to_vec(), offset: za.offset() })
}

/// Compare reader observations with the writer model (C01's oracle).
pub fn compare_with_model(ra: &ReadAll, model: &[ModelEntry], comment: &[u8]) -> Result<(), String> {
    if ra.entries.len() != model.len() {
        return Err(format!("reader reports {} entries, model has {}", ra.entries.len(), model.len()));
    }
    if ra.comment != comment {
        return Err(format!("archive comment differs: got {} bytes, expected {}", ra.comment.len(), comment.len()));
    }
    for (i, (o, m)) in ra.entries.iter().zip(model.iter()).enumerate() {
        if o.name != m.name {
            return Err(format!("entry {i}: name {:?} != written {:?}", trunc(&o.name), trunc(&m.name)));
        }
        if o.name_raw != m.name.as_bytes() {
            return Err(format!("entry {i}: raw name bytes differ from the UTF-8 of the written name"));
        }
        match &o.content {
            Ok(c) if *c == m.content => {}
            Ok(c) => return Err(format!("entry {i} ({:?}): content differs (got {} bytes, expected {})", trunc(&m.name), c.len(), m.content.len())),
            Err(e) => return Err(format!("entry {i} ({:?}): {e}", trunc(&m.name))),
        }
        if o.method_id != m.method.id() {
            return Err(format!("entry {i}: method {} != {}", o.method_id, m.method.id()));
        }
        if o.dos != m.dos {
            return Err(format!("entry {i}: timestamp words {:04x?} != written {:04x?}", o.dos, m.dos));
        }
        if m.raw_copy {
            // a raw copy carries the permission bits (file-type bits are not part of the claim)
            if m.mode & 0o777 != 0 && o.mode.map(|x| x & 0o777) != Some(m.mode & 0o777) {
                return Err(format!("entry {i}: raw copy permission bits {:?} != source {:#o}", o.mode.map(|x| format!("{x:#o}")), m.mode & 0o777));
            }
        } else if o.mode != Some(m.mode) {
            return Err(format!("entry {i}: unix_mode {:?} != expected {:#o}", o.mode.map(|x| format!("{x:#o}")), m.mode));
        }
        if o.size != m.content.len() as u64 {
            return Err(format!("entry {i}: size() {} != {}", o.size, m.content.len()));
        }
        if o.crc != m.crc {
            return Err(format!("entry {i}: crc32() {:#010x} != independent CRC {:#010x}", o.crc, m.crc));
        }
        if o.csize != o.raw_len {
            return Err(format!("entry {i}: compressed_size() {} != length of raw data {}", o.csize, o.raw_len));
        }
        if m.method == Method::Stored && m.password.is_none() && o.csize != o.size {
            return Err(format!("entry {i}: stored entry with compressed size {} != size {}", o.csize, o.size));
        }
        if o.is_dir != (m.name.ends_with('/') || m.name.ends_with('\\')) {
            return Err(format!("entry {i}: is_dir() inconsistent with name"));
        }
    }
    Ok(())
}

pub fn trunc(s: &str) -> String {
    if s.chars().count() > 40 {
        format!("{}...({} bytes)", s.chars().take(40).collect::<String>(), s.len())
    } else {
        s.to_string()
    }
}

/// by_name must return the *last* entry carrying that name; absent names / bad indices => FileNotFound.
pub fn check_lookup(bytes: &[u8], names: &[String], contents: &[Vec<u8>], encrypted: &[bool]) -> Result<(), String> {
    let mut za = ZipArchive::new(Cursor::new(bytes)).map_err(|e| format!("ZipArchive::new: {e}"))?;
    let mut last: std::collections::HashMap<&str, usize> = std::collections::HashMap::new();
    for (i, n) in names.iter().enumerate() {
        last.insert(n.as_str(), i);
    }
    for (n, &i) in &last {
        if encrypted[i] {
            continue;
        }
        let mut f = za.by_name(n).map_err(|e| format!("by_name({:?}): {e}", trunc(n)))?;
        let mut v = Vec::new();
        f.read_to_end(&mut v).map_err(|e| format!("by_name({:?}) read: {e}", trunc(n)))?;
        if v != contents[i] {
            return Err(format!("by_name({:?}) did not return the last entry with that name (index {i})", trunc(n)));
        }
    }
    let absent = "\u{1}zv-absent-name\u{2}";
    if !last.contains_key(absent) {
        match za.by_name(absent) {
            Err(ZipError::FileNotFound) => {}
            Err(e) => return Err(format!("by_name(absent) -> {e} (expected FileNotFound)")),
            Ok(_) => return Err("by_name(absent) returned an entry".into()),
        }
    }
    for idx in [names.len(), names.len() + 1, usize::MAX] {
        match za.by_index(idx) {
            Err(ZipError::FileNotFound) => {}
            Err(e) => return Err(format!("by_index({idx}) -> {e} (expected FileNotFound)")),
            Ok(_) => return Err(format!("by_index({idx}) returned an entry")),
        }
        match za.by_index_raw(idx) {
            Err(ZipError::FileNotFound) => {}
            Err(e) => return Err(format!("by_index_raw({idx}) -> {e} (expected FileNotFound)")),
            Ok(_) => return Err(format!("by_index_raw({idx}) returned an entry")),
        }
    }
    let mut fn_seen: Vec<&str> = za.file_names().collect();
    fn_seen.sort();
    let mut expect: Vec<&str> = last.keys().copied().collect();
    expect.sort();
    if fn_seen != expect {
        return Err("file_names() is not the set of entry names".into());
    }
    Ok(())
}

pub fn crc(b: &[u8]) -> u32 {
    crypto::crc32(b)
}

/// Batch validation by CPython's zipfile and Info-ZIP `unzip -t` (external judges).
/// Returns per-archive verdict strings ("" = accepted).
pub fn external_judges(archives: &[(Vec<u8>, Option<String>)], tag: &str) -> Result<Vec<(String, String)>, String> {
    let dir = std::path::PathBuf::from(format!("/var/tmp/zv-ext-{}-{tag}", std::process::id()));
    let _ = std::fs::remove_dir_all(&dir);
    std::fs::create_dir_all(&dir).map_err(|e| e.to_string())?;
    let r = (|| -> Result<Vec<(String, String)>, String> {
        let mut list = String::new();
        for (i, (b, pw)) in archives.iter().enumerate() {
            let p = dir.join(format!("{i}.zip"));
            std::fs::write(&p, b).map_err(|e| e.to_string())?;
            list.push_str(&format!("{}\t{}\n", p.display(), pw.as_ref().map(|s| crate::util::hex(s.as_bytes())).unwrap_or_default()));
        }
        std::fs::write(dir.join("list.txt"), &list).map_err(|e| e.to_string())?;
        let root = std::env::var("ZV_ROOT").unwrap_or_else(|_| "/verif".into());
        let out = std::process::Command::new("python3")
            .arg(format!("{root}/py/zf_validate.py"))
            .arg(dir.join("list.txt"))
            .output()
            .map_err(|e| format!("python3: {e}"))?;
        if !out.status.success() {
            return Err(format!("zf_validate.py failed: {}", String::from_utf8_lossy(&out.stderr)));
        }
        let py: Vec<String> = String::from_utf8_lossy(&out.stdout).lines().map(|s| s.to_string()).collect();
        if py.len() != archives.len() {
            return Err(format!("zf_validate.py returned {} lines for {} archives", py.len(), archives.len()));
        }
        let mut res = Vec::new();
        for (i, (_, pw)) in archives.iter().enumerate() {
            let p = dir.join(format!("{i}.zip"));
            let mut c = std::process::Command::new("unzip");
            c.arg("-tqq");
            if let Some(pw) = pw {
                c.arg("-P").arg(pw);
            }
            let o = c.arg(&p).output().map_err(|e| format!("unzip: {e}"))?;
            let uz = if o.status.success() { String::new() } else { format!("exit {:?}: {}", o.status.code(), String::from_utf8_lossy(&o.stdout).lines().take(3).collect::<Vec<_>>().join(" / ")) };
            res.push((py[i].clone(), uz));
        }
        Ok(res)
    })();
    let _ = std::fs::remove_dir_all(&dir);
    r
}

/// Third producer: Info-ZIP `zip`. Writes the files into a scratch directory and archives them
/// with the given flags (e.g. -fd data descriptors, -fz forced ZIP64, -e -P pw, -0/-9, -Z bzip2).
pub fn infozip_archive(files: &[(String, Vec<u8>)], flags: &[String]) -> Result<Vec<u8>, String> {
    static SEQ: std::sync::atomic::AtomicU64 = std::sync::atomic::AtomicU64::new(0);
    let dir = std::path::PathBuf::from(format!("/var/tmp/zv-iz-{}-{}", std::process::id(), SEQ.fetch_add(1, std::sync::atomic::Ordering::Relaxed)));
    let _ = std::fs::remove_dir_all(&dir);
    std::fs::create_dir_all(dir.join("t")).map_err(|e| format!("harness: {e}"))?;
    let r = (|| -> Result<Vec<u8>, String> {
        for (n, c) in files {
            let p = dir.join("t").join(n);
            if let Some(par) = p.parent() {
                std::fs::create_dir_all(par).map_err(|e| format!("harness: {e}"))?;
            }
            std::fs::write(&p, c).map_err(|e| format!("harness: {e}"))?;
        }
        let mut cmd = std::process::Command::new("zip");
        cmd.current_dir(dir.join("t")).arg("-q").arg("-X");
        for f in flags {
            cmd.arg(f);
        }
        cmd.arg("../out.zip");
        for (n, _) in files {
            cmd.arg(n);
        }
        let o = cmd.output().map_err(|e| format!("harness: zip: {e}"))?;
        if !o.status.success() {
            return Err(format!("harness: zip {flags:?} on {:?} failed ({:?}): {} {}", files.iter().map(|f| (&f.0, f.1.len())).collect::<Vec<_>>(), o.status.code(), String::from_utf8_lossy(&o.stderr), String::from_utf8_lossy(&o.stdout)));
        }
        std::fs::read(dir.join("out.zip")).map_err(|e| format!("harness: {e}"))
    })();
    let _ = std::fs::remove_dir_all(&dir);
    r
}
