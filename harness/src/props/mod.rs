//! Property registry and replay plumbing.
use crate::engine::{Ctx, Mode, Tier, Verdict};

pub mod common;
pub mod c01;
pub mod c02;
pub mod c03;
pub mod c04;
pub mod c05;
pub mod c06;
pub mod c07;
pub mod c08;
pub mod c09;
pub mod c10;
pub mod c11;
pub mod c12;
pub mod c13;
pub mod c14;
pub mod c15;
pub mod c16;
pub mod c17;
pub mod c18;
pub mod c19;
pub mod c20;

pub struct Prop {
    pub id: &'static str,
    pub level: &'static str,
    pub run: fn(&mut Ctx),
}

pub fn all() -> Vec<Prop> {
    vec![
        Prop { id: "C01", level: "exploration", run: c01::run },
        Prop { id: "C02", level: "exploration", run: c02::run },
        Prop { id: "C03", level: "exploration", run: c03::run },
        Prop { id: "C04", level: "exploration", run: c04::run },
        Prop { id: "C05", level: "fault_enumeration", run: c05::run },
        Prop { id: "C06", level: "exploration", run: c06::run },
        Prop { id: "C07", level: "exploration", run: c07::run },
        Prop { id: "C08", level: "exploration", run: c08::run },
        Prop { id: "C09", level: "exploration", run: c09::run },
        Prop { id: "C10", level: "exploration", run: c10::run },
        Prop { id: "C11", level: "fault_enumeration", run: c11::run },
        Prop { id: "C12", level: "exploration", run: c12::run },
        Prop { id: "C13", level: "exploration", run: c13::run },
        Prop { id: "C14", level: "exploration", run: c14::run },
        Prop { id: "C15", level: "exploration", run: c15::run },
        Prop { id: "C16", level: "exploration", run: c16::run },
        Prop { id: "C17", level: "exploration", run: c17::run },
        Prop { id: "C18", level: "exploration", run: c18::run },
        Prop { id: "C19", level: "exploration", run: c19::run },
        Prop { id: "C20", level: "exploration", run: c20::run },
    ]
}

pub fn lookup(id: &str) -> Option<Prop> {
    all().into_iter().find(|p| p.id == id)
}

/// Re-judge one saved case. Returns (verdict, property id).
pub fn judge_file(path: &str) -> Result<(Verdict, String), String> {
    let data = std::fs::read(path).map_err(|e| format!("cannot read {path}: {e}"))?;
    let doc: serde_json::Value = serde_json::from_slice(&data).map_err(|e| format!("bad json: {e}"))?;
    let pid = doc["property"].as_str().ok_or("no property")?.to_string();
    let driver = doc["driver"].as_str().ok_or("no driver")?.to_string();
    let prop = lookup(&pid).ok_or("unknown property")?;
    let tier = if doc["tier"].as_str() == Some("thorough") { Tier::Thorough } else { Tier::Quick };
    let seed = doc["seed"].as_u64().unwrap_or(0);
    let mut ctx = Ctx::new(prop.id, tier, seed, prop.level, Mode::Replay { driver: driver.clone(), case: doc["case"].clone() });
    (prop.run)(&mut ctx);
    match ctx.replay_verdict.take() {
        Some(v) => Ok((v, pid)),
        None => Err(format!("driver {driver} not found in property {pid}")),
    }
}

pub fn replay_file(path: &str, print: bool) -> i32 {
    match judge_file(path) {
        Ok((Verdict::Pass, pid)) => {
            if print {
                println!("REPLAY property={pid} verdict=pass file={path}");
            }
            0
        }
        Ok((Verdict::Known(k, m), pid)) => {
            if print {
                println!("REPLAY property={pid} verdict=known-finding key={k} {m}");
            }
            0
        }
        Ok((Verdict::Fail(m), pid)) => {
            if print {
                println!("VIOLATION property={pid} replay={path}");
                println!("  message={}", m.replace('\n', " "));
            }
            1
        }
        Err(e) => {
            eprintln!("replay error: {e}");
            2
        }
    }
}

/// For each open known finding of this property that names a replay file: re-run it and print the
/// KNOWN-FINDING line while it still reproduces (a finding that stopped reproducing prints nothing;
/// one that now fails differently is reported by the normal search).
pub fn replay_known(prop: &Prop, _tier: Tier, _seed: u64) -> Vec<String> {
    let mut printed = Vec::new();
    let root = std::path::PathBuf::from(std::env::var("ZV_ROOT").unwrap_or_else(|_| "/verif".into()));
    for k in crate::engine::load_known(&root) {
        if k.property != prop.id {
            continue;
        }
        let Some(rp) = &k.replay else { continue };
        let p = if rp.starts_with('/') { rp.clone() } else { root.join(rp).display().to_string() };
        match judge_file(&p) {
            Ok((Verdict::Known(key, m), _)) if key == k.key => {
                println!("KNOWN-FINDING: property={} key={} {} [stored replay {} still reproduces: {}]", prop.id, k.key, k.text, rp, m);
                printed.push(k.key.clone());
            }
            Ok((Verdict::Pass, _)) => {
                eprintln!("[{}] note: stored known-finding replay {} no longer reproduces", prop.id, rp);
            }
            Ok((Verdict::Known(key, _), _)) => {
                eprintln!("[{}] note: stored replay {} now matches a different signature {}", prop.id, rp, key);
            }
            Ok((Verdict::Fail(m), _)) => {
                // the stored input now fails in a way that is not the listed signature
                println!("VIOLATION property={} replay={}", prop.id, p);
                println!("  message=stored known-finding input fails with an unlisted signature: {}", m.replace('\n', " "));
                std::process::exit(1);
            }
            Err(e) => eprintln!("[{}] note: cannot replay {}: {e}", prop.id, rp),
        }
    }
    printed
}

/// Regression tier: saved (shrunk) failing inputs of repaired findings are re-judged on every run;
/// a failure here means the defect has returned. Returns the number of failing files.
pub fn replay_regressions(prop: &Prop) -> (usize, usize) {
    let root = std::path::PathBuf::from(std::env::var("ZV_ROOT").unwrap_or_else(|_| "/verif".into()));
    let dir = root.join("regress").join(prop.id);
    let mut files: Vec<_> = std::fs::read_dir(&dir).map(|rd| rd.flatten().map(|e| e.path()).filter(|p| p.extension().map(|x| x == "json").unwrap_or(false)).collect()).unwrap_or_default();
    files.sort();
    let mut bad = 0;
    let n = files.len();
    for f in files {
        let p = f.display().to_string();
        match judge_file(&p) {
            Ok((Verdict::Fail(m), _)) => {
                println!("VIOLATION property={} replay={}", prop.id, p);
                println!("  message=regression input fails again: {}", m.replace('\n', " "));
                bad += 1;
            }
            Ok(_) => {}
            Err(e) => eprintln!("[{}] note: cannot replay regression file {p}: {e}", prop.id),
        }
    }
    (n, bad)
}

pub fn selftest() -> i32 {
    let mut bad = 0;
    for (name, r) in crate::refzip::selftest() {
        match r {
            Ok(()) => println!("selftest {name}: ok"),
            Err(e) => {
                println!("selftest {name}: FAILED {e}");
                bad += 1;
            }
        }
    }
    if bad == 0 {
        0
    } else {
        2
    }
}
