//! Independent archive producer written from APPNOTE 6.3.x. Every layout freedom is explicit in
//! the spec so that generated "foreign" archives cover what other producers may legally emit.
use super::codec;
use super::content::Content;
use super::crypto;
use serde::{Deserialize, Serialize};

#[derive(Clone, Copy, Debug, Serialize, Deserialize, Hash, PartialEq, Eq)]
pub enum Desc {
    None,
    Sig32,
    NoSig32,
    Sig64,
    NoSig64,
}

#[derive(Clone, Debug, Serialize, Deserialize, Hash, PartialEq, Eq)]
pub enum Enc {
    None,
    /// PKWARE traditional; `header` = 11 random bytes; check byte = CRC high byte, or the time high
    /// byte when `time_check` (Info-ZIP variant, used together with a data descriptor)
    ZipCrypto {
        #[serde(with = "crate::util::hexbytes")]
        password: Vec<u8>,
        #[serde(with = "crate::util::hexbytes")]
        header: Vec<u8>,
        time_check: bool,
    },
    /// WinZip AE-1 / AE-2; strength 1..=3
    Aes {
        #[serde(with = "crate::util::hexbytes")]
        password: Vec<u8>,
        #[serde(with = "crate::util::hexbytes")]
        salt_seed: Vec<u8>,
        strength: u8,
        ae2: bool,
    },
}

#[derive(Clone, Debug, Serialize, Deserialize, Hash, PartialEq, Eq)]
pub struct Extra {
    pub id: u16,
    #[serde(with = "crate::util::hexbytes")]
    pub data: Vec<u8>,
}

#[derive(Clone, Debug, Serialize, Deserialize, Hash, PartialEq, Eq)]
pub struct EntrySpec {
    #[serde(with = "crate::util::hexbytes")]
    pub name: Vec<u8>,
    /// local header name if it differs from the central one (same length not required)
    pub local_name: Option<String>,
    pub utf8: bool,
    pub method: u16,
    pub level: Option<i32>,
    pub content: Content,
    /// explicit payload bytes (for methods without a codec here); content still defines crc/size
    pub raw_payload: Option<Content>,
    pub dos_time: u16,
    pub dos_date: u16,
    pub made_by: u16,
    pub version_needed: u16,
    pub external_attr: u32,
    pub internal_attr: u16,
    #[serde(with = "crate::util::hexbytes")]
    pub comment: Vec<u8>,
    pub central_extra_before: Vec<Extra>,
    pub central_extra_after: Vec<Extra>,
    pub local_extra: Vec<Extra>,
    /// force (uncompressed size, compressed size, header offset) into the central ZIP64 record
    pub zip64: [bool; 3],
    /// local header carries 0xFFFFFFFF sizes + ZIP64 record with both sizes
    pub local_zip64: bool,
    pub desc: Desc,
    pub enc: Enc,
    #[serde(with = "crate::util::hexbytes")]
    pub gap_before: Vec<u8>,
    /// extra general-purpose flag bits (e.g. deflate option bits 1,2)
    pub flags_extra: u16,
    /// what the local header of a data-descriptor entry says about CRC and sizes: 0 = zeros (the usual
    /// layout), 1 = with `local_zip64`: 0xFFFFFFFF in the 32-bit size fields and zeros in the ZIP64 record
    /// (CPython force_zip64 on an unseekable sink, Info-ZIP `zip -fz -`), 2 = the real values although
    /// bit 3 is set and a descriptor follows (some producers set bit 3 on every entry)
    #[serde(default)]
    pub desc_mode: u8,
    /// method 93 only: the payload is this many concatenated Zstandard frames (0/1 = one frame) - the format
    /// allows it, chunking / parallel compressors and flush-per-frame writers emit it
    #[serde(default)]
    pub zstd_frames: u8,
}

impl EntrySpec {
    pub fn simple(name: &[u8], method: u16, content: Content) -> EntrySpec {
        EntrySpec {
            name: name.to_vec(),
            local_name: None,
            utf8: !name.is_ascii(),
            method,
            level: None,
            content,
            raw_payload: None,
            dos_time: 0x54CF,
            dos_date: 0x4D71,
            made_by: (3 << 8) | 30,
            version_needed: 20,
            external_attr: 0o100644 << 16,
            internal_attr: 0,
            comment: vec![],
            central_extra_before: vec![],
            central_extra_after: vec![],
            local_extra: vec![],
            zip64: [false; 3],
            local_zip64: false,
            desc: Desc::None,
            enc: Enc::None,
            gap_before: vec![],
            flags_extra: 0,
            desc_mode: 0,
            zstd_frames: 0,
        }
    }
    pub fn encrypted(&self) -> bool {
        !matches!(self.enc, Enc::None)
    }
}

#[derive(Clone, Debug, Serialize, Deserialize, Hash, PartialEq, Eq)]
pub struct ArchiveSpec {
    pub entries: Vec<EntrySpec>,
    /// central directory order as indices into `entries` (None = physical order)
    pub central_order: Option<Vec<usize>>,
    pub prefix: Content,
    #[serde(with = "crate::util::hexbytes")]
    pub comment: Vec<u8>,
    #[serde(with = "crate::util::hexbytes")]
    pub trailing: Vec<u8>,
    /// Some(mask): emit ZIP64 end record + locator; mask = which of (count, cd size, cd offset)
    /// are replaced by the sentinel in the classic end record
    pub zip64_end: Option<[bool; 3]>,
    #[serde(with = "crate::util::hexbytes")]
    pub gap_before_cd: Vec<u8>,
    /// "zip64 extensible data sector" (APPNOTE 4.3.14) appended to the ZIP64 end record; the record's
    /// size field then is 44 + its length
    #[serde(default, with = "crate::util::hexbytes")]
    pub zip64_ext: Vec<u8>,
}

impl ArchiveSpec {
    pub fn plain(entries: Vec<EntrySpec>) -> ArchiveSpec {
        ArchiveSpec {
            entries,
            central_order: None,
            prefix: Content::Bytes(vec![]),
            comment: vec![],
            trailing: vec![],
            zip64_end: None,
            zip64_ext: Vec::new(),
            gap_before_cd: vec![],
        }
    }
    pub fn order(&self) -> Vec<usize> {
        match &self.central_order {
            Some(o) if o.len() == self.entries.len() => o.clone(),
            _ => (0..self.entries.len()).collect(),
        }
    }
}

#[derive(Clone, Debug)]
pub struct Field {
    pub off: usize,
    pub width: usize,
    pub name: &'static str,
    pub entry: Option<usize>,
}

#[derive(Clone, Debug, Default)]
pub struct BuiltEntry {
    pub header_start: u64,
    pub data_start: u64,
    pub csize: u64,
    pub usize_: u64,
    pub crc: u32,
    pub central_header_start: u64,
    pub central_extra: Vec<u8>,
    pub flags: u16,
    /// crc value stored in the headers (0 under AE-2)
    pub stored_crc: u32,
    pub stored_method: u16,
}

#[derive(Clone, Debug, Default)]
pub struct Built {
    pub bytes: Vec<u8>,
    /// per spec entry (physical order); offsets are absolute positions in `bytes`
    pub entries: Vec<BuiltEntry>,
    pub cd_start: u64,
    pub cd_size: u64,
    pub eocd_pos: u64,
    pub prefix_len: u64,
    pub fields: Vec<Field>,
}

struct W {
    b: Vec<u8>,
    fields: Vec<Field>,
    cur: Option<usize>,
}
impl W {
    fn u16(&mut self, v: u16, name: &'static str) {
        self.fields.push(Field { off: self.b.len(), width: 2, name, entry: self.cur });
        self.b.extend_from_slice(&v.to_le_bytes());
    }
    fn u32(&mut self, v: u32, name: &'static str) {
        self.fields.push(Field { off: self.b.len(), width: 4, name, entry: self.cur });
        self.b.extend_from_slice(&v.to_le_bytes());
    }
    fn u64(&mut self, v: u64, name: &'static str) {
        self.fields.push(Field { off: self.b.len(), width: 8, name, entry: self.cur });
        self.b.extend_from_slice(&v.to_le_bytes());
    }
    fn raw(&mut self, v: &[u8]) {
        self.b.extend_from_slice(v);
    }
}

fn extras(list: &[Extra]) -> Vec<u8> {
    let mut v = Vec::new();
    for e in list {
        v.extend_from_slice(&e.id.to_le_bytes());
        v.extend_from_slice(&(e.data.len() as u16).to_le_bytes());
        v.extend_from_slice(&e.data);
    }
    v
}

fn aes_extra(ae2: bool, strength: u8, method: u16) -> Extra {
    let mut d = Vec::new();
    d.extend_from_slice(&(if ae2 { 2u16 } else { 1u16 }).to_le_bytes());
    d.extend_from_slice(b"AE");
    d.push(strength);
    d.extend_from_slice(&method.to_le_bytes());
    Extra { id: 0x9901, data: d }
}

pub fn salt_from_seed(seed: &[u8], strength: u8) -> Vec<u8> {
    let n = match strength {
        1 => 8,
        2 => 12,
        _ => 16,
    };
    let mut s = vec![0u8; n];
    let mut g = crate::util::Sm(crate::util::hash_of(seed));
    g.fill(&mut s);
    for (i, b) in seed.iter().enumerate().take(n) {
        s[i] ^= *b;
    }
    s
}

pub fn build(spec: &ArchiveSpec) -> Result<Built, String> {
    let mut w = W { b: Vec::new(), fields: Vec::new(), cur: None };
    let prefix = spec.prefix.expand();
    w.raw(&prefix);
    let base = prefix.len() as u64;
    let mut out = Built { prefix_len: base, ..Default::default() };
    let mut central_parts: Vec<(u16, u16, u16, u32, u64, u64, u64)> = Vec::new(); // flags, method, _, crc, csize, usize, rel offset

    for (i, e) in spec.entries.iter().enumerate() {
        w.cur = Some(i);
        w.raw(&e.gap_before);
        let plain = e.content.expand();
        let crc = crypto::crc32(&plain);
        let usize_ = plain.len() as u64;
        let compressed = match &e.raw_payload {
            Some(p) => p.expand(),
            None if e.method == 93 && e.zstd_frames > 1 && plain.len() >= e.zstd_frames as usize => {
                let k = e.zstd_frames as usize;
                let mut out = Vec::new();
                for j in 0..k {
                    out.extend_from_slice(&codec::compress(93, e.level, &plain[j * plain.len() / k..(j + 1) * plain.len() / k])?);
                }
                out
            }
            None => codec::compress(e.method, e.level, &plain)?,
        };
        let mut flags = e.flags_extra;
        if e.utf8 {
            flags |= 1 << 11;
        }
        if e.desc != Desc::None {
            flags |= 1 << 3;
        }
        let mut stored_method = e.method;
        let mut stored_crc = crc;
        let mut local_extra = e.local_extra.clone();
        let mut central_extra_after = e.central_extra_after.clone();
        let payload = match &e.enc {
            Enc::None => compressed,
            Enc::ZipCrypto { password, header, time_check } => {
                flags |= 1;
                let mut buf = Vec::with_capacity(12 + compressed.len());
                let mut h = header.clone();
                h.resize(11, 0x5a);
                buf.extend_from_slice(&h);
                buf.push(if *time_check { (e.dos_time >> 8) as u8 } else { (crc >> 24) as u8 });
                buf.extend_from_slice(&compressed);
                crypto::PkKeys::new(password).encrypt(&mut buf);
                buf
            }
            Enc::Aes { password, salt_seed, strength, ae2 } => {
                flags |= 1;
                stored_method = 99;
                if *ae2 {
                    stored_crc = 0;
                }
                let x = aes_extra(*ae2, *strength, e.method);
                local_extra.push(x.clone());
                central_extra_after.push(x);
                let salt = salt_from_seed(salt_seed, *strength);
                crypto::winzip_encrypt(password, &salt, *strength, &compressed)
            }
        };
        let csize = payload.len() as u64;
        let header_start = w.b.len() as u64;
        let lname: Vec<u8> = e.local_name.as_ref().map(|s| s.as_bytes().to_vec()).unwrap_or_else(|| e.name.clone());
        // ---- local header
        w.u32(0x04034b50, "l_sig");
        w.u16(e.version_needed, "l_version");
        w.u16(flags, "l_flags");
        w.u16(stored_method, "l_method");
        w.u16(e.dos_time, "l_time");
        w.u16(e.dos_date, "l_date");
        let (lcrc, lcs, lus) = if e.desc != Desc::None && e.desc_mode == 1 && e.local_zip64 {
            (0u32, 0xFFFFFFFF, 0xFFFFFFFF)
        } else if e.desc != Desc::None && e.desc_mode != 2 {
            (0u32, 0u32, 0u32)
        } else if e.local_zip64 {
            (stored_crc, 0xFFFFFFFF, 0xFFFFFFFF)
        } else {
            (stored_crc, csize as u32, usize_ as u32)
        };
        w.u32(lcrc, "l_crc");
        w.u32(lcs, "l_csize");
        w.u32(lus, "l_usize");
        let mut lx = Vec::new();
        if e.local_zip64 {
            lx.extend_from_slice(&1u16.to_le_bytes());
            lx.extend_from_slice(&16u16.to_le_bytes());
            let (a, b) = if e.desc != Desc::None && e.desc_mode != 2 { (0u64, 0u64) } else { (usize_, csize) };
            lx.extend_from_slice(&a.to_le_bytes());
            lx.extend_from_slice(&b.to_le_bytes());
        }
        lx.extend_from_slice(&extras(&local_extra));
        if lname.len() > 65535 || lx.len() > 65535 {
            return Err("spec not representable: local name/extra too long".into());
        }
        w.u16(lname.len() as u16, "l_namelen");
        w.u16(lx.len() as u16, "l_extralen");
        w.raw(&lname);
        w.raw(&lx);
        let data_start = w.b.len() as u64;
        w.raw(&payload);
        match e.desc {
            Desc::None => {}
            Desc::Sig32 | Desc::NoSig32 => {
                if e.desc == Desc::Sig32 {
                    w.u32(0x08074b50, "d_sig");
                }
                w.u32(stored_crc, "d_crc");
                w.u32(csize as u32, "d_csize");
                w.u32(usize_ as u32, "d_usize");
            }
            Desc::Sig64 | Desc::NoSig64 => {
                if e.desc == Desc::Sig64 {
                    w.u32(0x08074b50, "d_sig");
                }
                w.u32(stored_crc, "d_crc");
                w.u64(csize, "d_csize64");
                w.u64(usize_, "d_usize64");
            }
        }
        out.entries.push(BuiltEntry {
            header_start,
            data_start,
            csize,
            usize_,
            crc,
            central_header_start: 0,
            central_extra: Vec::new(),
            flags,
            stored_crc,
            stored_method,
        });
        central_parts.push((flags, stored_method, 0, stored_crc, csize, usize_, header_start - base));
        // stash per-entry adjusted extras for the central pass
        let _ = central_extra_after;
    }
    w.cur = None;
    w.raw(&spec.gap_before_cd);
    let cd_start = w.b.len() as u64;
    for &i in &spec.order() {
        let e = &spec.entries[i];
        w.cur = Some(i);
        let (flags, stored_method, _, stored_crc, csize, usize_, rel) = central_parts[i];
        out.entries[i].central_header_start = w.b.len() as u64;
        let mut z = Vec::new();
        let zu = e.zip64[0] || usize_ > 0xFFFFFFFE;
        let zc = e.zip64[1] || csize > 0xFFFFFFFE;
        let zo = e.zip64[2] || rel > 0xFFFFFFFE;
        if zu {
            z.extend_from_slice(&usize_.to_le_bytes());
        }
        if zc {
            z.extend_from_slice(&csize.to_le_bytes());
        }
        if zo {
            z.extend_from_slice(&rel.to_le_bytes());
        }
        let mut cx = extras(&e.central_extra_before);
        let z64_off_in_extra = cx.len();
        if !z.is_empty() {
            cx.extend_from_slice(&1u16.to_le_bytes());
            cx.extend_from_slice(&(z.len() as u16).to_le_bytes());
            cx.extend_from_slice(&z);
        }
        let mut after = e.central_extra_after.clone();
        if let Enc::Aes { strength, ae2, .. } = &e.enc {
            after.push(aes_extra(*ae2, *strength, e.method));
        }
        cx.extend_from_slice(&extras(&after));
        if e.name.len() > 65535 || cx.len() > 65535 || e.comment.len() > 65535 {
            return Err("spec not representable: central name/extra/comment too long".into());
        }
        w.u32(0x02014b50, "c_sig");
        w.u16(e.made_by, "c_madeby");
        w.u16(e.version_needed, "c_version");
        w.u16(flags, "c_flags");
        w.u16(stored_method, "c_method");
        w.u16(e.dos_time, "c_time");
        w.u16(e.dos_date, "c_date");
        w.u32(stored_crc, "c_crc");
        w.u32(if zc { 0xFFFFFFFF } else { csize as u32 }, "c_csize");
        w.u32(if zu { 0xFFFFFFFF } else { usize_ as u32 }, "c_usize");
        w.u16(e.name.len() as u16, "c_namelen");
        w.u16(cx.len() as u16, "c_extralen");
        w.u16(e.comment.len() as u16, "c_commentlen");
        w.u16(0, "c_disk");
        w.u16(e.internal_attr, "c_intattr");
        w.u32(e.external_attr, "c_extattr");
        w.u32(if zo { 0xFFFFFFFF } else { rel as u32 }, "c_offset");
        w.raw(&e.name);
        let xstart = w.b.len();
        w.raw(&cx);
        if !z.is_empty() {
            // expose the zip64 values as mutable fields
            let mut p = xstart + z64_off_in_extra;
            w.fields.push(Field { off: p, width: 2, name: "c_z64_id", entry: Some(i) });
            w.fields.push(Field { off: p + 2, width: 2, name: "c_z64_len", entry: Some(i) });
            p += 4;
            for _ in 0..z.len() / 8 {
                w.fields.push(Field { off: p, width: 8, name: "c_z64_val", entry: Some(i) });
                p += 8;
            }
        }
        w.raw(&e.comment);
        out.entries[i].central_extra = cx;
    }
    w.cur = None;
    let cd_end = w.b.len() as u64;
    let cd_size = cd_end - cd_start;
    let n = spec.entries.len() as u64;
    // exactly 65535 entries (or a value of exactly 0xFFFFFFFF) in a classic end record is what CPython and
    // this crate's writer emit; ZIP64 end records appear from 65536 on, or when the spec asks for them
    let need64 = n > 0xFFFF || cd_size > 0xFFFFFFFF || (cd_start - base) > 0xFFFFFFFF;
    let mask = match spec.zip64_end {
        Some(m) => Some(m),
        None if need64 => Some([false; 3]),
        None => None,
    };
    if let Some(_m) = mask {
        w.u32(0x06064b50, "z_sig");
        w.u64(44 + spec.zip64_ext.len() as u64, "z_size");
        w.u16(45, "z_madeby");
        w.u16(45, "z_version");
        w.u32(0, "z_disk");
        w.u32(0, "z_cddisk");
        w.u64(n, "z_count_disk");
        w.u64(n, "z_count");
        w.u64(cd_size, "z_cdsize");
        w.u64(cd_start - base, "z_cdoffset");
        w.raw(&spec.zip64_ext);
        w.u32(0x07064b50, "zl_sig");
        w.u32(0, "zl_disk");
        w.u64(cd_end - base, "zl_offset");
        w.u32(1, "zl_disks");
    }
    let m = mask.unwrap_or([false; 3]);
    let eocd_pos = w.b.len() as u64;
    w.u32(0x06054b50, "e_sig");
    w.u16(0, "e_disk");
    w.u16(0, "e_cddisk");
    let cnt16 = if m[0] || n > 0xFFFF { 0xFFFF } else { n as u16 };
    w.u16(cnt16, "e_count_disk");
    w.u16(cnt16, "e_count");
    w.u32(if m[1] || cd_size > 0xFFFFFFFF { 0xFFFFFFFF } else { cd_size as u32 }, "e_cdsize");
    w.u32(if m[2] || (cd_start - base) > 0xFFFFFFFF { 0xFFFFFFFF } else { (cd_start - base) as u32 }, "e_cdoffset");
    if spec.comment.len() > 65535 {
        return Err("spec not representable: comment too long".into());
    }
    w.u16(spec.comment.len() as u16, "e_commentlen");
    w.raw(&spec.comment);
    w.raw(&spec.trailing);
    out.cd_start = cd_start;
    out.cd_size = cd_size;
    out.eocd_pos = eocd_pos;
    out.bytes = w.b;
    out.fields = w.fields;
    Ok(out)
}
