//! Third-party codecs called directly (trusted); the target is the crate's logic around them.
use std::io::{Read, Write};

pub fn compress(method: u16, level: Option<i32>, data: &[u8]) -> Result<Vec<u8>, String> {
    match method {
        0 => Ok(data.to_vec()),
        8 => {
            let lvl = level.map(|l| l.clamp(0, 9) as u32).unwrap_or(6);
            let mut e = flate2::write::DeflateEncoder::new(Vec::new(), flate2::Compression::new(lvl));
            e.write_all(data).map_err(|e| e.to_string())?;
            e.finish().map_err(|e| e.to_string())
        }
        12 => {
            let lvl = level.map(|l| l.clamp(1, 9) as u32).unwrap_or(6);
            let mut e = bzip2::write::BzEncoder::new(Vec::new(), bzip2::Compression::new(lvl));
            e.write_all(data).map_err(|e| e.to_string())?;
            e.finish().map_err(|e| e.to_string())
        }
        93 => zstd::stream::encode_all(data, level.unwrap_or(3)).map_err(|e| e.to_string()),
        m => Err(format!("no codec for method {m}")),
    }
}

pub fn decompress(method: u16, data: &[u8], limit: usize) -> Result<Vec<u8>, String> {
    let mut out = Vec::new();
    match method {
        0 => out.extend_from_slice(data),
        8 => {
            let mut d = flate2::read::DeflateDecoder::new(data);
            (&mut d).take(limit as u64 + 1).read_to_end(&mut out).map_err(|e| format!("deflate: {e}"))?;
            if (d.total_in() as usize) != data.len() {
                return Err(format!("deflate stream ends after {} of {} bytes", d.total_in(), data.len()));
            }
        }
        12 => {
            let mut d = bzip2::read::BzDecoder::new(data);
            (&mut d).take(limit as u64 + 1).read_to_end(&mut out).map_err(|e| format!("bzip2: {e}"))?;
        }
        93 => {
            let mut d = zstd::stream::read::Decoder::new(data).map_err(|e| format!("zstd: {e}"))?;
            (&mut d).take(limit as u64 + 1).read_to_end(&mut out).map_err(|e| format!("zstd: {e}"))?;
        }
        m => return Err(format!("no codec for method {m}")),
    }
    if out.len() > limit {
        return Err("decoded data exceeds limit".into());
    }
    Ok(out)
}
