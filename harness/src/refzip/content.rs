//! Compact, serialisable description of entry contents (keeps cases and replay files small).
use crate::util::Sm;
use serde::{Deserialize, Serialize};

#[derive(Clone, Debug, Serialize, Deserialize, Hash, PartialEq, Eq)]
pub enum Content {
    /// literal bytes (hex in replay files)
    Bytes(#[serde(with = "crate::util::hexbytes")] Vec<u8>),
    /// `len` copies of `byte`
    Rep { byte: u8, len: u32 },
    /// pseudo-random (incompressible) bytes from `seed`
    Rand { seed: u64, len: u32 },
    /// compressible text-like bytes from `seed`
    Text { seed: u64, len: u32 },
}

impl Content {
    pub fn len(&self) -> usize {
        match self {
            Content::Bytes(b) => b.len(),
            Content::Rep { len, .. } | Content::Rand { len, .. } | Content::Text { len, .. } => *len as usize,
        }
    }
    pub fn is_empty(&self) -> bool {
        self.len() == 0
    }
    pub fn expand(&self) -> Vec<u8> {
        match self {
            Content::Bytes(b) => b.clone(),
            Content::Rep { byte, len } => vec![*byte; *len as usize],
            Content::Rand { seed, len } => {
                let mut v = vec![0u8; *len as usize];
                Sm(*seed).fill(&mut v);
                v
            }
            Content::Text { seed, len } => {
                const WORDS: [&str; 16] = [
                    "the ", "zip ", "archive ", "entry ", "PK", "header ", "central ", "directory\n", "0123456789", "lorem ", "ipsum ", "data ",
                    "\u{e9}t\u{e9} ", "\t", "AAAAAAAAAAAAAAAA", "end. ",
                ];
                let mut g = Sm(*seed);
                let mut v = Vec::with_capacity(*len as usize + 16);
                while v.len() < *len as usize {
                    v.extend_from_slice(WORDS[(g.next() & 15) as usize].as_bytes());
                }
                v.truncate(*len as usize);
                v
            }
        }
    }
}

use proptest::prelude::*;
/// Strategy for contents up to `max` bytes, weighted towards small.
pub fn content(max: u32) -> BoxedStrategy<Content> {
    let m = max.max(1);
    prop_oneof![
        2 => Just(Content::Bytes(vec![])),
        2 => any::<u8>().prop_map(|b| Content::Bytes(vec![b])),
        4 => proptest::collection::vec(any::<u8>(), 0..64usize.min(m as usize + 1)).prop_map(Content::Bytes),
        3 => (any::<u64>(), 0..=m.min(4096)).prop_map(|(seed, len)| Content::Rand { seed, len }),
        3 => (any::<u64>(), 0..=m.min(4096)).prop_map(|(seed, len)| Content::Text { seed, len }),
        2 => (any::<u8>(), 0..=m).prop_map(|(byte, len)| Content::Rep { byte, len }),
        2 => (any::<u64>(), 0..=m).prop_map(|(seed, len)| Content::Text { seed, len }),
        1 => (any::<u64>(), 0..=m).prop_map(|(seed, len)| Content::Rand { seed, len }),
    ]
    .boxed()
}
/// non-empty contents
pub fn content_nonempty(max: u32) -> BoxedStrategy<Content> {
    let m = max.max(2);
    prop_oneof![
        2 => any::<u8>().prop_map(|b| Content::Bytes(vec![b])),
        4 => proptest::collection::vec(any::<u8>(), 1..64usize.min(m as usize)).prop_map(Content::Bytes),
        3 => (any::<u64>(), 1..=m.min(4096)).prop_map(|(seed, len)| Content::Rand { seed, len }),
        3 => (any::<u64>(), 1..=m).prop_map(|(seed, len)| Content::Text { seed, len }),
        1 => (any::<u8>(), 1..=m).prop_map(|(byte, len)| Content::Rep { byte, len }),
    ]
    .boxed()
}
