//! Compact, serialisable description of entry contents (keeps cases and replay files small).
use crate::util::Sm;
use serde::{Deserialize, Serialize};

#[derive(Clone, Debug, Serialize, Deserialize, Hash, PartialEq, Eq)]
pub enum Content {
    /// literal bytes (hex in replay files)
    Bytes(#[serde(with = "crate::util::hexbytes")] Vec<u8>),
    /// `len` copies of `byte`
    Rep { byte: u8, len: u32 },
    /// pseudo-random (incompressible) bytes from `seed`
    Rand { seed: u64, len: u32 },
    /// compressible text-like bytes from `seed`
    Text { seed: u64, len: u32 },
    /// `len` pseudo-random bytes followed by four bytes chosen so that the CRC-32 of the whole is `crc`
    /// (checksums that coincide with 0, all-ones or a record signature)
    Forged { seed: u64, len: u32, crc: u32 },
}

impl Content {
    pub fn len(&self) -> usize {
        match self {
            Content::Bytes(b) => b.len(),
            Content::Rep { len, .. } | Content::Rand { len, .. } | Content::Text { len, .. } => *len as usize,
            Content::Forged { len, .. } => *len as usize + 4,
        }
    }
    pub fn is_empty(&self) -> bool {
        self.len() == 0
    }
    pub fn expand(&self) -> Vec<u8> {
        match self {
            Content::Bytes(b) => b.clone(),
            Content::Rep { byte, len } => vec![*byte; *len as usize],
            Content::Rand { seed, len } => {
                let mut v = vec![0u8; *len as usize];
                Sm(*seed).fill(&mut v);
                v
            }
            Content::Forged { seed, len, crc } => {
                let mut v = vec![0u8; *len as usize];
                Sm(*seed).fill(&mut v);
                if seed % 2 == 0 {
                    // compressible variant
                    for b in v.iter_mut() {
                        *b = b'a' + (*b % 3);
                    }
                }
                let sfx = super::crypto::crc32_forge_suffix(&v, *crc);
                v.extend_from_slice(&sfx);
                v
            }
            Content::Text { seed, len } => {
                const WORDS: [&str; 16] = [
                    "the ", "zip ", "archive ", "entry ", "PK", "header ", "central ", "directory\n", "0123456789", "lorem ", "ipsum ", "data ",
                    "\u{e9}t\u{e9} ", "\t", "AAAAAAAAAAAAAAAA", "end. ",
                ];
                let mut g = Sm(*seed);
                let mut v = Vec::with_capacity(*len as usize + 16);
                while v.len() < *len as usize {
                    v.extend_from_slice(WORDS[(g.next() & 15) as usize].as_bytes());
                }
                v.truncate(*len as usize);
                v
            }
        }
    }
}

use proptest::prelude::*;
/// Strategy for contents up to `max` bytes, weighted towards small.
pub fn content(max: u32) -> BoxedStrategy<Content> {
    let m = max.max(1);
    prop_oneof![
        2 => Just(Content::Bytes(vec![])),
        2 => any::<u8>().prop_map(|b| Content::Bytes(vec![b])),
        4 => proptest::collection::vec(any::<u8>(), 0..64usize.min(m as usize + 1)).prop_map(Content::Bytes),
        3 => (any::<u64>(), 0..=m.min(4096)).prop_map(|(seed, len)| Content::Rand { seed, len }),
        3 => (any::<u64>(), 0..=m.min(4096)).prop_map(|(seed, len)| Content::Text { seed, len }),
        2 => (any::<u8>(), 0..=m).prop_map(|(byte, len)| Content::Rep { byte, len }),
        2 => (any::<u64>(), 0..=m).prop_map(|(seed, len)| Content::Text { seed, len }),
        1 => (any::<u64>(), 0..=m).prop_map(|(seed, len)| Content::Rand { seed, len }),
        // checksums that coincide with special values
        1 => (any::<u64>(), 0..=m.min(3000), proptest::sample::select(vec![0u32, 0xFFFF_FFFF, 0x0403_4b50, 0x0807_4b50, 0x0201_4b50, 0x0605_4b50, 1, 0x8000_0000])).prop_map(|(seed, len, crc)| Content::Forged { seed, len, crc }),
        // lengths at and around the sizes of internal buffers (copy loops, codec windows, cipher blocks)
        2 => (any::<u64>(), proptest::sample::select(BOUNDARY_LENS.to_vec()), 0u8..3).prop_map(move |(seed, len, k)| {
            let len = len.min(m);
            match k {
                0 => Content::Rand { seed, len },
                1 => Content::Text { seed, len },
                _ => Content::Rep { byte: seed as u8, len },
            }
        }),
    ]
    .boxed()
}
/// exact multiples of common buffer sizes and their neighbours
pub const BOUNDARY_LENS: [u32; 24] = [15, 16, 17, 127, 128, 129, 4095, 4096, 4097, 8191, 8192, 8193, 16384, 32767, 32768, 32769, 65535, 65536, 65537, 131071, 131072, 131073, 262144, 1048576];
/// non-empty contents
pub fn content_nonempty(max: u32) -> BoxedStrategy<Content> {
    let m = max.max(2);
    prop_oneof![
        2 => any::<u8>().prop_map(|b| Content::Bytes(vec![b])),
        4 => proptest::collection::vec(any::<u8>(), 1..64usize.min(m as usize)).prop_map(Content::Bytes),
        3 => (any::<u64>(), 1..=m.min(4096)).prop_map(|(seed, len)| Content::Rand { seed, len }),
        3 => (any::<u64>(), 1..=m).prop_map(|(seed, len)| Content::Text { seed, len }),
        1 => (any::<u8>(), 1..=m).prop_map(|(byte, len)| Content::Rep { byte, len }),
    ]
    .boxed()
}
