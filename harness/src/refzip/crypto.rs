//! Independent primitives: CRC-32, PKWARE stream cipher, AES (forward cipher) + WinZip little-endian
//! CTR, SHA-1, HMAC-SHA1, PBKDF2. Written from the specifications (FIPS-197, FIPS-180, RFC 2104,
//! RFC 2898, APPNOTE 6.1, WinZip AE-x); they link none of the crates the zip crate uses for the
//! same jobs.

// ---------------------------------------------------------------- CRC-32 (IEEE, reflected)
pub fn crc_table() -> &'static [u32; 256] {
    static T: std::sync::OnceLock<[u32; 256]> = std::sync::OnceLock::new();
    T.get_or_init(|| {
        let mut t = [0u32; 256];
        for (i, e) in t.iter_mut().enumerate() {
            let mut c = i as u32;
            for _ in 0..8 {
                c = if c & 1 != 0 { 0xEDB88320 ^ (c >> 1) } else { c >> 1 };
            }
            *e = c;
        }
        t
    })
}

pub fn crc32_update(mut crc: u32, data: &[u8]) -> u32 {
    let t = crc_table();
    crc = !crc;
    for &b in data {
        crc = t[((crc ^ b as u32) & 0xff) as usize] ^ (crc >> 8);
    }
    !crc
}
pub fn crc32(data: &[u8]) -> u32 {
    crc32_update(0, data)
}

/// Four bytes which, appended to `data`, make the CRC-32 of the whole equal `target` (the CRC register
/// is run backwards through the table; used to generate contents whose checksum is a chosen value).
pub fn crc32_forge_suffix(data: &[u8], target: u32) -> [u8; 4] {
    let t = crc_table();
    let reg_before = !crc32(data);
    let mut d = !target;
    for _ in 0..4 {
        let j = (0..256usize).find(|&j| (t[j] >> 24) == (d >> 24)).expect("top bytes of the CRC table are a permutation");
        d = ((d ^ t[j]) << 8) | j as u32;
    }
    (d ^ reg_before).to_le_bytes()
}

// GF(2) matrix helpers for crc32_combine (zlib's algorithm, re-derived)
fn gf2_times(mat: &[u32; 32], mut vec: u32) -> u32 {
    let mut sum = 0;
    let mut i = 0;
    while vec != 0 {
        if vec & 1 != 0 {
            sum ^= mat[i];
        }
        vec >>= 1;
        i += 1;
    }
    sum
}
fn gf2_square(sq: &mut [u32; 32], mat: &[u32; 32]) {
    for n in 0..32 {
        sq[n] = gf2_times(mat, mat[n]);
    }
}
/// crc of A||B from crc(A), crc(B), len(B)
pub fn crc32_combine(mut crc1: u32, crc2: u32, mut len2: u64) -> u32 {
    if len2 == 0 {
        return crc1;
    }
    let mut even = [0u32; 32];
    let mut odd = [0u32; 32];
    odd[0] = 0xEDB88320;
    let mut row = 1u32;
    for o in odd.iter_mut().skip(1) {
        *o = row;
        row <<= 1;
    }
    gf2_square(&mut even, &odd);
    gf2_square(&mut odd, &even);
    loop {
        gf2_square(&mut even, &odd);
        if len2 & 1 != 0 {
            crc1 = gf2_times(&even, crc1);
        }
        len2 >>= 1;
        if len2 == 0 {
            break;
        }
        gf2_square(&mut odd, &even);
        if len2 & 1 != 0 {
            crc1 = gf2_times(&odd, crc1);
        }
        len2 >>= 1;
        if len2 == 0 {
            break;
        }
    }
    crc1 ^ crc2
}

// ---------------------------------------------------------------- PKWARE traditional encryption
#[derive(Clone)]
pub struct PkKeys(pub u32, pub u32, pub u32);
impl PkKeys {
    pub fn new(password: &[u8]) -> PkKeys {
        let mut k = PkKeys(305419896, 591751049, 878082192);
        for &b in password {
            k.update(b);
        }
        k
    }
    fn crc1(c: u32, b: u8) -> u32 {
        crc_table()[((c ^ b as u32) & 0xff) as usize] ^ (c >> 8)
    }
    pub fn update(&mut self, p: u8) {
        self.0 = Self::crc1(self.0, p);
        self.1 = self.1.wrapping_add(self.0 & 0xff);
        self.1 = self.1.wrapping_mul(134775813).wrapping_add(1);
        self.2 = Self::crc1(self.2, (self.1 >> 24) as u8);
    }
    pub fn stream(&self) -> u8 {
        let t = (self.2 | 2) & 0xffff;
        ((t.wrapping_mul(t ^ 1)) >> 8) as u8
    }
    pub fn encrypt(&mut self, data: &mut [u8]) {
        for b in data {
            let p = *b;
            *b = p ^ self.stream();
            self.update(p);
        }
    }
    pub fn decrypt(&mut self, data: &mut [u8]) {
        for b in data {
            let p = *b ^ self.stream();
            self.update(p);
            *b = p;
        }
    }
}

// ---------------------------------------------------------------- SHA-1
pub fn sha1(data: &[u8]) -> [u8; 20] {
    let mut h: [u32; 5] = [0x67452301, 0xEFCDAB89, 0x98BADCFE, 0x10325476, 0xC3D2E1F0];
    let mut msg = data.to_vec();
    let bitlen = (data.len() as u64) * 8;
    msg.push(0x80);
    while msg.len() % 64 != 56 {
        msg.push(0);
    }
    msg.extend_from_slice(&bitlen.to_be_bytes());
    for block in msg.chunks(64) {
        let mut w = [0u32; 80];
        for i in 0..16 {
            w[i] = u32::from_be_bytes(block[i * 4..i * 4 + 4].try_into().unwrap());
        }
        for i in 16..80 {
            w[i] = (w[i - 3] ^ w[i - 8] ^ w[i - 14] ^ w[i - 16]).rotate_left(1);
        }
        let (mut a, mut b, mut c, mut d, mut e) = (h[0], h[1], h[2], h[3], h[4]);
        for (i, wi) in w.iter().enumerate() {
            let (f, k) = match i {
                0..=19 => ((b & c) | (!b & d), 0x5A827999),
                20..=39 => (b ^ c ^ d, 0x6ED9EBA1),
                40..=59 => ((b & c) | (b & d) | (c & d), 0x8F1BBCDC),
                _ => (b ^ c ^ d, 0xCA62C1D6u32),
            };
            let t = a.rotate_left(5).wrapping_add(f).wrapping_add(e).wrapping_add(k).wrapping_add(*wi);
            e = d;
            d = c;
            c = b.rotate_left(30);
            b = a;
            a = t;
        }
        h[0] = h[0].wrapping_add(a);
        h[1] = h[1].wrapping_add(b);
        h[2] = h[2].wrapping_add(c);
        h[3] = h[3].wrapping_add(d);
        h[4] = h[4].wrapping_add(e);
    }
    let mut out = [0u8; 20];
    for i in 0..5 {
        out[i * 4..i * 4 + 4].copy_from_slice(&h[i].to_be_bytes());
    }
    out
}

pub fn hmac_sha1(key: &[u8], data: &[u8]) -> [u8; 20] {
    let mut k = [0u8; 64];
    if key.len() > 64 {
        k[..20].copy_from_slice(&sha1(key));
    } else {
        k[..key.len()].copy_from_slice(key);
    }
    let mut inner = Vec::with_capacity(64 + data.len());
    inner.extend(k.iter().map(|b| b ^ 0x36));
    inner.extend_from_slice(data);
    let ih = sha1(&inner);
    let mut outer = Vec::with_capacity(84);
    outer.extend(k.iter().map(|b| b ^ 0x5c));
    outer.extend_from_slice(&ih);
    sha1(&outer)
}

pub fn pbkdf2_sha1(password: &[u8], salt: &[u8], iters: u32, out_len: usize) -> Vec<u8> {
    let mut out = Vec::with_capacity(out_len + 20);
    let mut block = 1u32;
    while out.len() < out_len {
        let mut s = salt.to_vec();
        s.extend_from_slice(&block.to_be_bytes());
        let mut u = hmac_sha1(password, &s);
        let mut t = u;
        for _ in 1..iters {
            u = hmac_sha1(password, &u);
            for i in 0..20 {
                t[i] ^= u[i];
            }
        }
        out.extend_from_slice(&t);
        block += 1;
    }
    out.truncate(out_len);
    out
}

// ---------------------------------------------------------------- AES (encryption direction only)
fn sbox() -> &'static [u8; 256] {
    static S: std::sync::OnceLock<[u8; 256]> = std::sync::OnceLock::new();
    S.get_or_init(|| {
        // multiplicative inverse via log tables with generator 3, then affine transform
        let mut exp = [0u8; 256];
        let mut log = [0u8; 256];
        let mut x = 1u8;
        for i in 0..255 {
            exp[i] = x;
            log[x as usize] = i as u8;
            // multiply by 3
            let x2 = (x << 1) ^ if x & 0x80 != 0 { 0x1b } else { 0 };
            x = x2 ^ x;
        }
        let mut s = [0u8; 256];
        for i in 0..256usize {
            let inv = if i == 0 { 0 } else { exp[(255 - log[i] as usize) % 255] };
            let mut r = inv;
            let mut y = inv;
            for _ in 0..4 {
                y = y.rotate_left(1);
                r ^= y;
            }
            s[i] = r ^ 0x63;
        }
        s
    })
}
fn xtime(b: u8) -> u8 {
    (b << 1) ^ if b & 0x80 != 0 { 0x1b } else { 0 }
}

pub struct Aes {
    round_keys: Vec<[u8; 16]>,
}
impl Aes {
    pub fn new(key: &[u8]) -> Aes {
        let nk = key.len() / 4;
        assert!(nk == 4 || nk == 6 || nk == 8);
        let nr = nk + 6;
        let s = sbox();
        let mut w: Vec<[u8; 4]> = Vec::with_capacity(4 * (nr + 1));
        for i in 0..nk {
            w.push([key[4 * i], key[4 * i + 1], key[4 * i + 2], key[4 * i + 3]]);
        }
        let mut rcon = 1u8;
        for i in nk..4 * (nr + 1) {
            let mut t = w[i - 1];
            if i % nk == 0 {
                t = [s[t[1] as usize] ^ rcon, s[t[2] as usize], s[t[3] as usize], s[t[0] as usize]];
                rcon = xtime(rcon);
            } else if nk > 6 && i % nk == 4 {
                t = [s[t[0] as usize], s[t[1] as usize], s[t[2] as usize], s[t[3] as usize]];
            }
            let p = w[i - nk];
            w.push([p[0] ^ t[0], p[1] ^ t[1], p[2] ^ t[2], p[3] ^ t[3]]);
        }
        let mut round_keys = Vec::new();
        for r in 0..=nr {
            let mut k = [0u8; 16];
            for c in 0..4 {
                k[4 * c..4 * c + 4].copy_from_slice(&w[4 * r + c]);
            }
            round_keys.push(k);
        }
        Aes { round_keys }
    }
    pub fn encrypt_block(&self, block: &mut [u8; 16]) {
        let s = sbox();
        let nr = self.round_keys.len() - 1;
        for i in 0..16 {
            block[i] ^= self.round_keys[0][i];
        }
        for r in 1..=nr {
            // SubBytes
            for b in block.iter_mut() {
                *b = s[*b as usize];
            }
            // ShiftRows (state is column-major: byte index = 4*col + row)
            let old = *block;
            for c in 0..4 {
                for row in 0..4 {
                    block[4 * c + row] = old[4 * ((c + row) % 4) + row];
                }
            }
            // MixColumns
            if r != nr {
                for c in 0..4 {
                    let a = [block[4 * c], block[4 * c + 1], block[4 * c + 2], block[4 * c + 3]];
                    let t = a[0] ^ a[1] ^ a[2] ^ a[3];
                    block[4 * c] = a[0] ^ t ^ xtime(a[0] ^ a[1]);
                    block[4 * c + 1] = a[1] ^ t ^ xtime(a[1] ^ a[2]);
                    block[4 * c + 2] = a[2] ^ t ^ xtime(a[2] ^ a[3]);
                    block[4 * c + 3] = a[3] ^ t ^ xtime(a[3] ^ a[0]);
                }
            }
            for i in 0..16 {
                block[i] ^= self.round_keys[r][i];
            }
        }
    }
    /// WinZip AES CTR: 128-bit little-endian counter starting at 1, no nonce.
    pub fn ctr_winzip(&self, data: &mut [u8]) {
        let mut counter: u128 = 1;
        for chunk in data.chunks_mut(16) {
            let mut ks = counter.to_le_bytes();
            self.encrypt_block(&mut ks);
            for (d, k) in chunk.iter_mut().zip(ks.iter()) {
                *d ^= *k;
            }
            counter = counter.wrapping_add(1);
        }
    }
}

/// WinZip AE-x encryption of `plain` (already compressed payload). strength: 1=128,2=192,3=256.
/// Returns salt || verifier(2) || ciphertext || mac(10).
pub fn winzip_encrypt(password: &[u8], salt: &[u8], strength: u8, plain: &[u8]) -> Vec<u8> {
    let klen = match strength {
        1 => 16,
        2 => 24,
        _ => 32,
    };
    assert_eq!(salt.len(), klen / 2);
    let dk = pbkdf2_sha1(password, salt, 1000, 2 * klen + 2);
    let aes = Aes::new(&dk[..klen]);
    let mut ct = plain.to_vec();
    aes.ctr_winzip(&mut ct);
    let mac = hmac_sha1(&dk[klen..2 * klen], &ct);
    let mut out = salt.to_vec();
    out.extend_from_slice(&dk[2 * klen..2 * klen + 2]);
    out.extend_from_slice(&ct);
    out.extend_from_slice(&mac[..10]);
    out
}

pub fn selftest() -> Result<(), String> {
    // CRC-32 check value
    if crc32(b"123456789") != 0xCBF43926 {
        return Err("crc32 check value".into());
    }
    let a = b"hello, ";
    let b = b"world of zip";
    let mut ab = a.to_vec();
    ab.extend_from_slice(b);
    if crc32_combine(crc32(a), crc32(b), b.len() as u64) != crc32(&ab) {
        return Err("crc32_combine".into());
    }
    // SHA-1 (FIPS 180 examples)
    if crate::util::hex(&sha1(b"abc")) != "a9993e364706816aba3e25717850c26c9cd0d89d" {
        return Err("sha1 abc".into());
    }
    if crate::util::hex(&sha1(b"abcdbcdecdefdefgefghfghighijhijkijkljklmklmnlmnomnopnopq")) != "84983e441c3bd26ebaae4aa1f95129e5e54670f1" {
        return Err("sha1 448".into());
    }
    // HMAC-SHA1 RFC 2202 #1, #2, #6
    if crate::util::hex(&hmac_sha1(&[0x0b; 20], b"Hi There")) != "b617318655057264e28bc0b6fb378c8ef146be00" {
        return Err("hmac 1".into());
    }
    if crate::util::hex(&hmac_sha1(b"Jefe", b"what do ya want for nothing?")) != "effcdf6ae5eb2fa2d27416d5f184df9c259a7c79" {
        return Err("hmac 2".into());
    }
    if crate::util::hex(&hmac_sha1(&[0xaa; 80], b"Test Using Larger Than Block-Size Key - Hash Key First")) != "aa4ae5e15272d00e95705637ce8a3b55ed402112" {
        return Err("hmac 6".into());
    }
    // PBKDF2 RFC 6070
    if crate::util::hex(&pbkdf2_sha1(b"password", b"salt", 1, 20)) != "0c60c80f961f0e71f3a9b524af6012062fe037a6" {
        return Err("pbkdf2 c=1".into());
    }
    if crate::util::hex(&pbkdf2_sha1(b"password", b"salt", 2, 20)) != "ea6c014dc72d6f8ccd1ed92ace1d41f0d8de8957" {
        return Err("pbkdf2 c=2".into());
    }
    if crate::util::hex(&pbkdf2_sha1(b"passwordPASSWORDpassword", b"saltSALTsaltSALTsaltSALTsaltSALTsalt", 4096, 25)) != "3d2eec4fe41c849b80c8d83662c0e44a8b291a964cf2f07038" {
        return Err("pbkdf2 long".into());
    }
    // AES FIPS-197 appendix C
    let pt = crate::util::unhex("00112233445566778899aabbccddeeff").unwrap();
    for (key, ct) in [
        ("000102030405060708090a0b0c0d0e0f", "69c4e0d86a7b0430d8cdb78070b4c55a"),
        ("000102030405060708090a0b0c0d0e0f1011121314151617", "dda97ca4864cdfe06eaf70a0ec0d7191"),
        ("000102030405060708090a0b0c0d0e0f101112131415161718191a1b1c1d1e1f", "8ea2b7ca516745bfeafc49904b496089"),
    ] {
        let aes = Aes::new(&crate::util::unhex(key).unwrap());
        let mut b: [u8; 16] = pt.clone().try_into().unwrap();
        aes.encrypt_block(&mut b);
        if crate::util::hex(&b) != ct {
            return Err(format!("aes {} -> {}", key.len() * 4, crate::util::hex(&b)));
        }
    }
    // PKWARE cipher: encrypt/decrypt inverse + known first stream byte behaviour
    let mut k = PkKeys::new(b"password");
    let mut d = b"The quick brown fox".to_vec();
    k.encrypt(&mut d);
    let mut k2 = PkKeys::new(b"password");
    k2.decrypt(&mut d);
    if d != b"The quick brown fox" {
        return Err("pk roundtrip".into());
    }
    Ok(())
}
