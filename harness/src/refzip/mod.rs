//! Independent reference implementations (share no code with the crate under test).
pub fn selftest() -> Vec<(&'static str, Result<(), String>)> {
    vec![]
}
