//! Independent *strict* ZIP parser (APPNOTE 6.3.x). Returns the full structure or the first rule
//! broken. Used as the judge of archives the crate's writer emits, and (lenient mode) to read
//! foreign / appended archives for model comparison.
use super::codec;
use super::crypto;

pub trait Src {
    fn size(&self) -> u64;
    /// exactly `len` bytes at `off` or an error
    fn at(&self, off: u64, len: usize) -> Result<Vec<u8>, String>;
}
impl Src for [u8] {
    fn size(&self) -> u64 {
        self.len() as u64
    }
    fn at(&self, off: u64, len: usize) -> Result<Vec<u8>, String> {
        let end = off.checked_add(len as u64).ok_or("offset overflow")?;
        if end > self.len() as u64 {
            return Err(format!("read of {len} bytes at {off} runs past the end ({})", self.len()));
        }
        Ok(self[off as usize..end as usize].to_vec())
    }
}
impl Src for Vec<u8> {
    fn size(&self) -> u64 {
        self.as_slice().size()
    }
    fn at(&self, off: u64, len: usize) -> Result<Vec<u8>, String> {
        self.as_slice().at(off, len)
    }
}

#[derive(Clone, Debug, Default)]
pub struct PEntry {
    pub name: Vec<u8>,
    pub flags: u16,
    pub method: u16,
    pub time: u16,
    pub date: u16,
    pub crc: u32,
    pub csize: u64,
    pub usize_: u64,
    pub header_start: u64,
    pub data_start: u64,
    pub central_header_start: u64,
    pub made_by: u16,
    pub version_needed: u16,
    pub local_version_needed: u16,
    pub internal_attr: u16,
    pub external_attr: u32,
    pub comment: Vec<u8>,
    pub central_extra: Vec<u8>,
    pub local_extra: Vec<u8>,
    pub central_has_zip64: bool,
    pub local_has_zip64: bool,
    pub local_name: Vec<u8>,
    pub local_flags: u16,
    /// decoded content (when decoding was requested and possible)
    pub content: Option<Vec<u8>>,
    pub descriptor_len: u64,
}

#[derive(Clone, Debug, Default)]
pub struct Parsed {
    pub entries: Vec<PEntry>,
    pub comment: Vec<u8>,
    pub cd_start: u64,
    pub cd_size: u64,
    pub eocd_pos: u64,
    pub zip64: bool,
    pub base: u64,
    pub eocd_count: u16,
}

#[derive(Clone, Copy, Debug)]
pub struct Opts {
    /// foreign / appended archives: allow gaps between records, a non-zero base, descriptors,
    /// stale records, free UTF-8 flag
    pub lenient: bool,
    /// the first local header need not be at offset 0 (writer started at a non-zero position)
    pub allow_leading_gap: bool,
    /// decompress unencrypted supported entries up to this size and verify CRC and size
    pub decode_limit: u64,
    /// allow bytes after the end record (trailing garbage)
    pub allow_trailing: bool,
}
impl Opts {
    pub fn strict() -> Opts {
        Opts { lenient: false, allow_leading_gap: false, decode_limit: 64 << 20, allow_trailing: false }
    }
    pub fn lenient() -> Opts {
        Opts { lenient: true, allow_leading_gap: true, decode_limit: 64 << 20, allow_trailing: true }
    }
}

fn u16at(b: &[u8], o: usize) -> u16 {
    u16::from_le_bytes([b[o], b[o + 1]])
}
fn u32at(b: &[u8], o: usize) -> u32 {
    u32::from_le_bytes([b[o], b[o + 1], b[o + 2], b[o + 3]])
}
fn u64at(b: &[u8], o: usize) -> u64 {
    u64::from_le_bytes(b[o..o + 8].try_into().unwrap())
}

/// Split an extra field into (id, data) records; error if not a well-formed TLV sequence.
pub fn tlv(extra: &[u8]) -> Result<Vec<(u16, Vec<u8>)>, String> {
    let mut out = Vec::new();
    let mut p = 0;
    while p < extra.len() {
        if extra.len() - p < 4 {
            return Err(format!("extra field: {} stray bytes at the end", extra.len() - p));
        }
        let id = u16at(extra, p);
        let len = u16at(extra, p + 2) as usize;
        if p + 4 + len > extra.len() {
            return Err(format!("extra field: record {id:#06x} of length {len} overruns the field"));
        }
        out.push((id, extra[p + 4..p + 4 + len].to_vec()));
        p += 4 + len;
    }
    Ok(out)
}

pub fn parse<S: Src + ?Sized>(src: &S, o: Opts) -> Result<Parsed, String> {
    let len = src.size();
    if len < 22 {
        return Err("shorter than an end-of-central-directory record".into());
    }
    // ---- end record: last position p with signature and p+22+commentlen == len (strict),
    //      or <= len when trailing bytes are allowed
    let tail_len = len.min(22 + 65535 + if o.allow_trailing { 65536 } else { 0 }) as usize;
    let tail_off = len - tail_len as u64;
    let tail = src.at(tail_off, tail_len)?;
    let mut eocd = None;
    let mut p = tail_len - 22;
    loop {
        if tail[p..p + 4] == [0x50, 0x4b, 0x05, 0x06] {
            let cl = u16at(&tail, p + 20) as usize;
            let end = p + 22 + cl;
            if end == tail_len || (o.allow_trailing && end <= tail_len) {
                eocd = Some(p);
                break;
            }
        }
        if p == 0 {
            break;
        }
        p -= 1;
    }
    let p = eocd.ok_or("no end-of-central-directory record whose comment length fits the file end")?;
    let eocd_pos = tail_off + p as u64;
    let e = &tail[p..];
    let (disk, cddisk, cnt_disk, cnt, cdsize32, cdoff32, clen) =
        (u16at(e, 4), u16at(e, 6), u16at(e, 8), u16at(e, 10), u32at(e, 12), u32at(e, 16), u16at(e, 20) as usize);
    let comment = e[22..22 + clen].to_vec();
    if cnt_disk != cnt {
        return Err(format!("end record: entries on this disk {cnt_disk} != total {cnt}"));
    }
    // ---- ZIP64 locator + record
    let mut zip64 = false;
    let (mut count, mut cd_size, mut cd_off) = (cnt as u64, cdsize32 as u64, cdoff32 as u64);
    let mut records_start = eocd_pos;
    let mut base_from_z64: Option<u64> = None;
    if eocd_pos >= 20 {
        let l = src.at(eocd_pos - 20, 20)?;
        if l[0..4] == [0x50, 0x4b, 0x06, 0x07] {
            zip64 = true;
            let (ldisk, zoff, ldisks) = (u32at(&l, 4), u64at(&l, 8), u32at(&l, 16));
            if ldisk != 0 || ldisks != 1 {
                return Err(format!("zip64 locator: disk {ldisk} / total disks {ldisks}"));
            }
            if eocd_pos < 76 {
                return Err("zip64 locator without room for the zip64 end record".into());
            }
            let zpos = eocd_pos - 76;
            let z = src.at(zpos, 56)?;
            if z[0..4] != [0x50, 0x4b, 0x06, 0x06] {
                return Err("zip64 end record not directly in front of its locator".into());
            }
            if !o.lenient && zoff != zpos {
                return Err(format!("zip64 locator points at {zoff}, record is at {zpos}"));
            }
            if zoff > zpos {
                return Err(format!("zip64 locator points at {zoff}, beyond the record at {zpos}"));
            }
            base_from_z64 = Some(zpos - zoff);
            if u64at(&z, 4) != 44 {
                return Err(format!("zip64 end record size field {} != 44", u64at(&z, 4)));
            }
            if u32at(&z, 16) != 0 || u32at(&z, 20) != 0 {
                return Err("zip64 end record: non-zero disk numbers".into());
            }
            let (zc_disk, zc, zsize, zoffs) = (u64at(&z, 24), u64at(&z, 32), u64at(&z, 40), u64at(&z, 48));
            if zc_disk != zc {
                return Err("zip64 end record: per-disk count != total".into());
            }
            // classic record must carry the same value or the sentinel
            if !(cnt == 0xFFFF || cnt as u64 == zc) {
                return Err(format!("end record count {cnt} disagrees with zip64 count {zc}"));
            }
            if !(cdsize32 == 0xFFFFFFFF || cdsize32 as u64 == zsize) {
                return Err(format!("end record cd size {cdsize32} disagrees with zip64 {zsize}"));
            }
            if !(cdoff32 == 0xFFFFFFFF || cdoff32 as u64 == zoffs) {
                return Err(format!("end record cd offset {cdoff32} disagrees with zip64 {zoffs}"));
            }
            count = zc;
            cd_size = zsize;
            cd_off = zoffs;
            records_start = zpos;
        }
    }
    if disk != 0 || cddisk != 0 {
        if !(zip64 && (disk == 0xFFFF || cddisk == 0xFFFF)) {
            return Err(format!("end record: disk numbers {disk}/{cddisk}"));
        }
    }
    // ---- base (archive offset)
    let base = match base_from_z64 {
        Some(b) => b,
        None => records_start
            .checked_sub(cd_size)
            .and_then(|x| x.checked_sub(cd_off))
            .ok_or_else(|| format!("central directory (offset {cd_off}, size {cd_size}) does not fit in front of the end record at {records_start}"))?,
    };
    if !o.lenient && base != 0 {
        return Err(format!(
            "central directory offset {cd_off} + size {cd_size} != position of the end records {records_start} (off by {base})"
        ));
    }
    let cd_start = base + cd_off;
    if cd_start + cd_size != records_start {
        return Err(format!("central directory [{cd_start},{}) does not end where the end records begin ({records_start})", cd_start + cd_size));
    }
    // ---- central directory
    if cd_size > (1 << 31) {
        return Err("central directory larger than 2 GiB (unsupported by this parser)".into());
    }
    let cd = src.at(cd_start, cd_size as usize)?;
    let mut entries = Vec::new();
    let mut q = 0usize;
    for i in 0..count {
        if q + 46 > cd.len() {
            return Err(format!("central directory ends after {i} of {count} records"));
        }
        if cd[q..q + 4] != [0x50, 0x4b, 0x01, 0x02] {
            return Err(format!("central record {i}: bad signature at {}", cd_start + q as u64));
        }
        let mut pe = PEntry {
            central_header_start: cd_start + q as u64,
            made_by: u16at(&cd, q + 4),
            version_needed: u16at(&cd, q + 6),
            flags: u16at(&cd, q + 8),
            method: u16at(&cd, q + 10),
            time: u16at(&cd, q + 12),
            date: u16at(&cd, q + 14),
            crc: u32at(&cd, q + 16),
            internal_attr: u16at(&cd, q + 36),
            external_attr: u32at(&cd, q + 38),
            ..Default::default()
        };
        let (cs32, us32, nl, xl, cl, dsk, off32) =
            (u32at(&cd, q + 20), u32at(&cd, q + 24), u16at(&cd, q + 28) as usize, u16at(&cd, q + 30) as usize, u16at(&cd, q + 32) as usize, u16at(&cd, q + 34), u32at(&cd, q + 42));
        if q + 46 + nl + xl + cl > cd.len() {
            return Err(format!("central record {i}: variable part overruns the central directory"));
        }
        pe.name = cd[q + 46..q + 46 + nl].to_vec();
        pe.central_extra = cd[q + 46 + nl..q + 46 + nl + xl].to_vec();
        pe.comment = cd[q + 46 + nl + xl..q + 46 + nl + xl + cl].to_vec();
        q += 46 + nl + xl + cl;
        let recs = tlv(&pe.central_extra).map_err(|e| format!("central record {i}: {e}"))?;
        let z: Vec<&(u16, Vec<u8>)> = recs.iter().filter(|r| r.0 == 1).collect();
        if z.len() > 1 && !o.lenient {
            return Err(format!("central record {i}: more than one ZIP64 extra record"));
        }
        let (mut us, mut cs, mut off) = (us32 as u64, cs32 as u64, off32 as u64);
        let need = [us32 == 0xFFFFFFFF, cs32 == 0xFFFFFFFF, off32 == 0xFFFFFFFF];
        let nneed = need.iter().filter(|x| **x).count();
        if let Some(zr) = z.first() {
            pe.central_has_zip64 = true;
            let mut zp = 0usize;
            let d = &zr.1;
            let mut take = |want: bool, dst: &mut u64| -> Result<(), String> {
                if want {
                    if zp + 8 > d.len() {
                        return Err(format!("central record {i}: ZIP64 extra too short for its sentinel fields"));
                    }
                    *dst = u64at(d, zp);
                    zp += 8;
                }
                Ok(())
            };
            take(need[0], &mut us)?;
            take(need[1], &mut cs)?;
            take(need[2], &mut off)?;
            let rest = d.len() - zp;
            let disk_ok = dsk == 0xFFFF && rest == 4;
            if !o.lenient && rest != 0 && !disk_ok {
                return Err(format!(
                    "central record {i}: ZIP64 extra carries {} bytes but {} sentinel fields need {}",
                    d.len(),
                    nneed,
                    nneed * 8
                ));
            }
        } else if nneed > 0 {
            return Err(format!(
                "central record {i}: 32-bit field equals 0xFFFFFFFF (usize/csize/offset sentinel {:?}) but there is no ZIP64 extra record carrying the value",
                need
            ));
        }
        if dsk != 0 && dsk != 0xFFFF {
            return Err(format!("central record {i}: disk number {dsk}"));
        }
        pe.usize_ = us;
        pe.csize = cs;
        pe.header_start = base.checked_add(off).ok_or("header offset overflow")?;
        entries.push(pe);
    }
    if q != cd.len() {
        return Err(format!("central directory has {} bytes after its {count} records", cd.len() - q));
    }
    if !zip64 && (count > 0xFFFF) {
        return Err("more than 65535 entries without ZIP64 end record".into());
    }
    // ---- local headers
    for (i, pe) in entries.iter_mut().enumerate() {
        let h = src.at(pe.header_start, 30).map_err(|e| format!("entry {i}: local header: {e}"))?;
        if h[0..4] != [0x50, 0x4b, 0x03, 0x04] {
            return Err(format!("entry {i}: no local header signature at offset {}", pe.header_start));
        }
        let (lver, lflags, lmethod, ltime, ldate, lcrc, lcs, lus, nl, xl) = (
            u16at(&h, 4),
            u16at(&h, 6),
            u16at(&h, 8),
            u16at(&h, 10),
            u16at(&h, 12),
            u32at(&h, 14),
            u32at(&h, 18),
            u32at(&h, 22),
            u16at(&h, 26) as usize,
            u16at(&h, 28) as usize,
        );
        let var = src.at(pe.header_start + 30, nl + xl).map_err(|e| format!("entry {i}: local name/extra: {e}"))?;
        pe.local_name = var[..nl].to_vec();
        pe.local_extra = var[nl..].to_vec();
        pe.local_version_needed = lver;
        pe.local_flags = lflags;
        pe.data_start = pe.header_start + 30 + (nl + xl) as u64;
        let lrecs = tlv(&pe.local_extra).map_err(|e| format!("entry {i}: local {e}"))?;
        {
            // lenient: an appended archive gets its central flags recomputed while the old local
            // header keeps option/descriptor bits; only the writer's own output must agree exactly
            if !o.lenient && lflags != pe.flags {
                return Err(format!("entry {i}: local flags {lflags:#06x} != central {:#06x}", pe.flags));
            }
            if lmethod != pe.method {
                return Err(format!("entry {i}: local method {lmethod} != central {}", pe.method));
            }
            if (ltime, ldate) != (pe.time, pe.date) {
                return Err(format!("entry {i}: local time/date != central"));
            }
        }
        if !o.lenient {
            if pe.local_name != pe.name {
                return Err(format!("entry {i}: local name differs from central name"));
            }
            // version-needed: the local header of a large_file entry is written before its size is
            // known (20) while the central record says 45; the property does not list this field,
            // so only the central value is constrained (>= 45 with a ZIP64 record, below)
            let ascii = pe.name.is_ascii();
            let utf8 = pe.flags & (1 << 11) != 0;
            if utf8 == ascii {
                return Err(format!("entry {i}: UTF-8 flag is {utf8} but name is_ascii={ascii}"));
            }
            if std::str::from_utf8(&pe.name).is_err() {
                return Err(format!("entry {i}: name is not valid UTF-8"));
            }
            if pe.central_has_zip64 && pe.version_needed < 45 {
                return Err(format!("entry {i}: ZIP64 extra present but version needed {} < 45", pe.version_needed));
            }
        }
        let has_desc = (pe.flags | lflags) & 8 != 0;
        let lz: Vec<&(u16, Vec<u8>)> = lrecs.iter().filter(|r| r.0 == 1).collect();
        pe.local_has_zip64 = !lz.is_empty();
        let (mut l_us, mut l_cs) = (lus as u64, lcs as u64);
        if lcs == 0xFFFFFFFF || lus == 0xFFFFFFFF {
            let zr = lz.first().ok_or_else(|| format!("entry {i}: local size 0xFFFFFFFF without local ZIP64 extra"))?;
            if zr.1.len() < 16 {
                return Err(format!("entry {i}: local ZIP64 extra must carry both sizes (has {} bytes)", zr.1.len()));
            }
            if !(lcs == 0xFFFFFFFF && lus == 0xFFFFFFFF) && !o.lenient {
                return Err(format!("entry {i}: only one local size is the sentinel"));
            }
            l_us = u64at(&zr.1, 0);
            l_cs = u64at(&zr.1, 8);
            if !o.lenient && lrecs.first().map(|r| r.0) != Some(1) {
                return Err(format!("entry {i}: local ZIP64 record is not the first extra record"));
            }
        } else if !lz.is_empty() && !o.lenient {
            return Err(format!("entry {i}: stale local ZIP64 extra although the 32-bit sizes are in use"));
        }
        if has_desc {
            if !o.lenient {
                return Err(format!("entry {i}: data descriptor flag set (this writer never emits descriptors)"));
            }
            // descriptor: [sig] crc, sizes (32 or 64 bit) directly after the data
            let dpos = pe.data_start + pe.csize;
            let d = src.at(dpos, 24.min((src.size() - dpos.min(src.size())) as usize)).unwrap_or_default();
            let mut ok = None;
            for (sig, wide) in [(true, false), (false, false), (true, true), (false, true)] {
                let need = if sig { 4 } else { 0 } + 4 + if wide { 16 } else { 8 };
                if d.len() < need {
                    continue;
                }
                let mut p = 0;
                if sig {
                    if d[0..4] != [0x50, 0x4b, 0x07, 0x08] {
                        continue;
                    }
                    p = 4;
                }
                let c = u32at(&d, p);
                let (a, b) = if wide { (u64at(&d, p + 4), u64at(&d, p + 12)) } else { (u32at(&d, p + 4) as u64, u32at(&d, p + 8) as u64) };
                if c == pe.crc && a == pe.csize && b == pe.usize_ {
                    ok = Some(need as u64);
                    break;
                }
            }
            pe.descriptor_len = ok.ok_or_else(|| format!("entry {i}: no data descriptor matching the central record after the data"))?;
            if !((lcrc == 0 || lcrc == pe.crc) && (l_cs == 0 || l_cs == pe.csize) && (l_us == 0 || l_us == pe.usize_)) {
                return Err(format!("entry {i}: local crc/sizes neither zero nor equal to central values"));
            }
        } else {
            if lcrc != pe.crc {
                return Err(format!("entry {i}: local crc {lcrc:#010x} != central {:#010x}", pe.crc));
            }
            if l_cs != pe.csize {
                return Err(format!("entry {i}: local compressed size {l_cs} != central {}", pe.csize));
            }
            if l_us != pe.usize_ {
                return Err(format!("entry {i}: local uncompressed size {l_us} != central {}", pe.usize_));
            }
        }
        if pe.data_start + pe.csize > cd_start && !o.lenient {
            return Err(format!("entry {i}: data [{}..{}) runs into the central directory at {cd_start}", pe.data_start, pe.data_start + pe.csize));
        }
        if pe.data_start + pe.csize > src.size() {
            return Err(format!("entry {i}: data runs past the end of the file"));
        }
    }
    // ---- extents
    let mut ext: Vec<(u64, u64, usize)> = entries.iter().enumerate().map(|(i, e)| (e.header_start, e.data_start + e.csize + e.descriptor_len, i)).collect();
    ext.sort();
    let mut prev_end = if o.allow_leading_gap || ext.is_empty() { ext.first().map(|x| x.0).unwrap_or(0) } else { 0 };
    if ext.is_empty() && !o.allow_leading_gap && !o.lenient && cd_start != 0 {
        return Err(format!("empty archive but central directory starts at {cd_start}"));
    }
    for (s, e, i) in &ext {
        if *s < prev_end {
            return Err(format!("entry {i}: record [{s},{e}) overlaps the previous record ending at {prev_end}"));
        }
        if !o.lenient && *s != prev_end {
            return Err(format!("entry {i}: {} unaccounted bytes before its local header at {s}", s - prev_end));
        }
        prev_end = *e;
    }
    if !ext.is_empty() {
        if prev_end > cd_start {
            return Err(format!("last entry ends at {prev_end}, after the central directory start {cd_start}"));
        }
        if !o.lenient && prev_end != cd_start {
            return Err(format!("{} unaccounted bytes between the last entry and the central directory", cd_start - prev_end));
        }
    }
    // ---- decode
    for (i, pe) in entries.iter_mut().enumerate() {
        let encrypted = pe.flags & 1 != 0;
        if encrypted || pe.usize_ > o.decode_limit || pe.csize > o.decode_limit {
            continue;
        }
        if !matches!(pe.method, 0 | 8 | 12 | 93) {
            continue;
        }
        let raw = src.at(pe.data_start, pe.csize as usize)?;
        let dec = codec::decompress(pe.method, &raw, pe.usize_ as usize + 1).map_err(|e| format!("entry {i}: payload does not decode: {e}"))?;
        if dec.len() as u64 != pe.usize_ {
            return Err(format!("entry {i}: decoded length {} != recorded uncompressed size {}", dec.len(), pe.usize_));
        }
        let c = crypto::crc32(&dec);
        if c != pe.crc {
            return Err(format!("entry {i}: CRC of decoded data {c:#010x} != recorded {:#010x}", pe.crc));
        }
        pe.content = Some(dec);
    }
    Ok(Parsed { entries, comment, cd_start, cd_size, eocd_pos, zip64, base, eocd_count: cnt })
}
