//! C05 driver: push arbitrary bytes through every reader-side entry point and the append opener,
//! checking no panic, bounded I/O work and bounded memory while opening.
use crate::alloc;
use crate::sio::{FaultIo, FaultState, NoSeek};
use crate::util::catch;
use std::io::{Cursor, Read};
use std::sync::Arc;

pub struct Report {
    pub opened: bool,
    pub appended: bool,
    pub stream_entries: u32,
    pub entries: usize,
    pub peak_open: usize,
    pub ops_open: usize,
}

const PW: [&[u8]; 2] = [b"helloworld", b"pw"];
pub const OUT_CAP: usize = 1 << 20;

/// True if any local header, central header or WinZip-AES extra record in `data` names compression
/// method 12 (Bzip2). The coverage-guided campaigns leave such inputs out: they would otherwise keep
/// rediscovering the known finding bzip2-c-decoder-uninitialised-read (a crash inside libbz2) and stop.
pub fn mentions_bzip2(data: &[u8]) -> bool {
    let le16 = |i: usize| data.get(i + 1).map(|hi| (data[i] as u16) | ((*hi as u16) << 8));
    for i in 0..data.len().saturating_sub(3) {
        if data[i] == b'P' && data[i + 1] == b'K' {
            if data[i + 2] == 3 && data[i + 3] == 4 && le16(i + 8) == Some(12) {
                return true;
            }
            if data[i + 2] == 1 && data[i + 3] == 2 && le16(i + 10) == Some(12) {
                return true;
            }
        }
        if data[i] == 0x01 && data[i + 1] == 0x99 && le16(i + 9) == Some(12) {
            return true;
        }
    }
    false
}

pub fn mem_bound(len: usize) -> usize {
    512 * len + (2 << 20)
}
pub fn ops_bound(len: usize) -> usize {
    16 * len + 1_000_000
}

fn read_capped<R: Read>(r: &mut R, cap: usize, chunk: usize) -> usize {
    let mut buf = vec![0u8; chunk.max(1)];
    let mut total = 0;
    let mut calls = 0;
    loop {
        calls += 1;
        match r.read(&mut buf) {
            Ok(0) => break,
            Err(_) => {
                // callers retry, poll, or use Read::bytes(): reading on after an error must not panic
                let _ = r.read(&mut buf);
                let _ = r.read(&mut buf[..1]);
                let _ = r.read(&mut []);
                break;
            }
            Ok(n) => total += n,
        }
        if total >= cap || calls > 4 * cap {
            break;
        }
    }
    total
}

fn touch(f: &zip::read::ZipFile<'_>) {
    let _ = (f.name().len(), f.name_raw().len(), f.comment().len(), f.size(), f.compressed_size(), f.crc32(), f.extra_data().len());
    let _ = (f.data_start(), f.header_start(), f.central_header_start(), f.version_made_by(), f.is_dir(), f.is_file(), f.unix_mode(), f.compression());
    let _ = f.mangled_name();
    let _ = f.enclosed_name();
    let lm = f.last_modified();
    let _ = (lm.year(), lm.month(), lm.day(), lm.hour(), lm.minute(), lm.second(), lm.datepart(), lm.timepart());
    let _ = lm.to_time();
}

struct V {
    mode: u8,
    n: u32,
}
impl zip::unstable::stream::ZipStreamVisitor for V {
    fn visit_file(&mut self, f: &mut zip::read::ZipFile<'_>) -> zip::result::ZipResult<()> {
        touch(f);
        self.n += 1;
        match self.mode {
            0 => {}
            1 => {
                let mut b = [0u8; 3];
                let _ = f.read(&mut b);
            }
            _ => {
                read_capped(f, OUT_CAP, 4096);
            }
        }
        Ok(())
    }
    fn visit_additional_metadata(&mut self, m: &zip::unstable::stream::ZipStreamFileMetadata) -> zip::result::ZipResult<()> {
        let _ = (m.name().len(), m.name_raw().len(), m.comment().len(), m.is_dir(), m.is_file(), m.unix_mode(), m.data_start());
        let _ = m.mangled_name();
        let _ = m.enclosed_name();
        Ok(())
    }
}

/// Err(message) on a violation. A panic anywhere inside the crate is a violation.
///
/// Inputs that are rich in record signatures are run on a thread with a 1 MiB stack (half of Rust's
/// default for spawned threads): stack use that grows with the number of records in the input then ends
/// in a stack overflow, which kills the process and is reported as an abort by the supervisor.
pub fn exercise(bytes: &[u8]) -> Result<Report, String> {
    let pk = bytes.windows(2).filter(|w| w[0] == b'P' && w[1] == b'K').count();
    if pk < 64 {
        return exercise_inner(bytes);
    }
    // the helper thread reports itself under the worker thread's in-flight slot (abort diagnosis)
    let slot = crate::engine::MY_SLOT.with(|c| c.get());
    std::thread::scope(|sc| {
        let h = std::thread::Builder::new().stack_size(1 << 20).spawn_scoped(sc, move || { crate::engine::MY_SLOT.with(|c| c.set(slot)); exercise_inner(bytes) }).map_err(|e| format!("harness: cannot spawn: {e}"))?;
        h.join().unwrap_or_else(|_| Err("PANIC escaped the driver".into()))
    })
}

fn exercise_inner(bytes: &[u8]) -> Result<Report, String> {
    let len = bytes.len();
    let mut rep = Report { opened: false, appended: false, stream_entries: 0, entries: 0, peak_open: 0, ops_open: 0 };
    // ---- seekable reader, with I/O budget and memory measurement while opening
    let budget = 4 * ops_bound(len);
    let st: Arc<FaultState> = FaultState::new(budget, true, false);
    st.hard_limit.store(1_000_000, std::sync::atomic::Ordering::Relaxed);
    let stc = st.clone();
    let (r, peak) = alloc::measure(1 << 32, move || catch(move || zip::ZipArchive::new(FaultIo::new(Cursor::new(bytes), stc))));
    let opened = r.map_err(|p| format!("PANIC in ZipArchive::new: {p}"))?;
    rep.peak_open = peak;
    rep.ops_open = st.count();
    if st.count() > ops_bound(len) {
        return Err(format!("ZipArchive::new issued {} I/O calls on a {len}-byte input (budget {}): unbounded search?", st.count(), ops_bound(len)));
    }
    if peak > mem_bound(len) {
        return Err(format!("ZipArchive::new peak heap {peak} bytes on a {len}-byte input exceeds the bound {}", mem_bound(len)));
    }
    if let Ok(mut za) = opened {
        rep.opened = true;
        rep.entries = za.len();
        // the budget now only protects against runaway loops in later calls
        // entry access legitimately needs at most ~len/5 calls per entry and mode (5-byte reads of stored data) -
        // about 13 x len for 64 entries; 1024 x len + 2 million leaves two orders of magnitude of head-room and
        // keeps a runaway loop cheap to diagnose (the stream fails every call from there on)
        st.fail_at.store(st.count() + 1024 * len + 2_000_000, std::sync::atomic::Ordering::Relaxed);
        catch(|| {
            let _ = (za.len(), za.is_empty(), za.comment().len(), za.offset());
            let names: Vec<String> = za.file_names().take(64).map(|s| s.to_string()).collect();
            for i in 0..za.len().min(64) {
                if let Ok(mut f) = za.by_index_raw(i) {
                    touch(&f);
                    read_capped(&mut f, OUT_CAP, 8192);
                }
                if let Ok(mut f) = za.by_index(i) {
                    touch(&f);
                    read_capped(&mut f, OUT_CAP, if i % 2 == 0 { 4096 } else { 5 });
                }
                for pw in PW {
                    if let Ok(Ok(mut f)) = za.by_index_decrypt(i, pw) {
                        touch(&f);
                        read_capped(&mut f, OUT_CAP, 4096);
                    }
                }
            }
            for n in &names {
                if let Ok(mut f) = za.by_name(n) {
                    read_capped(&mut f, 4096, 512);
                }
                if let Ok(Ok(mut f)) = za.by_name_decrypt(n, PW[0]) {
                    read_capped(&mut f, 4096, 512);
                }
            }
            let _ = za.by_index(usize::MAX);
            let _ = za.by_name("\u{1}nope");
        })
        .map_err(|p| format!("PANIC while enumerating/reading entries: {p}"))?;
        if st.fired.load(std::sync::atomic::Ordering::Relaxed) > 0 {
            return Err(format!("entry access exceeded the I/O budget ({} calls on a {len}-byte input): unbounded loop?", st.count()));
        }
    }
    // ---- streaming reader: none / partial / full consumption
    for mode in 0..3u8 {
        let n = catch(|| {
            let st = FaultState::new(8 * ops_bound(len), true, false);
            st.hard_limit.store(1_000_000, std::sync::atomic::Ordering::Relaxed);
            let mut src = NoSeek(FaultIo::new(Cursor::new(bytes), st.clone()));
            let mut n = 0u32;
            loop {
                match zip::read::read_zipfile_from_stream(&mut src) {
                    Ok(Some(mut f)) => {
                        touch(&f);
                        match mode {
                            0 => {}
                            1 => {
                                let mut b = [0u8; 2];
                                let _ = f.read(&mut b);
                            }
                            _ => {
                                read_capped(&mut f, OUT_CAP, 4096);
                            }
                        }
                        n += 1;
                    }
                    _ => break,
                }
                if n as usize > len / 30 + 2 {
                    return Err(format!("streaming reader yielded {n} entries from {len} bytes"));
                }
            }
            if st.fired.load(std::sync::atomic::Ordering::Relaxed) > 0 {
                return Err(format!("streaming reader exceeded the I/O budget on a {len}-byte input"));
            }
            Ok(n)
        })
        .map_err(|p| format!("PANIC in read_zipfile_from_stream (consumption mode {mode}): {p}"))??;
        rep.stream_entries = rep.stream_entries.max(n);
        let mut v = V { mode, n: 0 };
        catch(|| {
            let _ = zip::unstable::stream::ZipStreamReader::new(Cursor::new(bytes)).visit(&mut v);
        })
        .map_err(|p| format!("PANIC in ZipStreamReader::visit (consumption mode {mode}): {p}"))?;
    }
    // ---- open for append, then finish / drop
    for by_drop in [false, true] {
        let st: Arc<FaultState> = FaultState::new(4 * ops_bound(len), true, false);
        st.hard_limit.store(1_000_000, std::sync::atomic::Ordering::Relaxed);
        let stc = st.clone();
        let data = bytes.to_vec();
        let (r, peak) = alloc::measure(1 << 32, move || catch(move || zip::ZipWriter::new_append(FaultIo::new(crate::sio::BoundedSink::new(data, 1 << 20), stc))));
        let w = r.map_err(|p| format!("PANIC in ZipWriter::new_append: {p}"))?;
        if st.count() > ops_bound(len) {
            return Err(format!("new_append issued {} I/O calls on a {len}-byte input (budget {})", st.count(), ops_bound(len)));
        }
        if peak > mem_bound(len) {
            return Err(format!("new_append peak heap {peak} bytes on a {len}-byte input exceeds the bound {}", mem_bound(len)));
        }
        if let Ok(w) = w {
            rep.appended = true;
            st.fail_at.store(usize::MAX, std::sync::atomic::Ordering::Relaxed);
            let mut w = std::mem::ManuallyDrop::new(w);
            if by_drop {
                catch(move || unsafe { std::mem::ManuallyDrop::drop(&mut w) }).map_err(|p| format!("PANIC while dropping a writer opened with new_append: {p}"))?;
            } else {
                catch(move || {
                    let _ = w.finish();
                })
                .map_err(|p| format!("PANIC in finish() of a writer opened with new_append: {p}"))?;
            }
        }
    }
    Ok(rep)
}
