//! Deterministic seed archives shared by the corruption / robustness / chunking properties.
use crate::gen::{self, Method, Op, Opts, Program};
use crate::refzip::{build, ArchiveSpec, Built, Content, Desc, Enc, EntrySpec, Extra};

pub struct Seed {
    pub name: String,
    pub bytes: Vec<u8>,
    /// per entry (central order): password if encrypted
    pub passwords: Vec<Option<Vec<u8>>>,
    /// per entry: AE-2 AES entry (CRC exempt)
    pub ae2: Vec<bool>,
    /// per entry: (data_start, csize) absolute
    pub data: Vec<(u64, u64)>,
    /// offsets of the central CRC fields
    pub crc_fields: Vec<u64>,
    pub local_crc_fields: Vec<u64>,
    pub built: Option<Built>,
    pub contents: Vec<Vec<u8>>,
    pub stored_plain: Vec<bool>,
    pub streamable: Vec<bool>,
}

fn from_spec(name: &str, spec: &ArchiveSpec) -> Seed {
    let b = build::build(spec).expect("seed spec builds");
    let order = spec.order();
    let mut s = Seed {
        name: name.to_string(),
        bytes: b.bytes.clone(),
        passwords: vec![],
        ae2: vec![],
        data: vec![],
        crc_fields: vec![],
        local_crc_fields: vec![],
        built: None,
        contents: vec![],
        stored_plain: vec![],
        streamable: vec![],
    };
    for &i in &order {
        let e = &spec.entries[i];
        s.passwords.push(match &e.enc {
            Enc::None => None,
            Enc::ZipCrypto { password, .. } | Enc::Aes { password, .. } => Some(password.clone()),
        });
        s.ae2.push(matches!(&e.enc, Enc::Aes { ae2: true, .. }));
        s.data.push((b.entries[i].data_start, b.entries[i].csize));
        s.contents.push(e.content.expand());
        s.stored_plain.push(e.method == 0 && matches!(e.enc, Enc::None));
        s.streamable.push(matches!(e.enc, Enc::None) && e.desc == Desc::None && matches!(e.method, 0 | 8 | 12 | 93));
    }
    for f in &b.fields {
        if f.name == "c_crc" {
            s.crc_fields.push(f.off as u64);
        }
        if f.name == "l_crc" || f.name == "d_crc" {
            s.local_crc_fields.push(f.off as u64);
        }
    }
    s.built = Some(b);
    s
}

fn zc(pw: &[u8], time_check: bool) -> Enc {
    Enc::ZipCrypto { password: pw.to_vec(), header: vec![9, 8, 7, 6, 5, 4, 3, 2, 1, 0, 11], time_check }
}
fn aes(pw: &[u8], strength: u8, ae2: bool) -> Enc {
    Enc::Aes { password: pw.to_vec(), salt_seed: vec![strength, ae2 as u8, 42], strength, ae2 }
}

/// Small seed archives (each entry's payload <= a few hundred bytes) covering every method and
/// encryption variant, from the independent builder and from the crate's own writer.
pub fn small_seeds() -> Vec<Seed> {
    let mut v = Vec::new();
    let text = |seed: u64, len: u32| Content::Text { seed, len };
    // one seed per method, three entries each
    for (m, tag) in [(0u16, "stored"), (8, "deflate"), (12, "bzip2"), (93, "zstd")] {
        let spec = ArchiveSpec::plain(vec![
            EntrySpec::simple(b"a.txt", m, text(1, 60)),
            EntrySpec::simple(b"dir/b.bin", m, Content::Rand { seed: 2, len: 33 }),
            EntrySpec::simple(b"empty", m, Content::Bytes(vec![])),
            EntrySpec::simple(b"one", m, Content::Bytes(vec![0x41])),
        ]);
        v.push(from_spec(&format!("ref-{tag}"), &spec));
    }
    // mixed with descriptors / zip64 fields / comment / prefix
    {
        let mut a = EntrySpec::simple(b"desc.txt", 8, text(3, 80));
        a.desc = Desc::Sig32;
        let mut b = EntrySpec::simple(b"z64.txt", 0, text(4, 50));
        b.zip64 = [true, true, true];
        b.local_zip64 = true;
        let mut c = EntrySpec::simple("n\u{e9}.txt".as_bytes(), 0, text(5, 20));
        c.central_extra_before.push(Extra { id: 0x5455, data: vec![1, 2, 3, 4, 5] });
        c.desc = Desc::NoSig64;
        // file comments (the last bytes of a central record; the crate's writer never emits any)
        a.comment = b"comment of the first entry".to_vec();
        c.comment = "dernier commentaire \u{e9}".as_bytes().to_vec();
        let mut spec = ArchiveSpec::plain(vec![a, b, c]);
        spec.comment = b"seed comment".to_vec();
        spec.prefix = Content::Rand { seed: 77, len: 50 };
        spec.zip64_end = Some([false, true, false]);
        v.push(from_spec("ref-mixed", &spec));
    }
    // ZipCrypto: crc check byte and Info-ZIP time check byte
    {
        let mut a = EntrySpec::simple(b"zc-stored", 0, text(6, 70));
        a.enc = zc(b"pw", false);
        let mut b = EntrySpec::simple(b"zc-deflate", 8, text(7, 120));
        b.enc = zc(b"pw", false);
        let mut c = EntrySpec::simple(b"zc-infozip", 8, text(8, 90));
        c.enc = zc(b"other", true);
        c.desc = Desc::Sig32;
        let d = EntrySpec::simple(b"plain", 0, text(9, 30));
        v.push(from_spec("ref-zipcrypto", &ArchiveSpec::plain(vec![a, b, c, d])));
    }
    // AES: AE-1 and AE-2, three strengths, stored and deflate
    for (ae2, tag) in [(false, "ae1"), (true, "ae2")] {
        let mut es = Vec::new();
        for (k, strength) in [1u8, 2, 3].iter().enumerate() {
            let mut e = EntrySpec::simple(format!("aes{strength}").as_bytes(), if k == 1 { 8 } else { 0 }, text(10 + k as u64, 40 + 10 * k as u32));
            e.enc = aes(b"helloworld", *strength, ae2);
            es.push(e);
        }
        let mut z = EntrySpec::simple(b"aes-zstd", 93, text(20, 64));
        z.enc = aes(b"helloworld", 3, ae2);
        es.push(z);
        v.push(from_spec(&format!("ref-aes-{tag}"), &ArchiveSpec::plain(es)));
    }
    // unencrypted entries that merely carry an AE-2 extra record in their headers
    {
        let mut d = Vec::new();
        d.extend_from_slice(&2u16.to_le_bytes());
        d.extend_from_slice(b"AE");
        d.push(3);
        d.extend_from_slice(&0u16.to_le_bytes());
        let mut a = EntrySpec::simple(b"fake-ae2", 0, text(30, 55));
        a.local_extra.push(Extra { id: 0x9901, data: d.clone() });
        let b = EntrySpec::simple(b"after", 8, text(31, 44));
        v.push(from_spec("ref-plain-with-ae2-extra-local", &ArchiveSpec::plain(vec![a, b])));
    }
    // crate-written archive
    {
        let mut ops = Vec::new();
        for (i, m) in [Method::Stored, Method::Deflated, Method::Bzip2, Method::Zstd].iter().enumerate() {
            ops.push(Op::File { name: format!("w{i}"), opts: Opts::plain(*m), chunks: vec![text(40 + i as u64, 70)] });
        }
        let mut o = Opts::plain(Method::Deflated);
        o.password = Some("secret".into());
        ops.push(Op::File { name: "wenc".into(), opts: o, chunks: vec![text(50, 80)] });
        let mut o = Opts::plain(Method::Stored);
        o.large = true;
        ops.push(Op::File { name: "wlarge".into(), opts: o, chunks: vec![text(51, 30)] });
        ops.push(Op::Dir { name: "wd".into(), opts: Opts::plain(Method::Stored) });
        ops.push(Op::Symlink { name: "wl".into(), target: "w0".into(), opts: Opts::plain(Method::Stored) });
        ops.push(Op::Comment(b"crate-written".to_vec()));
        let p = Program { ops };
        let bytes = gen::run_program(&p, false).expect("crate seed");
        let pp = crate::refzip::parse::parse(&bytes[..], crate::refzip::parse::Opts::strict()).expect("crate seed parses");
        let (model, _) = gen::model(&p);
        let mut s = Seed {
            name: "crate-written".into(),
            bytes: bytes.clone(),
            passwords: model.iter().map(|m| m.password.as_ref().map(|x| x.as_bytes().to_vec())).collect(),
            ae2: vec![false; model.len()],
            data: pp.entries.iter().map(|e| (e.data_start, e.csize)).collect(),
            crc_fields: pp.entries.iter().map(|e| e.central_header_start + 16).collect(),
            local_crc_fields: pp.entries.iter().map(|e| e.header_start + 14).collect(),
            built: None,
            contents: model.iter().map(|m| m.content.clone()).collect(),
            stored_plain: model.iter().map(|m| m.method == Method::Stored && m.password.is_none()).collect(),
            streamable: model.iter().map(|m| m.password.is_none()).collect(),
        };
        s.name = "crate-written".into();
        v.push(s);
    }
    // larger AES entries (many cipher blocks; reads of >= 128 bytes after an unaligned read become possible)
    for (ae2, tag) in [(false, "ae1"), (true, "ae2")] {
        let mut a = EntrySpec::simple(b"aes-stored-big", 0, Content::Rand { seed: 60, len: 700 });
        a.enc = aes(b"helloworld", 3, ae2);
        let mut b = EntrySpec::simple(b"aes-deflate-big", 8, text(61, 2500));
        b.enc = aes(b"helloworld", 1, ae2);
        v.push(from_spec(&format!("ref-aes-big-{tag}"), &ArchiveSpec::plain(vec![a, b])));
    }
    // contents whose CRC-32 coincides with special values (0, all ones, the local-header and the
    // data-descriptor signature)
    {
        let a = EntrySpec::simple(b"crc-zero-stored", 0, Content::Forged { seed: 1, len: 90, crc: 0 });
        let b = EntrySpec::simple(b"crc-zero-deflate", 8, Content::Forged { seed: 2, len: 300, crc: 0 });
        let c = EntrySpec::simple(b"crc-ones", 0, Content::Forged { seed: 3, len: 40, crc: 0xFFFF_FFFF });
        let d = EntrySpec::simple(b"crc-lfh-signature", 8, Content::Forged { seed: 4, len: 120, crc: 0x0403_4b50 });
        let mut e = EntrySpec::simple(b"crc-dd-signature", 0, Content::Forged { seed: 5, len: 33, crc: 0x0807_4b50 });
        e.desc = Desc::NoSig32;
        v.push(from_spec("ref-special-crc", &ArchiveSpec::plain(vec![a, b, c, d, e])));
    }
    v
}

/// Fixtures shipped with the repository.
pub fn repo_fixtures() -> Vec<(String, Vec<u8>)> {
    let mut v = Vec::new();
    if let Ok(rd) = std::fs::read_dir("/repo/tests/data") {
        let mut files: Vec<_> = rd.flatten().map(|e| e.path()).collect();
        files.sort();
        for p in files {
            if let Ok(b) = std::fs::read(&p) {
                v.push((p.file_name().unwrap().to_string_lossy().into_owned(), b));
            }
        }
    }
    v
}
