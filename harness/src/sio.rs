//! instrumented streams
