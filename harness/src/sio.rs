//! Instrumented streams: the harness owns how many bytes each call transfers and which call fails.
use std::collections::HashMap;
use std::io::{self, Read, Seek, SeekFrom, Write};
use std::sync::atomic::{AtomicU64, AtomicUsize, Ordering};
use std::sync::{Arc, Mutex};

/// Reader returning at most `schedule[i % len]` bytes on its i-th non-empty read, and never
/// crossing a position in `cuts` (sorted absolute positions).
pub struct ChunkReader<R> {
    pub inner: R,
    pub schedule: Vec<usize>,
    pub cuts: Vec<u64>,
    pub i: usize,
    pub pos: u64,
    pub short_reads: Arc<AtomicU64>,
    /// n > 0: every n-th non-empty read call first reports `ErrorKind::Interrupted` (nothing transferred;
    /// the retried call then goes through) - by the `Read` contract not an error but a request to retry
    pub intr_every: usize,
    calls: usize,
    just_interrupted: bool,
    pub interrupts: Arc<AtomicU64>,
}
impl<R> ChunkReader<R> {
    pub fn new(inner: R, schedule: Vec<usize>, cuts: Vec<u64>) -> Self {
        ChunkReader { inner, schedule, cuts, i: 0, pos: 0, short_reads: Arc::new(AtomicU64::new(0)), intr_every: 0, calls: 0, just_interrupted: false, interrupts: Arc::new(AtomicU64::new(0)) }
    }
    pub fn with_interrupts(mut self, every: usize) -> Self {
        self.intr_every = every;
        self
    }
}
impl<R: Read> Read for ChunkReader<R> {
    fn read(&mut self, buf: &mut [u8]) -> io::Result<usize> {
        if buf.is_empty() {
            return self.inner.read(buf);
        }
        if self.intr_every > 0 {
            if self.just_interrupted {
                self.just_interrupted = false;
            } else {
                self.calls += 1;
                if self.calls % self.intr_every == 0 {
                    self.just_interrupted = true;
                    self.interrupts.fetch_add(1, Ordering::Relaxed);
                    return Err(io::Error::new(io::ErrorKind::Interrupted, "injected EINTR"));
                }
            }
        }
        let mut n = buf.len();
        if !self.schedule.is_empty() {
            let s = self.schedule[self.i % self.schedule.len()].max(1);
            self.i += 1;
            n = n.min(s);
        }
        if let Some(&c) = self.cuts.iter().find(|&&c| c > self.pos) {
            n = n.min((c - self.pos) as usize);
        }
        let got = self.inner.read(&mut buf[..n])?;
        if got < buf.len() && got > 0 {
            self.short_reads.fetch_add(1, Ordering::Relaxed);
        }
        self.pos += got as u64;
        Ok(got)
    }
}
impl<R: Seek> Seek for ChunkReader<R> {
    fn seek(&mut self, p: SeekFrom) -> io::Result<u64> {
        let r = self.inner.seek(p)?;
        self.pos = r;
        Ok(r)
    }
}

/// Writer accepting at most `schedule[i % len]` (>=1) bytes per write call.
pub struct ShortWriter<W> {
    pub inner: W,
    pub schedule: Vec<usize>,
    pub i: usize,
    pub short_writes: u64,
    /// n > 0: every n-th non-empty write call first reports `ErrorKind::Interrupted` (nothing accepted)
    pub intr_every: usize,
    calls: usize,
    just_interrupted: bool,
}
impl<W> ShortWriter<W> {
    pub fn new(inner: W, schedule: Vec<usize>) -> Self {
        ShortWriter { inner, schedule, i: 0, short_writes: 0, intr_every: 0, calls: 0, just_interrupted: false }
    }
    pub fn with_interrupts(mut self, every: usize) -> Self {
        self.intr_every = every;
        self
    }
}
impl<W: Write> Write for ShortWriter<W> {
    fn write(&mut self, buf: &[u8]) -> io::Result<usize> {
        if !buf.is_empty() && self.intr_every > 0 {
            if self.just_interrupted {
                self.just_interrupted = false;
            } else {
                self.calls += 1;
                if self.calls % self.intr_every == 0 {
                    self.just_interrupted = true;
                    return Err(io::Error::new(io::ErrorKind::Interrupted, "injected EINTR"));
                }
            }
        }
        if buf.is_empty() || self.schedule.is_empty() {
            return self.inner.write(buf);
        }
        let s = self.schedule[self.i % self.schedule.len()].max(1);
        self.i += 1;
        let n = buf.len().min(s);
        if n < buf.len() {
            self.short_writes += 1;
        }
        self.inner.write(&buf[..n])
    }
    fn flush(&mut self) -> io::Result<()> {
        self.inner.flush()
    }
}
impl<W: Seek> Seek for ShortWriter<W> {
    fn seek(&mut self, p: SeekFrom) -> io::Result<u64> {
        self.inner.seek(p)
    }
}
impl<W: Read> Read for ShortWriter<W> {
    fn read(&mut self, buf: &mut [u8]) -> io::Result<usize> {
        self.inner.read(buf)
    }
}

pub const K_READ: u8 = 0;
pub const K_WRITE: u8 = 1;
pub const K_FLUSH: u8 = 2;
pub const K_SEEK: u8 = 3;

#[derive(Default)]
pub struct FaultState {
    pub ops: AtomicUsize,
    /// index of the I/O call to fail (usize::MAX = never)
    pub fail_at: AtomicUsize,
    pub sticky: std::sync::atomic::AtomicBool,
    pub fired: AtomicUsize,
    pub kinds: Mutex<Vec<u8>>,
    pub record: std::sync::atomic::AtomicBool,
    /// which io::ErrorKind the injected failure carries (EK_*)
    pub err_kind: std::sync::atomic::AtomicU8,
    /// 0 = none; otherwise: the I/O call that comes this many calls AFTER `fail_at` panics (once). With a sticky
    /// failure every call since `fail_at` has failed: code that keeps issuing I/O calls regardless would never
    /// end (decided by the call counter, not by time)
    pub hard_limit: AtomicUsize,
}
pub const EK_OTHER: u8 = 0;
pub const EK_EOF: u8 = 1;
pub const EK_INTR: u8 = 2;
pub const EK_WOULDBLOCK: u8 = 3;
pub fn ek_name(k: u8) -> &'static str {
    match k {
        EK_EOF => "UnexpectedEof",
        EK_INTR => "Interrupted",
        EK_WOULDBLOCK => "WouldBlock",
        _ => "Other",
    }
}
impl FaultState {
    pub fn new_kind(fail_at: usize, sticky: bool, record: bool, ek: u8) -> Arc<FaultState> {
        let s = Self::new(fail_at, sticky, record);
        s.err_kind.store(ek, Ordering::Relaxed);
        s
    }
    pub fn new(fail_at: usize, sticky: bool, record: bool) -> Arc<FaultState> {
        Arc::new(FaultState {
            ops: AtomicUsize::new(0),
            fail_at: AtomicUsize::new(fail_at),
            sticky: std::sync::atomic::AtomicBool::new(sticky),
            fired: AtomicUsize::new(0),
            kinds: Mutex::new(Vec::new()),
            record: std::sync::atomic::AtomicBool::new(record),
            err_kind: std::sync::atomic::AtomicU8::new(EK_OTHER),
            hard_limit: AtomicUsize::new(0),
        })
    }
    fn op(&self, kind: u8) -> io::Result<()> {
        // never inject while unwinding: a failing stream inside a Drop during a panic would turn
        // a reported panic into an abort and hide the original failure
        if std::thread::panicking() {
            return Ok(());
        }
        let i = self.ops.fetch_add(1, Ordering::Relaxed);
        let hl = self.hard_limit.load(Ordering::Relaxed);
        if hl != 0 && i == self.fail_at.load(Ordering::Relaxed).saturating_add(hl) {
            panic!("ZV-IO-HARD-LIMIT: the code under test issued {i} I/O calls and keeps going although every call has been failing since call {}: unbounded loop", self.fail_at.load(Ordering::Relaxed));
        }
        if self.record.load(Ordering::Relaxed) {
            self.kinds.lock().unwrap().push(kind);
        }
        let at = self.fail_at.load(Ordering::Relaxed);
        if i == at || (self.sticky.load(Ordering::Relaxed) && at != usize::MAX && i > at) {
            self.fired.fetch_add(1, Ordering::Relaxed);
            let kind = match self.err_kind.load(Ordering::Relaxed) {
                EK_EOF => io::ErrorKind::UnexpectedEof,
                EK_INTR => io::ErrorKind::Interrupted,
                EK_WOULDBLOCK => io::ErrorKind::WouldBlock,
                _ => io::ErrorKind::Other,
            };
            return Err(io::Error::new(kind, "injected fault"));
        }
        Ok(())
    }
    pub fn count(&self) -> usize {
        self.ops.load(Ordering::Relaxed)
    }
}

/// Fails the k-th I/O call (read / write / flush / seek counted together).
pub struct FaultIo<T> {
    pub inner: T,
    pub st: Arc<FaultState>,
}
impl<T> FaultIo<T> {
    pub fn new(inner: T, st: Arc<FaultState>) -> Self {
        FaultIo { inner, st }
    }
}
impl<T: Read> Read for FaultIo<T> {
    fn read(&mut self, buf: &mut [u8]) -> io::Result<usize> {
        self.st.op(K_READ)?;
        self.inner.read(buf)
    }
}
impl<T: Write> Write for FaultIo<T> {
    fn write(&mut self, buf: &[u8]) -> io::Result<usize> {
        self.st.op(K_WRITE)?;
        self.inner.write(buf)
    }
    fn flush(&mut self) -> io::Result<()> {
        self.st.op(K_FLUSH)?;
        self.inner.flush()
    }
}
impl<T: Seek> Seek for FaultIo<T> {
    fn seek(&mut self, p: SeekFrom) -> io::Result<u64> {
        self.st.op(K_SEEK)?;
        self.inner.seek(p)
    }
}

/// Reader without Seek (forces the streaming code path at the type level).
pub struct NoSeek<R>(pub R);
impl<R: Read> Read for NoSeek<R> {
    fn read(&mut self, buf: &mut [u8]) -> io::Result<usize> {
        self.0.read(buf)
    }
}

// ---------------------------------------------------------------- sparse in-memory file
const PAGE: usize = 1 << 16;
enum Page {
    Uniform(u8),
    Data(Box<[u8]>),
}
/// Read+Write+Seek in-memory file with 64 KiB pages; pages of one repeated byte cost one byte,
/// so multi-GiB zero / constant runs are cheap.
pub struct SparseFile {
    pages: HashMap<u64, Page>,
    pub len: u64,
    pub pos: u64,
}
impl Default for SparseFile {
    fn default() -> Self {
        Self::new()
    }
}
impl SparseFile {
    pub fn new() -> Self {
        SparseFile { pages: HashMap::new(), len: 0, pos: 0 }
    }
    pub fn at_position(pos: u64) -> Self {
        SparseFile { pages: HashMap::new(), len: pos, pos }
    }
    fn byte_page(&self, idx: u64) -> Option<&Page> {
        self.pages.get(&idx)
    }
    pub fn read_at(&self, off: u64, out: &mut [u8]) {
        let mut done = 0usize;
        while done < out.len() {
            let p = off + done as u64;
            let (pi, po) = (p / PAGE as u64, (p % PAGE as u64) as usize);
            let n = (PAGE - po).min(out.len() - done);
            match self.byte_page(pi) {
                None => out[done..done + n].fill(0),
                Some(Page::Uniform(b)) => out[done..done + n].fill(*b),
                Some(Page::Data(d)) => out[done..done + n].copy_from_slice(&d[po..po + n]),
            }
            done += n;
        }
    }
    pub fn resident_pages(&self) -> usize {
        self.pages.values().filter(|p| matches!(p, Page::Data(_))).count()
    }
}
impl Read for SparseFile {
    fn read(&mut self, buf: &mut [u8]) -> io::Result<usize> {
        if self.pos >= self.len {
            return Ok(0);
        }
        let n = (buf.len() as u64).min(self.len - self.pos) as usize;
        let pos = self.pos;
        self.read_at(pos, &mut buf[..n]);
        self.pos += n as u64;
        Ok(n)
    }
}
impl Write for SparseFile {
    fn write(&mut self, buf: &[u8]) -> io::Result<usize> {
        let mut done = 0usize;
        while done < buf.len() {
            let p = self.pos + done as u64;
            let (pi, po) = (p / PAGE as u64, (p % PAGE as u64) as usize);
            let n = (PAGE - po).min(buf.len() - done);
            let chunk = &buf[done..done + n];
            let uniform = chunk.iter().all(|&b| b == chunk[0]);
            if n == PAGE && uniform {
                if chunk[0] == 0 {
                    self.pages.remove(&pi);
                } else {
                    self.pages.insert(pi, Page::Uniform(chunk[0]));
                }
            } else {
                let cur = self.pages.get(&pi);
                let same = match cur {
                    None => uniform && chunk[0] == 0,
                    Some(Page::Uniform(b)) => uniform && chunk[0] == *b,
                    Some(Page::Data(_)) => false,
                };
                if !same {
                    let mut d: Box<[u8]> = match self.pages.remove(&pi) {
                        Some(Page::Data(d)) => d,
                        Some(Page::Uniform(b)) => vec![b; PAGE].into_boxed_slice(),
                        None => vec![0u8; PAGE].into_boxed_slice(),
                    };
                    d[po..po + n].copy_from_slice(chunk);
                    self.pages.insert(pi, Page::Data(d));
                }
            }
            done += n;
        }
        self.pos += buf.len() as u64;
        self.len = self.len.max(self.pos);
        Ok(buf.len())
    }
    fn flush(&mut self) -> io::Result<()> {
        Ok(())
    }
}
impl Seek for SparseFile {
    fn seek(&mut self, p: SeekFrom) -> io::Result<u64> {
        let np: i128 = match p {
            SeekFrom::Start(s) => s as i128,
            SeekFrom::End(o) => self.len as i128 + o as i128,
            SeekFrom::Current(o) => self.pos as i128 + o as i128,
        };
        if np < 0 || np > u64::MAX as i128 {
            return Err(io::Error::new(io::ErrorKind::InvalidInput, "seek before start"));
        }
        self.pos = np as u64;
        Ok(self.pos)
    }
}
impl crate::refzip::parse::Src for SparseFile {
    fn size(&self) -> u64 {
        self.len
    }
    fn at(&self, off: u64, len: usize) -> Result<Vec<u8>, String> {
        if off.checked_add(len as u64).map(|e| e > self.len).unwrap_or(true) {
            return Err(format!("read of {len} bytes at {off} runs past the end ({})", self.len));
        }
        let mut v = vec![0u8; len];
        self.read_at(off, &mut v);
        Ok(v)
    }
}

/// `&mut SparseFile`-like shared handle so the file survives the ZipWriter that owns the sink.
pub struct Shared<T>(pub Arc<Mutex<T>>);
impl<T> Clone for Shared<T> {
    fn clone(&self) -> Self {
        Shared(self.0.clone())
    }
}
impl<T> Shared<T> {
    pub fn new(t: T) -> Self {
        Shared(Arc::new(Mutex::new(t)))
    }
}
impl<T: Read> Read for Shared<T> {
    fn read(&mut self, buf: &mut [u8]) -> io::Result<usize> {
        self.0.lock().unwrap().read(buf)
    }
}
impl<T: Write> Write for Shared<T> {
    fn write(&mut self, buf: &[u8]) -> io::Result<usize> {
        self.0.lock().unwrap().write(buf)
    }
    fn flush(&mut self) -> io::Result<()> {
        self.0.lock().unwrap().flush()
    }
}
impl<T: Seek> Seek for Shared<T> {
    fn seek(&mut self, p: SeekFrom) -> io::Result<u64> {
        self.0.lock().unwrap().seek(p)
    }
}

/// Vec-backed Read+Write+Seek like Cursor<Vec<u8>>, but a write that would grow the buffer past
/// `max_len` fails with an I/O error (std's Cursor panics with "capacity overflow" or allocates
/// gigabytes when a crafted archive makes the writer seek far away - that is the sink's behaviour,
/// not the crate's).
pub struct BoundedSink {
    pub data: Vec<u8>,
    pub pos: u64,
    pub max_len: u64,
}
impl BoundedSink {
    pub fn new(data: Vec<u8>, slack: u64) -> Self {
        let max_len = data.len() as u64 + slack;
        BoundedSink { data, pos: 0, max_len }
    }
}
impl Read for BoundedSink {
    fn read(&mut self, buf: &mut [u8]) -> io::Result<usize> {
        if self.pos >= self.data.len() as u64 {
            return Ok(0);
        }
        let s = &self.data[self.pos as usize..];
        let n = s.len().min(buf.len());
        buf[..n].copy_from_slice(&s[..n]);
        self.pos += n as u64;
        Ok(n)
    }
}
impl Write for BoundedSink {
    fn write(&mut self, buf: &[u8]) -> io::Result<usize> {
        let end = self.pos.checked_add(buf.len() as u64).ok_or_else(|| io::Error::new(io::ErrorKind::InvalidInput, "position overflow"))?;
        if end > self.max_len {
            return Err(io::Error::new(io::ErrorKind::Other, "sink: write beyond the size limit"));
        }
        if end as usize > self.data.len() {
            self.data.resize(end as usize, 0);
        }
        self.data[self.pos as usize..end as usize].copy_from_slice(buf);
        self.pos = end;
        Ok(buf.len())
    }
    fn flush(&mut self) -> io::Result<()> {
        Ok(())
    }
}
impl Seek for BoundedSink {
    fn seek(&mut self, p: SeekFrom) -> io::Result<u64> {
        let np: i128 = match p {
            SeekFrom::Start(s) => s as i128,
            SeekFrom::End(o) => self.data.len() as i128 + o as i128,
            SeekFrom::Current(o) => self.pos as i128 + o as i128,
        };
        if np < 0 || np > u64::MAX as i128 {
            return Err(io::Error::new(io::ErrorKind::InvalidInput, "invalid seek to a negative or overflowing position"));
        }
        self.pos = np as u64;
        Ok(self.pos)
    }
}
