//! Small shared helpers: hex serde, hashing, panic capture, deterministic RNG mixing.
use std::cell::RefCell;
use std::hash::{Hash, Hasher};
use std::panic::{self, AssertUnwindSafe};

pub mod hexbytes {
    use serde::{Deserialize, Deserializer, Serializer};
    pub fn serialize<S: Serializer>(v: &Vec<u8>, s: S) -> Result<S::Ok, S::Error> {
        s.serialize_str(&super::hex(v))
    }
    pub fn deserialize<'de, D: Deserializer<'de>>(d: D) -> Result<Vec<u8>, D::Error> {
        let s = String::deserialize(d)?;
        super::unhex(&s).map_err(serde::de::Error::custom)
    }
}

pub fn hex(v: &[u8]) -> String {
    const T: &[u8; 16] = b"0123456789abcdef";
    let mut s = String::with_capacity(v.len() * 2);
    for b in v {
        s.push(T[(b >> 4) as usize] as char);
        s.push(T[(b & 15) as usize] as char);
    }
    s
}

pub fn unhex(s: &str) -> Result<Vec<u8>, String> {
    let b = s.as_bytes();
    if b.len() % 2 != 0 {
        return Err("odd hex length".into());
    }
    let nib = |c: u8| -> Result<u8, String> {
        match c {
            b'0'..=b'9' => Ok(c - b'0'),
            b'a'..=b'f' => Ok(c - b'a' + 10),
            b'A'..=b'F' => Ok(c - b'A' + 10),
            _ => Err(format!("bad hex char {c}")),
        }
    };
    let mut out = Vec::with_capacity(b.len() / 2);
    for p in b.chunks(2) {
        out.push(nib(p[0])? << 4 | nib(p[1])?);
    }
    Ok(out)
}

/// FNV-1a based stable hasher (std's SipHash keys are fixed for DefaultHasher::new(), but we
/// want stability independent of the std version for replay file names).
pub struct Fnv(pub u64);
impl Default for Fnv {
    fn default() -> Self {
        Fnv(0xcbf29ce484222325)
    }
}
impl Hasher for Fnv {
    fn finish(&self) -> u64 {
        // final avalanche
        splitmix(self.0)
    }
    fn write(&mut self, bytes: &[u8]) {
        for b in bytes {
            self.0 ^= *b as u64;
            self.0 = self.0.wrapping_mul(0x100000001b3);
        }
    }
}

pub fn hash_of<T: Hash + ?Sized>(v: &T) -> u64 {
    let mut h = Fnv::default();
    v.hash(&mut h);
    h.finish()
}

pub fn hash_str(s: &str) -> u64 {
    let mut h = Fnv::default();
    h.write(s.as_bytes());
    h.finish()
}

pub fn splitmix(mut z: u64) -> u64 {
    z = z.wrapping_add(0x9e3779b97f4a7c15);
    z = (z ^ (z >> 30)).wrapping_mul(0xbf58476d1ce4e5b9);
    z = (z ^ (z >> 27)).wrapping_mul(0x94d049bb133111eb);
    z ^ (z >> 31)
}

/// Tiny deterministic generator for *content expansion* (not for choices: every choice is made by
/// proptest; this only expands a generated (seed,len) pair into bytes so cases stay small).
pub struct Sm(pub u64);
impl Sm {
    pub fn next(&mut self) -> u64 {
        self.0 = self.0.wrapping_add(0x9e3779b97f4a7c15);
        let mut z = self.0;
        z = (z ^ (z >> 30)).wrapping_mul(0xbf58476d1ce4e5b9);
        z = (z ^ (z >> 27)).wrapping_mul(0x94d049bb133111eb);
        z ^ (z >> 31)
    }
    pub fn fill(&mut self, out: &mut [u8]) {
        for ch in out.chunks_mut(8) {
            let v = self.next().to_le_bytes();
            ch.copy_from_slice(&v[..ch.len()]);
        }
    }
}

thread_local! {
    static LAST_PANIC: RefCell<Option<String>> = const { RefCell::new(None) };
}

pub fn install_panic_hook() {
    let verbose = std::env::var("ZV_VERBOSE").is_ok();
    panic::set_hook(Box::new(move |info| {
        let msg = if let Some(s) = info.payload().downcast_ref::<&str>() {
            s.to_string()
        } else if let Some(s) = info.payload().downcast_ref::<String>() {
            s.clone()
        } else {
            "<non-string panic>".to_string()
        };
        let loc = info
            .location()
            .map(|l| format!("{}:{}", l.file(), l.line()))
            .unwrap_or_default();
        let full = format!("{msg} @ {loc}");
        if verbose {
            eprintln!("[panic] {full}");
            if std::env::var("ZV_VERBOSE").map(|v| v == "2").unwrap_or(false) {
                eprintln!("{}", std::backtrace::Backtrace::force_capture());
            }
        }
        LAST_PANIC.with(|p| *p.borrow_mut() = Some(full));
    }));
}

/// Run `f`, converting a panic into Err(message @ file:line).
pub fn catch<T>(f: impl FnOnce() -> T) -> Result<T, String> {
    match panic::catch_unwind(AssertUnwindSafe(f)) {
        Ok(v) => Ok(v),
        Err(_) => Err(LAST_PANIC
            .with(|p| p.borrow_mut().take())
            .unwrap_or_else(|| "<panic>".into())),
    }
}

/// True if a captured panic message originates in the crate under test (path contains the repo
/// source dir) rather than in the harness.
pub fn panic_in_repo(msg: &str) -> bool {
    msg.contains("/repo/src/") || msg.contains("src/write.rs") || msg.contains("src/read.rs")
}

pub fn abbreviate(v: &serde_json::Value) -> serde_json::Value {
    use serde_json::Value as V;
    match v {
        V::String(s) if s.len() > 96 => {
            let head: String = s.chars().take(64).collect();
            V::String(format!("{head}...({} chars)", s.chars().count()))
        }
        V::Array(a) => {
            let mut out: Vec<V> = a.iter().take(10).map(abbreviate).collect();
            if a.len() > 10 {
                out.push(V::String(format!("...({} items)", a.len())));
            }
            V::Array(out)
        }
        V::Object(m) => V::Object(m.iter().map(|(k, v)| (k.clone(), abbreviate(v))).collect()),
        other => other.clone(),
    }
}
