//! Compiles only if ZipArchive<R> is Send + Sync whenever R is (C20). A build failure of this
//! crate (while the main harness builds) is reported as the violation.
fn needs_send_sync<T: Send + Sync>() {}
pub fn probe<R: Send + Sync>() {
    needs_send_sync::<zip::ZipArchive<R>>();
}
pub fn concrete() {
    probe::<std::io::Cursor<Vec<u8>>>();
    probe::<std::fs::File>();
    needs_send_sync::<zip::ZipArchive<std::io::Cursor<std::sync::Arc<[u8]>>>>();
}
