#!/usr/bin/env python3
"""Foreign producer: writes the archive described by a JSON job with CPython's zipfile.
job: {comment: hex, prefix_len: int, streaming: bool, entries: [{name, content: hex, method, comment: hex,
create_system, external_attr, date_time: [y,m,d,h,mi,s], force_zip64}]}"""
import sys, json, zipfile, binascii, io
job = json.load(open(sys.argv[1]))
class Unseekable(io.RawIOBase):
    def __init__(self, f): self.f = f
    def writable(self): return True
    def seekable(self): return False
    def write(self, b): return self.f.write(b)
    def flush(self): self.f.flush()
    def tell(self): raise io.UnsupportedOperation("tell")
with open(sys.argv[2], "wb") as raw:
    raw.write(bytes((i * 37 + 11) & 0xff if (i * 37 + 11) & 0xff != 0x50 else 0x51 for i in range(job["prefix_len"])))
    raw.flush()
    sink = Unseekable(raw) if job["streaming"] else raw
    with zipfile.ZipFile(sink, "w") as z:
        z.comment = binascii.unhexlify(job["comment"])
        for e in job["entries"]:
            zi = zipfile.ZipInfo(e["name"], tuple(e["date_time"]))
            zi.compress_type = e["method"]
            zi.comment = binascii.unhexlify(e["comment"])
            zi.create_system = e["create_system"]
            zi.external_attr = e["external_attr"]
            data = binascii.unhexlify(e["content"])
            with z.open(zi, "w", force_zip64=e["force_zip64"]) as f:
                f.write(data)
