#!/usr/bin/env python3
"""External judge: CPython zipfile. Input: a list file with lines "<path>\t<hex password or empty>".
Output: one line per archive: "" (empty) if accepted, else a short reason. Entries whose method
CPython cannot decode (zstd=93 etc.) are only listed, not tested."""
import sys, zipfile, binascii, json
SUPPORTED = {0, 8, 12, 14}
def judge(path, pw):
    try:
        with zipfile.ZipFile(path) as z:
            if pw is not None:
                z.setpassword(pw)
            infos = z.infolist()
            for zi in infos:
                if zi.compress_type not in SUPPORTED:
                    continue
                if zi.flag_bits & 1 and (pw is None or len(pw) == 0):
                    continue
                with z.open(zi) as f:
                    n = 0
                    while True:
                        b = f.read(1 << 16)
                        if not b: break
                        n += len(b)
                    if n != zi.file_size:
                        return "entry %r: read %d bytes, header says %d" % (zi.filename[:40], n, zi.file_size)
            if len(sys.argv) > 2 and sys.argv[2] == "--json":
                return "JSON " + json.dumps([[zi.filename, zi.file_size, zi.compress_size, zi.CRC, zi.header_offset, zi.compress_type] for zi in infos])
            return ""
    except Exception as e:
        return "%s: %s" % (type(e).__name__, str(e).replace("\n", " ")[:200])
for line in open(sys.argv[1]):
    line = line.rstrip("\n")
    if not line: continue
    path, _, hx = line.partition("\t")
    print(judge(path, binascii.unhexlify(hx) if hx else None))
