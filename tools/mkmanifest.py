#!/usr/bin/env python3
"""Regenerates MANIFEST.json from the table below (single source of truth for the interface)."""
import json, os, sys
ROOT = os.path.dirname(os.path.dirname(os.path.abspath(__file__)))
# id -> (category, technique, level text, level note, design ref)
CHECKS = {
 "C18": ("exploration",
         "exhaustive enumeration of all 2^32 DOS words + per-argument domain sweeps + proptest tuples against an independent packing/calendar model",
         "Complete enumeration of the 2^32 (date,time) words (pack/unpack inverse, accessor model), of every constructor argument over its whole domain with boundary values of the others, of every calendar date 1979-2108 x boundary times, plus 1M random joint tuples and archive round trips of raw timestamp words through the reader and writer. Exhaustive where the space is finite, so for the pure conversions this is as strong as testing can get.",
         "Trusts the `time` crate for building OffsetDateTime inputs; date validity is decided by an independent leap-year rule. Archive part trusts the independent builder/parser in harness/src/refzip.",
         "DESIGN.md §4 C18"),
}
CHECKS["C01"] = ("exploration",
  "model-based round trip: proptest-generated writer programs vs. an executable reference model, read back through the seekable reader; differential finish() vs drop",
  "Generated legal writer programs (all entry kinds, methods x documented levels, names incl. UTF-8/NUL/backslash/empty/duplicates/16-bit boundary lengths, any valid timestamp, any permission bits, large_file, comments to 65535 bytes, hundreds to >65535 entries in thorough) are executed twice (finish and drop) and read back with varied caller buffers; every accessor is compared with a reference model of the program and an independent CRC-32. Failures shrink to a minimal program saved as a replay file.",
  "Third-party codecs (flate2, bzip2, zstd) are trusted; content/CRC oracle is independent of the crate. Symmetric reader/writer mistakes are the business of C02/C03.",
  "DESIGN.md §4 C01")
CHECKS["C02"] = ("exploration",
  "generated writer scenarios judged by an independent strict ZIP parser (differential vs. reference model) plus CPython zipfile / Info-ZIP unzip on a sample; enumerated out-of-range lengths with a reject-or-valid oracle",
  "Generated scenarios (C01 programs plus extra-data, aligned, ZipCrypto, raw-copied and appended entries) are finished and the bytes are judged by a strict parser written from APPNOTE that shares no code with the crate (offsets/counts/sizes exact, local==central, UTF-8 flag, ZIP64 consistency incl. sentinel fields, TLV extras, decoded CRC/size, no gaps/overlaps) and compared field-by-field with the model; a sample of archives is also judged by CPython zipfile and unzip -t. Lengths around 65535/65536 for names, comments and extra data are enumerated: success with a corrupt archive or a panic is the violation.",
  "Strict parser, CPython and Info-ZIP are the trusted judges (the parser is self-tested against CPython/unzip in setup); codecs trusted. Multi-GiB ZIP64 cases are in C08.",
  "DESIGN.md §4 C02")
CHECKS["C03"] = ("exploration",
  "differential against an independent reference builder: proptest-generated archive specs (the spec is the model) read through the seekable reader; second producer CPython zipfile",
  "Specs for an independent APPNOTE-based builder exercise every layout freedom named in the property (data descriptors in 4 shapes, ZIP64 values forced in any subset/order, local ZIP64, unknown extras, comments, DOS/Unix/other systems, any attributes and DOS time bits, shuffled central order, gaps, junk prefix up to 64 KiB, trailing garbage, ZIP64 end records, unsupported methods, duplicate names); every accessor, offset and the content is compared with the spec; lookups by name/index incl. not-found. 300 (quick) archives written by CPython zipfile (seekable/unseekable sinks, force_zip64, prefix) are compared the same way.",
  "The independent builder is the trusted producer (validated against CPython and unzip -t in setup); from_utf8_lossy/CP437 decoding oracles are C19's; codecs trusted.",
  "DESIGN.md §4 C03")
CHECKS["C06"] = ("exploration",
  "exhaustive enumeration of names over a 5-letter alphabet and of component sequences, plus proptest Unicode names, judged by validity predicates and an independent string model",
  "Every string over {a . / \\ NUL} up to length 8 (quick) / 10 (thorough), every sequence of up to 4/6 components from {a,b,.,..,empty} with each separator, leading/trailing/doubled separators and NUL positions, and random Unicode/control names up to 64 KiB are stored in generated archives and observed through the seekable reader's ZipFile, the streaming reader's ZipFile and ZipStreamFileMetadata. The results of enclosed_name/mangled_name are judged by predicates on the result (relative, no NUL, never climbs, only ordinary components, lexically inside any base) and by a string model (Some exactly for safe names).",
  "Unix host path semantics (as the property states). Exhaustive only over the stated finite alphabets/bounds.",
  "DESIGN.md §4 C06")
CHECKS["C19"] = ("exploration",
  "exhaustive enumeration of all 1- and 2-byte names/comments in both flag modes against the CPython CP437 table / std lossy UTF-8; proptest byte strings and writer inputs",
  "All 256 single-byte and all 65536 two-byte names (and comments) with the language-encoding flag set and clear are placed in generated archives and read through the seekable reader, the streaming reader and the stream metadata; random byte strings up to 64 KiB incl. overlong/surrogate/truncated UTF-8; arbitrary Rust strings through every entry-creating writer call (incl. the encryption option) with the stored bytes checked by the independent parser.",
  "CP437 table generated from CPython (regenerated and compared in setup); from_utf8_lossy is the UTF-8 oracle, cross-checked against CPython's 'replace' decoder on 2000 strings per run.",
  "DESIGN.md §4 C19")
CHECKS["C04"] = ("exploration",
  "exhaustive single-bit corruption of seed archives + proptest multi-byte/truncation/swap damage, judged by an invariant with an independent CRC-32 (no model of the data needed)",
  "Every single-bit flip inside every entry's data region and central CRC field of 10 small seed archives (all methods, ZipCrypto, AE-1/AE-2, reference-built and crate-written) is read through the seekable and the streaming reader with caller-buffer schedules incl. zero-length reads; plus random multi-byte damage, truncated payloads and swapped payloads. Invariant: a read that reaches EOF without error returned bytes whose independent CRC-32 equals crc32() (encrypted AE-2 entries exempt); flipped stored data / CRC must fail.",
  "Independent CRC-32; AE-2 exemption applies only to entries that are actually AES-encrypted. Seeds are small; large-entry tampering of AES is C16's.",
  "DESIGN.md §4 C04")
CHECKS["C05"] = ("fault_enumeration",
  "crash-point and byte-substitution enumeration + proptest havoc + structure-aware hostile specs through every reader entry point, with panic capture, I/O-call budget and a counting allocator; supervisor process diagnoses aborts",
  "Every truncation point of the seeds and repository fixtures; every one of the 255 substitute values at every byte outside entry data of 7 (quick) / all seeds; 20k random multi-site edits; 30k structure-aware archives whose header fields are set to boundary values (0, 1, 2^16, 2^32, 2^63, 2^64-1, +-1) incl. AES extras with/without the flag, method 99, short encrypted entries. Each input is opened by ZipArchive::new (+ all accessors, by_index/_raw/_decrypt, by_name/_decrypt, capped reads), read_zipfile_from_stream (none/partial/full consumption), ZipStreamReader::visit and ZipWriter::new_append (+finish, +drop). No panic/abort; I/O calls while opening <= 16*len+1e6; heap while opening <= 512*len+2MiB.",
  "Reads capped at 1 MiB/entry; memory = Rust heap of the opening thread. A loop that never touches the stream would only trip the watchdog (exit 2). Absence of crashes is not shown, only not found.",
  "DESIGN.md §4 C05")
CHECKS["C07"] = ("exploration",
  "proptest archives from safe and hostile name pools extracted into a nested sandbox; oracle = recursive filesystem snapshot diff + tree model",
  "Archives built by the independent builder with names from a safe pool and a hostile pool ('..' chains, absolute paths into a disposable canary location, NUL, backslashes, './..' prefixes, duplicates, file/dir conflicts, symlink-typed entries) are extracted by ZipArchive::extract and ZipStreamReader::extract into a 12-level nested sandbox. Everything outside the target must be unchanged (type, mode, content hash); unsafe names must yield Err; safe archives must yield exactly the modelled tree with contents and mode & 0o777.",
  "Unix host; runs as root in the sandbox (permission bits are compared, not enforced). Hostile names cannot leave the sandbox by construction.",
  "DESIGN.md §4 C07")
CHECKS["C08"] = ("exploration",
  "boundary-value grid on a sparse in-memory sink judged by the independent strict parser, the crate reader and CPython zipfile; exhaustive product of foreign ZIP64 field subsets",
  "Header offsets / start positions / central-directory offsets on {2^32-2..2^32+1}; stored and deflated zero-run entries of 2^32-2 .. 5 GiB with and without large_file (quick: 4 GiB+1; thorough: full grid) written through the crate into a 64 KiB-page sparse file, recovered by the independent parser, by the crate reader (every byte read back, independent zero-run CRC) and by CPython on a hole-punched copy; > 4 GiB without large_file must fail for good; 65534..65537 (..131072) entries; all 2^3 forced-ZIP64 subsets x order x local ZIP64 x descriptors x 9 end-record masks x prefix from the independent builder; hand-laid-out foreign archives with > 4 GiB entries; append onto such a base.",
  "Central directory size >= 4 GiB and compressed > 4 GiB with uncompressed < 4 GiB are not realisable in the sandbox (stated in DESIGN.md). A grid of boundary values, not a sweep.",
  "DESIGN.md §4 C08")
CHECKS["C09"] = ("exploration",
  "differential: harness-owned short-read / short-write schedules (uniform 1..64, one cut at every byte position, random, BufReader) vs. the unchunked run",
  "Every seed archive (all methods, ZipCrypto, AES) x uniform chunk 1..64 x {direct, BufReader 1/7/64/4096} x caller-buffer schedules, and ONE short read at EVERY byte position, through the seekable and streaming readers (incl. partial consumption), must give identical metadata, bytes and error-ness to a plain Cursor read; zero-length reads return 0 and reads after EOF return 0. Writer: generated programs into sinks accepting short writes must produce identical bytes; splitting the caller's writes must give identical decoded entries.",
  "Schedules are owned by the harness (instrumented Read/Write wrappers), so 'every chunking' is an enumerable input.",
  "DESIGN.md §4 C09")
CHECKS["C10"] = ("exploration",
  "differential streaming vs seekable reader over generated archives, consumption patterns and short-read streams; visitor call-sequence model",
  "Crate-written archives (no encryption; incl. large_file, extra data, aligned) and contiguous foreign archives are read front-to-back from a non-seekable chunked stream with per-entry consumption from {0,1,k,all-1,all,half,random}: names, sizes, methods, timestamps, CRC and content prefixes must equal the seekable reader's, followed by end-of-entries; the visitor must call visit_file once per entry in order, then visit_additional_metadata once per entry in order with the central name/comment/mode. Encrypted and data-descriptor entries must produce an error at that entry.",
  "Archives with >= 1 entry, central order == physical order (as the property states).",
  "DESIGN.md §4 C10")
CHECKS["C11"] = ("fault_enumeration",
  "exhaustive fault injection: for each generated scenario the I/O failure is injected at every I/O call index (one-shot and sticky) through an instrumented stream; oracle = no panic + (error reported or result identical to the failure-free run)",
  "Reader scenarios (open + read all entries of seed and generated archives incl. ZIP64, ZipCrypto, AES and nested archives; seekable and streaming) and writer scenarios (generated programs with all entry kinds, extra data, aligned, ZipCrypto, optional append base, raw copies, finish or drop) are run failure-free under a counting stream and then once per I/O call index k with a hard error at k on read/write/flush/seek; remaining calls, finish(), a second finish() and drop are still issued. ~26k fault runs in quick.",
  "Streaming reader: one-shot faults only (a sticky failure reaches the documented panic in the drop-time drain, which is not a Result-returning call). Drop-completed writers: only the no-panic clause.",
  "DESIGN.md §4 C11")
CHECKS["C12"] = ("exploration",
  "model-based testing: exhaustive enumeration of all call sequences up to depth 4 (quick) / 6 (thorough) over a 17-letter writer alphabet + proptest sequences up to 200 calls, against an executable model of the documented state machine",
  "Every call's outcome is compared with the model (Ok / Err / unspecified), no call may panic, and whenever finish() succeeds on a history without unspecified steps the archive must parse strictly and hold exactly the successfully created entries with exactly the accepted bytes (raw copies: source content), as seen by the independent parser and the crate reader.",
  "Undocumented-but-accepted inputs are 'either outcome, no panic'. The encryption option is exercised as start_file+write only.",
  "DESIGN.md §4 C12, §5 state table")
CHECKS["C13"] = ("exploration",
  "model-based histories: base archive x 0..4 (8) append rounds, compared after every round with a reference model by the crate reader and the independent lenient parser",
  "Bases from the crate's writer and from the independent builder (data descriptors, forced ZIP64, prefix, CP437 names, DOS attributes, file comments, unsupported methods, shuffled order, gaps); each round appends 0..3 entries of any kind, optionally changes the comment, and completes by finish or drop. After every round: previous entries unchanged (name, content, method, timestamp, mode), new ones appended, comment kept unless replaced.",
  "File comments/extra fields of old entries are outside the claim. One open known finding (stale end record when the rewritten archive is shorter) is excluded by signature; the archive proper is still fully checked.",
  "DESIGN.md §4 C13")
CHECKS["C14"] = ("exploration",
  "differential raw copy: generated source archives (both producers, short-read source readers) x destination programs interleaving copies with ordinary entries",
  "Destination by_index_raw bytes == source raw bytes; method, CRC, sizes and DOS timestamp words equal; permission bits equal when the source states a mode; decoded content equal where decodable; normally written neighbours intact; strict parse of the destination.",
  "Encrypted sources excluded (property: unencrypted entry). A source mode of exactly 0 states nothing.",
  "DESIGN.md §4 C14")
CHECKS["C15"] = ("exploration",
  "round trip + differential against an independent PKWARE cipher implementation, CPython and unzip; exhaustive over the 256 check-byte values",
  "Entries written with a password (all password classes, methods, contents, positions, ASCII and non-ASCII names) are decrypted by an independent implementation and by CPython/unzip; same password reads back, none -> password-required, other password -> rejected or read error; foreign entries (CRC and Info-ZIP time check bytes, data descriptors) decrypt; for each of the 256 possible check bytes x 2 variants a fixed wrong password is rejected up front exactly when its decrypted check byte differs.",
  "Independent cipher self-tested; CPython/unzip used for non-empty ASCII passwords, non-zstd.",
  "DESIGN.md §4 C15")
CHECKS["C16"] = ("exploration",
  "independent WinZip-AES encryptor (own AES, SHA-1, HMAC, PBKDF2) as producer; exhaustive single-bit tampering of small entries; random tampering of large ones",
  "All (AE-1/AE-2) x (128/192/256) x inner method x content-length classes x password classes: right password -> exact bytes under varied caller buffers; none -> password-required; wrong -> rejected or read error; CRC enforced for AE-1, ignored for AE-2. EVERY single-bit flip of salt, verifier, ciphertext and MAC of 144 small entries must make opening or reading fail; random flips in 40-700 KiB entries.",
  "Primitives validated against FIPS-197 / RFC 2202 / RFC 6070 vectors in setup. One open known finding (AE-2 + compressing method + > 32 KiB ciphertext) excluded by exact signature.",
  "DESIGN.md §4 C16")
CHECKS["C17"] = ("exploration",
  "grid + proptest over alignments, preceding offsets and extra-data record lists, judged by the independent parser and the reader (thorough: all 65536 alignments)",
  "Alignment values x preceding offsets (targeted residues so the padding record is 0, 4, ... bytes or lands next to the 16-bit limit) x large_file: data offset is a multiple of the alignment in the bytes and as reported by the reader, returned padding size is right, content round-trips, neighbours intact, alignments <= 32768 succeed, unrepresentable padding is refused. Extra data: valid record lists stored verbatim (local after the writer's own ZIP64 record, central returned by extra_data()); truncated records, the ZIP64 ID, reserved IDs and oversize data are refused.",
  "Reserved IDs = 0..31 + APPNOTE-registered list (copied from APPNOTE, also used by the crate).",
  "DESIGN.md §4 C17")
CHECKS["C20"] = ("exploration",
  "exhaustive enumeration of API-level interleavings of per-handle scripts on one thread vs. the script run alone; multi-thread stress with generated orders/yields; compile-time Send/Sync build probe",
  "2-3 clones x generated scripts {open by index/name, read k, read to end, close}: every interleaving (<= 1680 per script set; ~13k per quick run) must give each handle exactly the observations of the same script on an archive used alone. Fresh archive x N in {2,4,8,16} OS threads released from a barrier, shared-prefix orders, by index and by name. A probe crate compiles only if ZipArchive<R>: Send + Sync for R: Send + Sync.",
  "OS thread schedules are sampled, not enumerated; the single-thread enumeration is the deciding part. Send/Sync is observed by a build probe (not generated inputs) because it is a compile-time fact.",
  "DESIGN.md §4 C20")
# additions of the third session (appended to the level text above)
ADD = {
 "C01": " Also EVERY archive-comment length 0..=65535 (with a name of the same length every 16th case) goes through writer and reader, so no magic length of the end-record search is left out.",
 "C02": " The reject domain is also run on a sparse sink whose start position lies just below / above 2^32 (central records then carry the writer's own ZIP64 record next to the caller's extra data) and with the caller carrying on after a refusal: whenever finish() reports success the archive must parse strictly and hold exactly the entries whose creation succeeded.",
 "C03": " tail_sweep / prefix_sweep: every length 0..=65535 of comment (+ trailing garbage) and of prepended data, with and without ZIP64 end records (exhaustive over the length). Entries also carry well-formed third-party records (Info-ZIP Unicode Path/Comment with matching CRC and different text, extended timestamp, Unix, NTFS), unflagged names that happen to be valid UTF-8, components > 255 bytes with multi-byte characters, drive prefixes, and name+extra lengths whose sum exceeds 16 bits.",
 "C05": " A worker killed by a fatal signal raised inside libbz2 (listed known finding bzip2-c-decoder-uninitialised-read) is restarted with that case left out and counted; the stored reproducer is re-run in a child process with MALLOC_PERTURB_=1. After a read error the driver keeps calling read (must not panic).",
 "C06": " mixed_separators: every sequence of <= 6 (7) components with '/' or '\\' chosen independently at every joint; special_names: drive-letter/UNC/device prefixes and components > 255 bytes with multi-byte characters around offset 255; every batch mixes producer host systems (Unix, MS-DOS, NTFS, other).",
 "C07": " A third of the archives shuffle the central directory against the physical order, directory entries may follow their children, a quarter of the cases pass a relative target with leading '..' components (the worker parks its working directory), mixed '\\' and '/' separators in front of '..' chains, symlink-typed entries in the safe pool, and a one-bit damage variant: extract() either fails or has written only original content.",
 "C08": " Compressing method beyond 4 GiB without large_file (finish() must not succeed afterwards) is part of the quick tier.",
 "C09": " Larger AES seed entries and caller-buffer schedules with big reads after unaligned ones; uniform chunk sizes up to 4095; the caller's pieces are delivered by write_all, by write() loops honouring the returned counts, or by write_vectored.",
 "C10": " counts: crate-written archives with 65535/65536 (thorough ..70000) entries through both streaming APIs.",
 "C11": " big_open: archives with > 65535 entries, a fault at each of the first K I/O calls of ZipArchive::new and of new_append (+1 entry, finish).",
 "C12": " The alphabet also holds start_file with a 65536-byte name and set_comment with a 65536-byte comment; extra_ids enumerates EVERY 16-bit header ID x {only, second record} x {local, central-only}. After a refused call whose effect is not documented the history is unspecified (sound), but every finish() that reports success is still checked: the archive parses, every entry decodes to its declared CRC/size, the crate reopens it and the entries completed before are intact.",
 "C13": " big_bases: 65534/65535-entry bases (bare / behind prepended data) with rounds crossing the 16-bit count; cpython_bases: archives written by CPython zipfile; rounds may contain raw copies from another archive before or after their own entries.",
 "C14": " straddle: hand-laid-out sparse sources whose declared uncompressed/compressed sizes lie on either side of 4 GiB; local header, central record and both readers must state the source sizes.",
 "C15": " Foreign encrypted entries vary producer id (host system, version), DOS date and carry third-party records (e.g. an extended timestamp differing from the DOS time the Info-ZIP check byte is taken from); the 256-value check-byte family is run for four producer ids.",
 "C17": " Alignment is also exercised with the sink starting around and beyond 2^32 (sparse sink); after refused extra data the caller carries on: an archive then reported as finished must be valid and must not carry the refused bytes.",
 "C18": " cal_offsets: OffsetDateTime values with non-UTC offsets at the ends of the year range (no panic; accepted values valid and equal to the wall-clock or UTC reading; survive packing and an archive round trip); the archive-level sweep also attaches extended-timestamp / NTFS / Unix time records stating a different time.",
 "C19": " Entries optionally carry Info-ZIP Unicode Path/Comment records with matching CRC and a different text (decoding must still follow the flag and the header bytes); names also go through raw_copy_file_rename.",
 "C20": " The underlying reader's clone() keeps the position, rewinds or lands elsewhere; clones are also taken from a handle that has just been used; faulty_sibling: the other clone's own reader fails or panics at every I/O call index, the sibling must observe exactly what a handle used alone observes.",
}
for k, v in ADD.items():
    c = CHECKS[k]
    CHECKS[k] = (c[0], c[1], c[2] + v, c[3], c[4])
# additions of the fifth session
ADD5 = {
 "C01": " from_path: the path-taking entry points (start_file_from_path / add_directory_from_path: only Normal components, joined by '/') and set_comment(String) against a model of their documentation; is_dir()/is_file() follow the name.",
 "C02": " After a refused finish() (over-long comment) the caller sets a shorter comment and calls finish() again: success then means a valid archive with exactly the model's entries. raw_straddle: raw copies of hand-laid-out sparse sources whose sizes lie on different sides of 4 GiB.",
 "C07": " Entries carry any MS-DOS attribute byte next to their Unix mode, or are made by MS-DOS (mode derived from the DOS attributes).",
 "C08": " subsets also vary the ZIP64 end record's extensible data sector (size field 44+n) and the local-header layout of data-descriptor entries (zeros / ZIP64 markers / real sizes); append_large_prefixed: append onto > 4 GiB foreign bases behind prepended data with archive-relative offsets.",
 "C09": " Observations include file comments, central extra data and the archive-level values (entry count, offset(), archive comment).",
 "C10": " unsupported: data-descriptor entries of streaming-ZIP64 producers (0xFFFFFFFF markers, zeroed ZIP64 record) must be refused; descriptor entries that also carry their sizes in the header are refused or served with exactly the right data.",
 "C13": " large_bases: hand-laid-out sparse foreign bases with entries / header offsets beyond 4 GiB, bare and behind prepended data, one append round.",
 "C05": " A stack overflow (inputs rich in record signatures run on a 1 MiB-stack thread) is diagnosed like any other abort: the fatal-signal dump runs on the alternate signal stack.",
 "C11": " Injected failures carry different io::ErrorKinds: Other (one-shot and sticky), UnexpectedEof (one-shot and sticky) and Interrupted (one-shot; std's retry loops swallow it, the result must then be the failure-free one). Archives with encrypted entries are swept a second time with a persistent caller (5-byte reads, read() called again after an error). Observations include file comments, central extra data and archive-level values.",
 "C18": " Offsets are also applied at the very ends of the time crate's range (years -9999, 0, 1, 9999), where the UTC reading may not be representable: still no panic.",
 "C20": " Scripts also open entries raw and with the right / a wrong / an empty password (plain and ZipCrypto entries), and query the accessors of an open entry again after other handles have acted (e.g. a refused open of the same entry on a sibling).",
}
for k, v in ADD5.items():
    c = CHECKS[k]
    CHECKS[k] = (c[0], c[1], c[2] + v, c[3], c[4])
# additions of the sixth session
ADD6 = {
 "C07": " A file's parent directory may get its explicit entry, with permission bits of its own, only after the file. The reader handed to extract() serves short reads and reports ErrorKind::Interrupted before every n-th read (only where no entry is abandoned half-read): a safe archive must still extract completely.",
 "C09": " A zero-length read may precede the abandoning of a partly read streamed entry. apis: after the scheduled plain reads the caller finishes each entry through another Read entry point (read_to_end, read_exact(size)+read_to_end, io::copy, read_vectored, bytes(), read_to_string) x chunk schedules x schedules on which the underlying reader reports ErrorKind::Interrupted before every n-th read (the caller retries, as the Read contract asks) x every seed archive, seekable and (fully consumed) streaming; the random tier draws API and interrupt schedule as well.",
 "C10": " damaged: one byte of one entry's data (4 methods, 1 B..300 KB) is altered; the stream must list the same entries as the seekable reader over the same bytes and deliver every entry the seekable reader delivers - in particular those behind the damaged one - whether the consumer reads the damaged entry to its error, half of it, or skips it.",
 "C16": " tamper_tail: entries whose compressed length ends 1..12 bytes behind a multiple of 8 / 32 / 128 KiB (found by search), every bit of the authentication code and of the last two ciphertext bytes flipped, read with one big buffer and with small ones.",
 "C11": " Whenever a second finish() reports success after the first one failed, the archive it finished must be sound (independent parser accepts it, every entry reads back, encrypted ones with a password the scenario used); the seek-fault variant is a listed open finding. Reader scenarios with a nested archive keep an archive comment; the streaming reader is swept once more with a consumer that skips every entry (a panic of the drop-time drain is accepted there, a clean end with a different entry list is not); long runs (> 3000 I/O calls) are swept at the first/last 1200 call indices and 600 evenly spaced ones. Half of the writer scenarios use a caller that issues EVERY call of an operation whatever the earlier ones returned (write after a refused start_file, end_extra_data after a failed write) and calls flush() after each operation; writers_methods: every method x every kind of following operation under both callers; writers_far: a run whose sink starts beyond 4 GiB (ZIP64 end record + locator are written) with EVERY I/O call failed in turn. A call that never returns is left out by the stall monitor and ends the check inconclusive (exit 2) unless other cases show a violation.",
 "C13": " long_text_bases: reference-built bases with a 300..65535-byte name and/or file comment of CP437 high bytes, invalid UTF-8 under the language flag or valid UTF-8 (text that grows when re-encoded): a refusal is accepted when the text no longer fits 16 bits, a reported success must be a valid archive holding every old entry.",
 "C17": " A third of the extra-data cases first deliver the last buffer only up to a cut inside a record, get end_extra_data()'s refusal, deliver the rest and continue: placement (local part only in the local header, central part only in the central record) and the announced data start must be as for an undisturbed sequence.",
 "C02": " Extra-data and aligned entries may carry the ZipCrypto option; in the reject domain the caller still writes the data of an entry whose extra data was refused (compressing method every other length).",
 "C03": " Method-93 entries of the foreign generator may consist of several concatenated Zstandard frames.",
 "C04": " size_lies: entries whose data decodes to more bytes than they declare while the declared CRC is that of the declared prefix, read with call boundaries exactly at the declared size and through read_exact(size)+read_to_end.",
 "C06": " special_names also holds ordinary components that only look like '.' / '..' (trailing / leading blanks, more dots, TAB, NBSP) in every position.",
 "C12": " The option domain of every entry-creating call includes the ZipCrypto password (start_file_with_extra_data + password is a letter of the exhaustive alphabet).",
 "C15": " The encrypted entry is also started through start_file_aligned and start_file_with_extra_data (shared / split extra data).",
 "C18": " Calendar values also carry sub-second parts (1 ns, 0.5 s, 999999999 ns): accepted exactly when the plain second is.",
 "C20": " faulty_sibling fails with kinds Other / UnexpectedEof / InvalidData / TimedOut or a panic, and every other round the healthy clone holds the entry open across the victim's step (data_start and content must stay what a handle used alone sees); scripts also open ZipCrypto entries with a WRONG password found (by search with the independent cipher) to pass the one-byte header check; mode_pairs: for every entry of a fixed archive (plain / ZipCrypto x stored / deflated) every pair of ways to open it on two clones, each reading to the end, all interleavings.",
}
for k, v in ADD6.items():
    c = CHECKS[k]
    CHECKS[k] = (c[0], c[1], c[2] + v, c[3], c[4])
PENDING = {}
props = [json.loads(l) for l in open(os.path.join(ROOT, "properties.jsonl"))]
checks = []
na = []
for p in props:
    pid = p["id"]
    if pid in CHECKS:
        cat, tech, text, note, ref = CHECKS[pid]
        checks.append({
            "property_id": pid,
            "quick_cmd": f"./check {pid} quick",
            "thorough_cmd": f"./check {pid} thorough",
            "evidence_file": f"/verif/evidence/{pid}.json",
            "replay_cmd_template": "./check replay {path}",
            "engine": "zipverif",
            "level_claimed": {"category": cat, "text": text, "design_ref": ref},
            "level_note": note,
            "technique": tech,
        })
    else:
        na.append({"property_id": pid, "reason": PENDING.get(pid, "check not built yet in this session (planned in DESIGN.md §4; the technique applies)")})
m = {
 "version": 1,
 "setup_cmd": "./check selftest",
 "hooks": {"guard": "zip_rs_zip_verif", "enable": "none needed: all observations go through the public API (incl. zip::unstable); checks build /repo as a path dependency with profile `verif` (debug-assertions + overflow-checks on)",
           "baseline_off_cmd": "cd /repo && cargo test --workspace --no-fail-fast --offline", "source_commits": [], "add_only": True},
 "engines": [{"name": "zipverif", "path": "/verif/harness", "serves_properties": [c["property_id"] for c in checks],
              "kind_free_text": "Rust harness: proptest-driven generated-input search (per-case RNG streams, sharded over all cores, shrinking to replay files), exhaustive enumerations of finite sub-spaces, fault/chunk-schedule injection through instrumented streams, independent reference ZIP builder/strict parser/crypto as oracles, supervisor process for abort/hang diagnosis"}],
 "checks": checks,
 "not_applicable": na,
 "notes": "Exit codes: 0 held, 1 violation (VIOLATION line with replay file), 2 inconclusive (build failure, self-test failure, watchdog, or test executions that never returned - the stall monitor leaves them out, reports violations other cases show, and otherwise ends inconclusive). VERIF_SEED selects the PRNG streams. KNOWN_FINDINGS.txt lists open/fixed findings (4 open: C05 bzip2-c-decoder-uninitialised-read, C11 seek-fault-while-closing-then-finish-again, C13 append-leaves-stale-tail, C16 ae2-compressed-early-stream-end; 16 fixed by unguarded fix: commits in /repo).",
}
json.dump(m, open(os.path.join(ROOT, "MANIFEST.json"), "w"), indent=1)
print("checks:", len(checks), "not_applicable:", len(na))
