#!/usr/bin/env python3
"""Regenerates MANIFEST.json from the table below (single source of truth for the interface)."""
import json, os, sys
ROOT = os.path.dirname(os.path.dirname(os.path.abspath(__file__)))
# id -> (category, technique, level text, level note, design ref)
CHECKS = {
 "C18": ("exploration",
         "exhaustive enumeration of all 2^32 DOS words + per-argument domain sweeps + proptest tuples against an independent packing/calendar model",
         "Complete enumeration of the 2^32 (date,time) words (pack/unpack inverse, accessor model), of every constructor argument over its whole domain with boundary values of the others, of every calendar date 1979-2108 x boundary times, plus 1M random joint tuples and archive round trips of raw timestamp words through the reader and writer. Exhaustive where the space is finite, so for the pure conversions this is as strong as testing can get.",
         "Trusts the `time` crate for building OffsetDateTime inputs; date validity is decided by an independent leap-year rule. Archive part trusts the independent builder/parser in harness/src/refzip.",
         "DESIGN.md §4 C18"),
}
CHECKS["C01"] = ("exploration",
  "model-based round trip: proptest-generated writer programs vs. an executable reference model, read back through the seekable reader; differential finish() vs drop",
  "Generated legal writer programs (all entry kinds, methods x documented levels, names incl. UTF-8/NUL/backslash/empty/duplicates/16-bit boundary lengths, any valid timestamp, any permission bits, large_file, comments to 65535 bytes, hundreds to >65535 entries in thorough) are executed twice (finish and drop) and read back with varied caller buffers; every accessor is compared with a reference model of the program and an independent CRC-32. Failures shrink to a minimal program saved as a replay file.",
  "Third-party codecs (flate2, bzip2, zstd) are trusted; content/CRC oracle is independent of the crate. Symmetric reader/writer mistakes are the business of C02/C03.",
  "DESIGN.md §4 C01")
CHECKS["C02"] = ("exploration",
  "generated writer scenarios judged by an independent strict ZIP parser (differential vs. reference model) plus CPython zipfile / Info-ZIP unzip on a sample; enumerated out-of-range lengths with a reject-or-valid oracle",
  "Generated scenarios (C01 programs plus extra-data, aligned, ZipCrypto, raw-copied and appended entries) are finished and the bytes are judged by a strict parser written from APPNOTE that shares no code with the crate (offsets/counts/sizes exact, local==central, UTF-8 flag, ZIP64 consistency incl. sentinel fields, TLV extras, decoded CRC/size, no gaps/overlaps) and compared field-by-field with the model; a sample of archives is also judged by CPython zipfile and unzip -t. Lengths around 65535/65536 for names, comments and extra data are enumerated: success with a corrupt archive or a panic is the violation.",
  "Strict parser, CPython and Info-ZIP are the trusted judges (the parser is self-tested against CPython/unzip in setup); codecs trusted. Multi-GiB ZIP64 cases are in C08.",
  "DESIGN.md §4 C02")
CHECKS["C03"] = ("exploration",
  "differential against an independent reference builder: proptest-generated archive specs (the spec is the model) read through the seekable reader; second producer CPython zipfile",
  "Specs for an independent APPNOTE-based builder exercise every layout freedom named in the property (data descriptors in 4 shapes, ZIP64 values forced in any subset/order, local ZIP64, unknown extras, comments, DOS/Unix/other systems, any attributes and DOS time bits, shuffled central order, gaps, junk prefix up to 64 KiB, trailing garbage, ZIP64 end records, unsupported methods, duplicate names); every accessor, offset and the content is compared with the spec; lookups by name/index incl. not-found. 300 (quick) archives written by CPython zipfile (seekable/unseekable sinks, force_zip64, prefix) are compared the same way.",
  "The independent builder is the trusted producer (validated against CPython and unzip -t in setup); from_utf8_lossy/CP437 decoding oracles are C19's; codecs trusted.",
  "DESIGN.md §4 C03")
CHECKS["C06"] = ("exploration",
  "exhaustive enumeration of names over a 5-letter alphabet and of component sequences, plus proptest Unicode names, judged by validity predicates and an independent string model",
  "Every string over {a . / \\ NUL} up to length 8 (quick) / 10 (thorough), every sequence of up to 4/6 components from {a,b,.,..,empty} with each separator, leading/trailing/doubled separators and NUL positions, and random Unicode/control names up to 64 KiB are stored in generated archives and observed through the seekable reader's ZipFile, the streaming reader's ZipFile and ZipStreamFileMetadata. The results of enclosed_name/mangled_name are judged by predicates on the result (relative, no NUL, never climbs, only ordinary components, lexically inside any base) and by a string model (Some exactly for safe names).",
  "Unix host path semantics (as the property states). Exhaustive only over the stated finite alphabets/bounds.",
  "DESIGN.md §4 C06")
CHECKS["C19"] = ("exploration",
  "exhaustive enumeration of all 1- and 2-byte names/comments in both flag modes against the CPython CP437 table / std lossy UTF-8; proptest byte strings and writer inputs",
  "All 256 single-byte and all 65536 two-byte names (and comments) with the language-encoding flag set and clear are placed in generated archives and read through the seekable reader, the streaming reader and the stream metadata; random byte strings up to 64 KiB incl. overlong/surrogate/truncated UTF-8; arbitrary Rust strings through every entry-creating writer call (incl. the encryption option) with the stored bytes checked by the independent parser.",
  "CP437 table generated from CPython (regenerated and compared in setup); from_utf8_lossy is the UTF-8 oracle, cross-checked against CPython's 'replace' decoder on 2000 strings per run.",
  "DESIGN.md §4 C19")
PENDING = {}
props = [json.loads(l) for l in open(os.path.join(ROOT, "properties.jsonl"))]
checks = []
na = []
for p in props:
    pid = p["id"]
    if pid in CHECKS:
        cat, tech, text, note, ref = CHECKS[pid]
        checks.append({
            "property_id": pid,
            "quick_cmd": f"./check {pid} quick",
            "thorough_cmd": f"./check {pid} thorough",
            "evidence_file": f"/verif/evidence/{pid}.json",
            "replay_cmd_template": "./check replay {path}",
            "engine": "zipverif",
            "level_claimed": {"category": cat, "text": text, "design_ref": ref},
            "level_note": note,
            "technique": tech,
        })
    else:
        na.append({"property_id": pid, "reason": PENDING.get(pid, "check not built yet in this session (planned in DESIGN.md §4; the technique applies)")})
m = {
 "version": 1,
 "setup_cmd": "./check selftest",
 "hooks": {"guard": "zip_rs_zip_verif", "enable": "none needed: all observations go through the public API (incl. zip::unstable); checks build /repo as a path dependency with profile `verif` (debug-assertions + overflow-checks on)",
           "baseline_off_cmd": "cd /repo && cargo test --workspace --no-fail-fast --offline", "source_commits": [], "add_only": True},
 "engines": [{"name": "zipverif", "path": "/verif/harness", "serves_properties": [c["property_id"] for c in checks],
              "kind_free_text": "Rust harness: proptest-driven generated-input search (per-case RNG streams, sharded over all cores, shrinking to replay files), exhaustive enumerations of finite sub-spaces, fault/chunk-schedule injection through instrumented streams, independent reference ZIP builder/strict parser/crypto as oracles, supervisor process for abort/hang diagnosis"}],
 "checks": checks,
 "not_applicable": na,
 "notes": "Exit codes: 0 held, 1 violation (VIOLATION line with replay file), 2 inconclusive (build failure, self-test failure, watchdog). VERIF_SEED selects the PRNG streams. KNOWN_FINDINGS.txt lists open/fixed findings.",
}
json.dump(m, open(os.path.join(ROOT, "MANIFEST.json"), "w"), indent=1)
print("checks:", len(checks), "not_applicable:", len(na))
