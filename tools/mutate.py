#!/usr/bin/env python3
"""Poor man's mutation testing of zip-rs/zip against the quick tiers (no cargo-mutants in this sandbox).

Works on private copies (git worktree of /repo HEAD + rsync of /verif under --iso DIR, path dependency
rewritten), so /repo and /verif are never touched. For each sampled mutation site:
  1. apply a one-token mutation to a file under src/;
  2. build; skip mutants that do not compile;
  3. run the repository's own test suite; mutants it kills are uninteresting (the suite already sees them);
  4. run the quick checks in a fixed order until one reports a VIOLATION (exit 1);
  5. record: killed-by=<Cxx> or SURVIVED (then the diff is kept for manual triage: equivalent mutant,
     behaviour outside the 20 properties, or a blind spot).
usage: tools/mutate.py --iso /var/tmp/zvx --seed 1 --count 60 [--files read.rs,write.rs] [--out FILE]
"""
import json, os, random, re, subprocess, sys, time

ROOT = os.path.dirname(os.path.dirname(os.path.abspath(__file__)))
args = sys.argv[1:]
opt = {"--iso": "/var/tmp/zvx", "--seed": "1", "--count": "40", "--files": "", "--out": ""}
while args:
    a = args.pop(0)
    opt[a] = args.pop(0)
ISO = opt["--iso"]; REPO = ISO + "/repo"; VER = ISO + "/verif"
OUT = opt["--out"] or f"{ROOT}/seeded/mutation-run-seed{opt['--seed']}.jsonl"


def sh(cmd, timeout=None):
    try:
        return subprocess.run(cmd, shell=True, capture_output=True, text=True, timeout=timeout)
    except subprocess.TimeoutExpired:
        class R: returncode = 124; stdout = ""; stderr = "timeout"
        return R()


os.makedirs(ISO, exist_ok=True)
sh(f"git -C /repo worktree remove --force {REPO}"); sh("git -C /repo worktree prune")
assert sh(f"git -C /repo worktree add --detach {REPO} HEAD").returncode == 0
sh(f"mkdir -p {VER} && rsync -a --delete --exclude .git --exclude harness/target --exclude harness/fuzz/target --exclude 'harness/fuzz/run-*' --exclude probes/c20_sendsync/target --exclude replays --exclude evidence {ROOT}/ {VER}/")
sh(f"mkdir -p {VER}/evidence {VER}/replays")
sh(f"sed -i 's#path = \"/repo\"#path = \"{REPO}\"#' {VER}/harness/Cargo.toml {VER}/harness/fuzz/Cargo.toml {VER}/probes/c20_sendsync/Cargo.toml")

FILES = [f for f in (opt["--files"].split(",") if opt["--files"] else
         ["read.rs", "write.rs", "spec.rs", "types.rs", "crc32.rs", "zipcrypto.rs", "aes.rs", "aes_ctr.rs", "read/stream.rs", "compression.rs", "cp437.rs"]) if f]
# (regex, replacement) one-token mutations; applied to ONE occurrence on ONE line
MUT = [
    (r" >= ", " > "), (r" > ", " >= "), (r" <= ", " < "), (r" < ", " <= "), (r" == ", " != "), (r" != ", " == "),
    (r" && ", " || "), (r" \|\| ", " && "), (r" \+ 1\b", " + 0"), (r" - 1\b", " - 0"), (r" \+ ", " - "), (r" - ", " + "),
    (r"\btrue\b", "false"), (r"\bfalse\b", "true"), (r"\b0xFFFF\b", "0xFFFE"), (r"\bu16::MAX\b", "(u16::MAX - 1)"),
    (r"\bu32::MAX\b", "(u32::MAX - 1)"), (r" << ", " >> "), (r" >> ", " << "), (r" \| ", " & "), (r" & ", " | "),
    (r"\.min\(", ".max("), (r"\.max\(", ".min("), (r"\bchecked_add\b", "checked_sub"), (r"\bchecked_sub\b", "checked_add"),
    (r"\b(\d+)u64\b", lambda m: f"{int(m.group(1)) + 1}u64"), (r"\b([1-9]\d?)\b(?![.\w])", lambda m: str(int(m.group(1)) + 1)),
    (r"\?;$", ".ok();"),
    (r"\bif !", "if "), (r"\.is_some\(\)", ".is_none()"), (r"\.is_none\(\)", ".is_some()"), (r"\.is_empty\(\)", ".is_empty() == false"),
    (r"\b0x([0-9a-fA-F]{2,8})\b", lambda m: "0x%x" % (int(m.group(1), 16) ^ 1)),
    (r"\bas u16\b", "as u8 as u16"), (r"\bas u32\b", "as u16 as u32"), (r"\bu64::from\(", "u64::from(1 + "),
    (r"\bsaturating_sub\b", "wrapping_sub"),
    # statement deletion: a stand-alone call statement (no binding, no control flow)
    (r"^\s*(self|writer|reader|w|r|file|data|hasher|buf|result|zip)[\w.]*\([^;]*\)\??;\s*$", "DELETE"),
]
sites = []
for f in FILES:
    p = f"{REPO}/src/{f}"
    if not os.path.exists(p):
        continue
    lines = open(p).read().split("\n")
    in_test = False
    for i, l in enumerate(lines):
        if "#[cfg(test)]" in l:
            in_test = True
        if in_test:
            continue
        s = l.strip()
        if not s or s.startswith("//") or s.startswith("#[") or s.startswith("use ") or "debug_assert" in s or s.startswith("///"):
            continue
        for k, (rx, rep) in enumerate(MUT):
            for m in re.finditer(rx, l):
                sites.append((f, i, k, m.start()))
rnd = random.Random(int(opt["--seed"]))
rnd.shuffle(sites)
ORDER = ["C12", "C17", "C18", "C19", "C06", "C04", "C13", "C14", "C15", "C02", "C03", "C01", "C10", "C16", "C09", "C08", "C20", "C07", "C11", "C05"]
FIRST = {"write.rs": ["C02", "C12", "C01", "C17", "C13", "C14", "C08", "C11", "C09", "C15"], "read.rs": ["C03", "C05", "C04", "C06", "C19", "C10", "C16", "C15", "C07", "C20", "C09", "C11"],
         "read/stream.rs": ["C10", "C07", "C05", "C19"], "spec.rs": ["C03", "C02", "C08", "C05", "C13"], "types.rs": ["C18", "C06", "C03", "C02", "C08", "C19"],
         "crc32.rs": ["C04", "C09", "C16"], "zipcrypto.rs": ["C15", "C09", "C04"], "aes.rs": ["C16", "C09", "C05"], "aes_ctr.rs": ["C16", "C09"], "compression.rs": ["C03", "C01", "C12"], "cp437.rs": ["C19", "C03"]}
def order_for(f): return FIRST.get(f, []) + [c for c in ORDER if c not in FIRST.get(f, [])]
done = 0
print(f"{len(sites)} candidate sites; sampling {opt['--count']}", flush=True)
with open(OUT, "a") as out:
    for (f, i, k, pos) in sites:
        if done >= int(opt["--count"]):
            break
        p = f"{REPO}/src/{f}"
        sh(f"git -C {REPO} checkout -- .")
        lines = open(p).read().split("\n")
        rx, rep = MUT[k]
        m = re.compile(rx).match(lines[i], pos) or re.compile(rx).search(lines[i], pos)
        if not m:
            continue
        new = "" if rep == "DELETE" else lines[i][:m.start()] + (rep(m) if callable(rep) else rep) + lines[i][m.end():]
        if new == lines[i]:
            continue
        old_line = lines[i]
        lines[i] = new
        open(p, "w").write("\n".join(lines))
        rec = {"file": f, "line": i + 1, "old": old_line.strip(), "new": new.strip()}
        t0 = time.time()
        b = sh(f"cd {VER} && ./check build", timeout=900)
        if b.returncode != 0:
            rec["result"] = "does-not-compile"
            print(json.dumps(rec), flush=True)
            continue
        t = sh(f"cd {REPO} && CARGO_TARGET_DIR={ISO}/suite-target cargo test --offline 2>&1 | tail -40", timeout=1200)
        if "test result: FAILED" in t.stdout or "error: test failed" in t.stdout or "error[" in t.stdout or t.returncode == 124:
            rec["result"] = "killed-by-repo-suite"
            print(json.dumps(rec), flush=True)
            continue
        done += 1
        rec["result"] = "SURVIVED"
        for c in order_for(f):
            r = sh(f"cd {VER} && ./check {c} quick", timeout=2400)
            if r.returncode == 1 and "VIOLATION" in r.stdout:
                msg = [l.strip() for l in r.stdout.splitlines() if "message=" in l][:1]
                rec["result"] = "killed"; rec["by"] = c; rec["message"] = (msg[0][:240] if msg else "")
                break
            if r.returncode == 2:
                rec.setdefault("inconclusive", []).append(c)
        rec["wall_s"] = round(time.time() - t0)
        out.write(json.dumps(rec) + "\n"); out.flush()
        print(json.dumps(rec), flush=True)
sh(f"git -C {REPO} checkout -- .")
sh(f"git -C /repo worktree remove --force {REPO}")
