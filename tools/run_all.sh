#!/bin/bash
# runs every check's quick (or given) tier; prints one line per property
T="${1:-quick}"
cd "$(dirname "$0")/.."
for i in $(seq -w 1 20); do
  p="C$i"; s=$(date +%s.%N)
  out=$(./check $p $T 2>&1); code=$?
  e=$(date +%s.%N)
  printf "%s exit=%d %.1fs %s\n" $p $code $(echo "$e - $s" | bc) "$(echo "$out" | grep -E "^\[$p\] (quick|thorough)" | tail -1 | sed 's/^\[C..\] //')"
  echo "$out" | grep -E "VIOLATION|HARNESS|inconclusive" | head -3
done
