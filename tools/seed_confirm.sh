#!/bin/bash
# Confirms a seeded change: (1) patch applies to /repo HEAD, (2) repo test suite passes with it,
# (3) demo fails with it, (4) demo passes without it. Uses a scratch worktree; removes it afterwards.
# usage: tools/seed_confirm.sh <dir containing patch.diff and demo.rs> ; prints one summary line
set -u
D="$1"; TAG=$(echo "$D" | tr '/' '_' | tr -cd 'A-Za-z0-9_')
WT=/tmp/sc-wt-$TAG
export CARGO_TARGET_DIR=/tmp/sc-target CARGO_NET_OFFLINE=true
git -C /repo worktree remove --force "$WT" >/dev/null 2>&1
git -C /repo worktree add -q --detach "$WT" HEAD || { echo "$D: worktree failed"; exit 2; }
cd "$WT"
res=""
if git apply --check "$D/patch.diff" 2>/dev/null; then git apply "$D/patch.diff"; res="applies"
elif git apply --3way "$D/patch.diff" >/dev/null 2>&1; then res="applies-3way"
else res="NOAPPLY"; fi
if [ "$res" != "NOAPPLY" ]; then
  if cargo test --offline >/tmp/sc-$TAG.suite.log 2>&1; then res="$res suite-pass"; else res="$res SUITE-FAIL"; fi
  cp "$D/demo.rs" tests/seeded_demo.rs
  if timeout 900 cargo test --offline --test seeded_demo >/tmp/sc-$TAG.demo-with.log 2>&1; then res="$res DEMO-PASSES-WITH"; else res="$res demo-fails-with"; fi
  git checkout -q -- . ; git reset -q --hard HEAD; cp "$D/demo.rs" tests/seeded_demo.rs
  if timeout 900 cargo test --offline --test seeded_demo >/tmp/sc-$TAG.demo-without.log 2>&1; then res="$res demo-passes-without"; else res="$res DEMO-FAILS-WITHOUT"; fi
fi
cd /; git -C /repo worktree remove --force "$WT" >/dev/null 2>&1
echo "$D: $res"
