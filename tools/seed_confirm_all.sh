#!/bin/bash
# confirms every seeded/<id> that has no meta.json yet (or those given) and writes the meta.json stub
cd "$(dirname "$0")/.."
ids="$@"; [ -z "$ids" ] && ids=$(for d in seeded/*/; do [ -f "$d/meta.json" ] || basename "$d"; done)
for id in $ids; do
  res=$(tools/seed_confirm.sh "$PWD/seeded/$id" | tail -1 | sed 's/^[^:]*: //')
  echo "$id: $res"
  python3 - "$id" "$res" <<'PY'
import json,sys
id,res=sys.argv[1:]
json.dump({"id":id,"breaks_property":id[:3],
 "origin":"written by an independent sub-agent that saw only the property text and a scratch worktree of /repo (nothing from /verif)",
 "needs_to_manifest":"see notes.md (author's description)",
 "confirmed":{"how":"tools/seed_confirm.sh in a scratch worktree of /repo HEAD (with the fix: commits): patch applies; `cargo test --offline` passes with it; demo.rs (as tests/seeded_demo.rs) fails with it and passes without it","result":res},
 "detected_by":[]},open(f"seeded/{id}/meta.json","w"),indent=1)
PY
done
