#!/bin/bash
# usage: tools/seed_import.sh <Cxx> <src dir with a/ b/> <letters e.g. "c d">  -- copies a sub-agent's deliverables into seeded/
P="$1"; SRC="$2"; L=($3); i=0
cd "$(dirname "$0")/.."
for x in a b; do
  [ -f "$SRC/$x/patch.diff" ] || { i=$((i+1)); continue; }
  id="$P${L[$i]}"; mkdir -p "seeded/$id"
  cp "$SRC/$x/patch.diff" "$SRC/$x/demo.rs" "$SRC/$x/notes.md" "seeded/$id/"
  echo "imported $id"; i=$((i+1))
done
