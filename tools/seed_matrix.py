#!/usr/bin/env python3
"""Detection matrix: for each seeded change apply it to /repo, run the quick check of the property it
targets (or the checks given with --props), revert, and record the outcome in seeded/<id>/meta.json
("detected_by").  usage: tools/seed_matrix.py [--tier quick] [--props C01,C02] [ids...]"""
import json, os, subprocess, sys, time
ROOT = os.path.dirname(os.path.dirname(os.path.abspath(__file__)))
args = sys.argv[1:]; tier = "quick"; props = None; ids = []; ISO_ARG = None; RECORD = True
while args:
    a = args.pop(0)
    if a == "--tier": tier = args.pop(0)
    elif a == "--props": props = args.pop(0).split(",")
    elif a == "--iso": ISO_ARG = args.pop(0)
    elif a == "--norecord": RECORD = False
    else: ids.append(a)
ISO = ISO_ARG or "/var/tmp/zvm"
def sh(cmd, **kw): return subprocess.run(cmd, shell=True, capture_output=True, text=True, **kw)
# Isolation: the matrix works on its own copies (a git worktree of /repo HEAD and an rsync of /verif's working
# tree with the path dependency rewritten), so /repo and /verif stay untouched and can be worked on meanwhile.
REPO = ISO + "/repo"; VER = ISO + "/verif"
os.makedirs(ISO, exist_ok=True)
sh(f"git -C /repo worktree remove --force {REPO}"); sh("git -C /repo worktree prune")
r = sh(f"git -C /repo worktree add --detach {REPO} HEAD")
if r.returncode != 0: print("worktree failed", r.stderr); sys.exit(2)
sh(f"mkdir -p {VER} && rsync -a --delete --exclude .git --exclude harness/target --exclude harness/fuzz/target --exclude 'harness/fuzz/run-*' --exclude probes/c20_sendsync/target --exclude replays --exclude evidence {ROOT}/ {VER}/")
sh(f"mkdir -p {VER}/evidence {VER}/replays")
sh(f"sed -i 's#path = \"/repo\"#path = \"{REPO}\"#' {VER}/harness/Cargo.toml {VER}/harness/fuzz/Cargo.toml {VER}/probes/c20_sendsync/Cargo.toml")
if not ids: ids = sorted(d for d in os.listdir(ROOT + "/seeded") if os.path.exists(f"{ROOT}/seeded/{d}/patch.diff"))
for i in ids:
    d = f"{ROOT}/seeded/{i}"; mp = d + "/meta.json"
    meta = json.load(open(mp)) if os.path.exists(mp) else {"id": i, "breaks_property": i[:3]}
    r = sh(f"git -C {REPO} apply {d}/patch.diff")
    if r.returncode != 0:
        print(i, "NOAPPLY", r.stderr.strip()[:200]); continue
    det = [x for x in meta.get("detected_by", []) if isinstance(x, dict)]
    try:
        for p in (props or [meta.get("breaks_property", i[:3])]):
            t0 = time.time(); r = sh(f"cd {VER} && ./check {p} {tier}"); dt = time.time() - t0
            out = r.stdout + r.stderr
            viol = [l for l in out.splitlines() if l.startswith("VIOLATION")]
            msg = [l.strip() for l in out.splitlines() if "message=" in l or "msg=" in l][:1]
            rec = {"check": f"{p} {tier}", "exit": r.returncode, "detected": r.returncode == 1 and bool(viol),
                   "violation_line": viol[0] if viol else None, "message": (msg[0][:300] if msg else None), "wall_s": round(dt, 1)}
            det = [x for x in det if x.get("check") != rec["check"]] + [rec]
            print(i, p, tier, "exit=%d" % r.returncode, "DETECTED" if rec["detected"] else "MISSED", "%.0fs" % dt, (msg[0][:140] if msg else ""), flush=True)
    finally:
        sh(f"git -C {REPO} checkout -- .")
    meta["detected_by"] = det
    if RECORD: json.dump(meta, open(mp, "w"), indent=1)
sh(f"git -C /repo worktree remove --force {REPO}")
