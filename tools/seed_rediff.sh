#!/bin/bash
# Re-diffs every seeded patch in /tmp/seed-out against /repo HEAD (3-way if needed) and stores the result
# in /verif/seeded/<id><x>/patch.diff together with demo.rs and notes.md.
for d in /tmp/seed-out/C*/[ab]; do
  pid=$(basename $(dirname $d)); x=$(basename $d); dst=/verif/seeded/$pid$x
  WT=/tmp/rediff-wt; git -C /repo worktree remove --force $WT >/dev/null 2>&1
  git -C /repo worktree add -q --detach $WT HEAD
  ( cd $WT; if git apply --check $d/patch.diff 2>/dev/null; then git apply $d/patch.diff; st=clean
    elif git apply --3way $d/patch.diff >/dev/null 2>&1; then st=3way; else st=FAIL; fi
    if [ $st != FAIL ] && [ -z "$(git diff --name-only --diff-filter=U)" ]; then mkdir -p $dst; git diff HEAD > $dst/patch.diff; cp $d/demo.rs $d/notes.md $dst/; fi
    echo "$pid$x $st $(git diff HEAD --stat | tail -1)" )
  git -C /repo worktree remove --force $WT >/dev/null 2>&1
done
