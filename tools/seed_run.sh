#!/bin/bash
# usage: tools/seed_run.sh <dir with patch.diff> <Cxx> [tier]  -- applies the seeded change to /repo, runs the check, reverts.
D="$1"; P="$2"; T="${3:-quick}"
cd /repo || exit 2
if [ -n "$(git status --porcelain --untracked-files=no)" ]; then echo "repo dirty"; exit 2; fi
git apply "$D/patch.diff" || { echo "NOAPPLY $D"; exit 2; }
cd /verif; out=$(./check "$P" "$T" 2>&1); code=$?
git -C /repo checkout -- .
echo "== $D on $P ($T): exit=$code"; echo "$out" | grep -E "VIOLATION|message=|HARNESS|inconclusive" | head -4
